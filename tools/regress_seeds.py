#!/usr/bin/env python3
"""Re-run every kept seeded change against the quick check of its property on the current /repo HEAD.
usage: tools/regress_seeds.py [--out seeded/REGRESSION.json] [name-prefix...]
Each patch is applied to /repo, checked and reverted (tools/try_seed.sh). A patch that no longer applies
(the code it touched was changed by a later fix) is recorded as such."""
import json, os, re, subprocess, sys, glob, time
out = "/verif/seeded/REGRESSION.json"
args = sys.argv[1:]
if args[:1] == ["--out"]:
    out = args[1]; args = args[2:]
res = {}
if os.path.exists(out):
    res = json.load(open(out))
for d in sorted(glob.glob("/verif/seeded/*/")):
    name = os.path.basename(d.rstrip("/"))
    if args and not any(name.startswith(a) for a in args):
        continue
    meta = json.load(open(d + "meta.json"))
    prop = meta.get("regress_check", meta["property"])
    t0 = time.time()
    p = subprocess.run(["/verif/tools/try_seed.sh", d + "patch.diff", "quick", prop], capture_output=True, text=True)
    txt = p.stdout + p.stderr
    if "patch does not apply" in txt:
        verdict = "patch no longer applies to HEAD"
    else:
        m = re.search(r"== (\w+) rc=(\d+) violations=(\d+)", txt)
        verdict = f"rc={m.group(2)} violations={m.group(3)}" if m else "no result: " + txt[-200:]
    sigs = re.findall(r"signature: (.*)", txt)[:3]
    res[name] = {"property": prop, "verdict": verdict, "signatures": sigs, "secs": round(time.time() - t0)}
    print(name, prop, verdict, sigs[:1], flush=True)
    json.dump(res, open(out, "w"), indent=1)
det = sum(1 for v in res.values() if v["verdict"].startswith("rc=1"))
print(f"{det} of {len(res)} detected")

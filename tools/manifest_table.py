# Table consumed by gen_manifest.py
NOT_APPLICABLE = {}
NOTES = ("All checks are bounded exhaustive exploration of the real rivia code (see DESIGN.md): explicit-state BFS over the real Memfs (E1), "
         "exhaustive critical-section schedule enumeration (E2), exhaustive input enumeration (E3), exhaustive tree x call enumeration on both backends in "
         "single-threaded worker processes on tmpfs sandboxes (E4) and exhaustive environment cross-products (E5). "
         "./check <id> --tier quick|thorough [--replay f]; exit 0 held / 1 VIOLATION / 2 machinery. "
         "Genuine defects found on the pinned tree were repaired by fix: commits in /repo or are listed in known_findings.jsonl (reported as KNOWN-FINDING lines).")
ENGINES = [
 {"name": "E1 space", "path": "harness/src/engines/space.rs", "serves_properties": ["C01", "C03", "C06", "C09", "C13", "C20"], "kind_free_text": "explicit-state breadth-first search over the real Memfs (deep-clone hook), RefFs reference model bound by an abstraction function on every transition"},
 {"name": "E2 sched", "path": "harness/src/engines/sched.rs", "serves_properties": ["C04"], "kind_free_text": "stateless exhaustive enumeration of critical-section interleavings of real threads over one Memfs via lock-event hooks"},
 {"name": "E3 enum", "path": "harness/src/props", "serves_properties": ["C12", "C14", "C15", "C16", "C19"], "kind_free_text": "bounded exhaustive input enumeration of pure functions against executable reference definitions"},
 {"name": "E4 dual", "path": "harness/src/engines/{sandbox,workers}.rs", "serves_properties": ["C02", "C05", "C07", "C08", "C10", "C11"], "kind_free_text": "exhaustive tree x call enumeration on Memfs and on Stdfs in re-exec'd single-threaded worker processes with private tmpfs sandboxes"},
 {"name": "E5 envx", "path": "harness/src/props/c17.rs, c18.rs", "serves_properties": ["C17", "C18"], "kind_free_text": "exhaustive environment configurations, each evaluated in worker processes with an explicit environment"},
]
reg("C01", "E1 space", "model_checking", "explicit-state BFS to fixpoint over the real Memfs; every transition compared with a reference model through an abstraction function",
    "Reachability fixpoint of the real Memfs from Memfs::new() under four call alphabets (structure incl. respelled paths, content, metadata, chain namespace); every (state, call) is executed on a deep clone and its result, error kind and resulting tree compared with RefFs (written from the trait docs); every query method x namespace path is evaluated in every state; failed single-target calls must leave the complete dump unchanged.",
    "Trusts RefFs where docs are explicit (Either where silent), the dump hook's completeness, and a 128-bit state hash. Namespace bounded ({a,b} depth 2, chain depth 3, <=3/4 entries expanded).", "DESIGN.md §4 C01")
reg("C03", "E1 space", "model_checking", "explicit-state BFS with hostile alphabets; structural invariants on the complete dump of every successor state",
    "Same engine as C01 with alphabets widened by hostile arguments (through links, above the root, the root itself, empty paths, relative after the cwd vanished, moves/copies into the own subtree); invariants I1-I8 are evaluated on the complete dump after every successful and failed call; I6 (recursive listing = stored paths) in every state.",
    "A malformed successor is reported and not expanded. Quiescent states after concurrent schedules are checked by C04's engine.", "DESIGN.md §4 C03")
reg("C07", "E4 dual", "model_checking", "exhaustive enumeration of read/seek sequences and write chunk/flush/drop histories against std::io::Cursor / a byte-vector model, on both backends",
    "All sequences up to length 4 (quick) / 6 (thorough) over a read/seek alphabet with out-of-range offsets are run step by step against std::io::Cursor on Memfs handles and (in worker processes) real Stdfs files; every chunking x flush pattern x drop point of write/append handles is checked against a byte-vector model after each flush and at drop.",
    "std::io::Cursor and std::fs::File are the oracles; Stdfs on tmpfs (no short reads).", "DESIGN.md §4 C07")
reg("C08", "E4 dual", "model_checking", "exhaustive tree x start x option cross-product; observed iterator sequence validated as a legal linearisation of a recursively computed expected walk",
    "Every tree of a bounded family (names {a,b,c}, links incl. cycles/chains/dangling) x every start path x the full cross product of entries() options (1680 tuples incl. descriptor caps via hook) is traversed on the real iterator; the yielded multiset must be exact and the order a legal linearisation; listing helpers are checked against exists/is_dir/is_file and across backends.",
    "Unsorted sibling order is free; following link chains only gets the weak checks; Stdfs half only on trees whose links resolve.", "DESIGN.md §4 C08")
reg("C10", "E4 dual", "model_checking", "exhaustive (link position, target position, target kind, spelling) enumeration with follow-up transitions on both backends",
    "All link/target position pairs up to depth 3 (quick) / 5 (thorough) x target kinds x 6 spellings; after symlink every clause of the statement is checked (readlink/readlink_abs laws, link exclusion, kind at creation, entry.follow laws), then remove/chmod/chown/re-symlink follow-ups from fresh copies with full-state diffs; Stdfs in root worker processes, cross-checked with std::fs::read_link.",
    "Stdfs half runs as euid 0 on tmpfs; link-to-link only for link->file.", "DESIGN.md §4 C10")
reg("C11", "E4 dual", "model_checking", "exhaustive grammar sweep (modes x clauses x kinds) against a reference mode calculator plus exhaustive tree x call enumeration with full dump diffs",
    "All permission values (32 covering / 512) x all single clauses and ordered clause pairs of the documented grammar x entry kinds through chmod_b().sym().exec(); every malformed string up to length 4/5; all trees of a bounded family x every chmod/chown builder variant with a full before/after dump diff (exactly the selected entries changed, to exactly the requested value); is_exec/is_readonly vs mode in every state; Stdfs half as root on tmpfs.",
    "ref_mode transcribes the documented grammar; failing recursive calls only constrain unselected entries (hash-order dependent partial results).", "DESIGN.md §4 C11")
reg("C14", "E3 enum", "exploration", "bounded exhaustive input enumeration vs reference implementation (Go path.Clean transliteration)",
    "Every string over {/,.,a,b} up to length 10 (quick) / 12 (thorough) and over a wider 6-symbol alphabet up to 6/8 is cleaned by rivia and by a transliteration of Go's path.Clean; equality, idempotence, absoluteness and non-emptiness are checked on each.",
    "Trusts the Go transliteration (self-tested against Go's table) and std::path::Path::components; longer inputs only sampled.", "DESIGN.md §4 C14")
reg("C15", "E3 enum", "exploration", "bounded exhaustive enumeration of strings and string pairs against string-level / Component-level laws",
    "All strings up to length 6/7 and all pairs up to length 4 (plus bands) over {a,/,.,:,b,é,€}: every law of the statement (mash, trim_prefix/suffix, trim_ext/ext/name, dir/base, first/last splits, has*, trim_protocol incl. all case variants, concat, parse_paths) on the free-function and PathExt forms, under catch_unwind.",
    "Laws compared at string level exactly as stated; longer strings only by the labelled random supplement.", "DESIGN.md §4 C15")
reg("C16", "E3 enum", "exploration", "exhaustive enumeration of ordered pairs of clean absolute paths against the navigation law",
    "All ordered pairs of clean absolute paths with <= 4 components over 3 names (14 641 pairs; thorough up to 9 components / 11.8M pairs): relative() must be '..'* then normal components, with the exact '..' count, and clean(base/result) == path.",
    "go_clean is the cleaning oracle.", "DESIGN.md §4 C16")
reg("C17", "E5 envx", "exploration", "exhaustive environment x template enumeration in worker processes against a reference expander",
    "40 environments (HOME x V1 x V2) x all templates up to a token bound (1.4M quick / 9.2M thorough) evaluated in single-threaded worker processes with explicit environments; results compared with a string-level reference expander that returns every acceptable outcome where the statement is ambiguous; fresh-process self-check of every 2nd environment.",
    "Ambiguous forms (~text, unclosed ${, stray }) accept several outcomes; abs() only compared for Ok/Err.", "DESIGN.md §4 C17")
reg("C18", "E5 envx", "exploration", "exhaustive cross-product of environment settings evaluated in worker processes against a transcription of the statement",
    "Full cross product of HOME/XDG_* settings (91 125 configurations quick, 1.4M thorough) x all nine lookup functions, config_dir over every subset of candidate directories on Memfs and Stdfs, getrids over uid/gid/SUDO_* values; distinct values per variable so a wrong-variable read is detected; fresh-process self-checks.",
    "Empty XDG_*_HOME may be treated as set or unset (statement vs XDG spec).", "DESIGN.md §4 C18")
reg("C19", "E3 enum", "exploration", "exhaustive enumeration of sequence lengths x index pairs, strings, and defer control-flow shapes against plain definitions",
    "drop/slice on lengths 0..=8 x indices -10..=10 on four iterator kinds against Vec indexing; first/last/single/some/consume; size/to_bool/trim_suffix on all strings to length 5/7; Option::has; take_while_p on all sequences to length 6/9 x predicates x drive modes; 3.5M (quick) real defer/defer! programs over all small control-flow shapes with an event log compared to a scope-exit model.",
    "slice precondition left >= -len respected.", "DESIGN.md §4 C19")

# Table consumed by gen_manifest.py
NOT_APPLICABLE = {}
NOTES = ("All checks are bounded exhaustive exploration of the real rivia code (see DESIGN.md). "
         "./check <id> --tier quick|thorough [--replay f]; exit 0 held / 1 VIOLATION / 2 machinery. "
         "Known genuine defects are listed in known_findings.jsonl and reported as KNOWN-FINDING lines.")
ENGINES = [
 {"name": "E3 enum", "path": "harness/src/props", "serves_properties": ["C14"], "kind_free_text": "bounded exhaustive input enumeration of pure functions against executable reference definitions"},
]
reg("C14", "E3 enum", "exploration", "bounded exhaustive input enumeration vs reference implementation (Go path.Clean transliteration)",
    "Every string over {/,.,a,b} up to length 10 (quick) / 12 (thorough) and over a wider 6-symbol alphabet up to 6/8 is cleaned by rivia and by a transliteration of Go's path.Clean; equality, idempotence, absoluteness and non-emptiness are checked on each. Exhaustive within the bound, so any rule mis-ordering that needs <= 12 characters to show is found.",
    "Trusts the Go transliteration (self-tested against Go's table) and std::path::Path::components; longer inputs only sampled.", "DESIGN.md §4 C14")

#!/bin/bash
# run the repo's lib test-suite; succeed iff 224 passed and only the known always-failing test failed
cd /repo
out=$(cargo test --offline --lib 2>&1)
echo "$out" | grep -E "^test result"
fails=$(echo "$out" | grep -E "^test .* \.\.\. FAILED" | grep -v "sys::user::tests::test_user_ids")
if [ -n "$fails" ]; then echo "UNEXPECTED FAILURES:"; echo "$fails"; exit 1; fi
echo "$out" | grep -q "224 passed; 1 failed" || { echo "count mismatch"; exit 1; }
echo SUITE-OK

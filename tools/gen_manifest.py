#!/usr/bin/env python3
"""Generate /verif/MANIFEST.json from the table below (single source of truth for the interface)."""
import json, os, sys
ROOT = os.path.dirname(os.path.dirname(os.path.abspath(__file__)))
props = [json.loads(l) for l in open(os.path.join(ROOT, "properties.jsonl"))]
ids = [p["id"] for p in props]

# id -> (engine, category, technique, level text, level note, design ref)
CHECKS = {}
def reg(i, engine, cat, tech, text, note, ref):
    CHECKS[i] = dict(engine=engine, cat=cat, tech=tech, text=text, note=note, ref=ref)

exec(open(os.path.join(ROOT, "tools", "manifest_table.py")).read())

checks = []
for i in ids:
    if i not in CHECKS: continue
    c = CHECKS[i]
    checks.append({
        "property_id": i,
        "quick_cmd": f"./check {i} --tier quick",
        "thorough_cmd": f"./check {i} --tier thorough",
        "evidence_file": f"/verif/evidence/{i}.json",
        "replay_cmd_template": f"./check {i} --replay {{path}}",
        "engine": c["engine"],
        "level_claimed": {"category": c["cat"], "text": c["text"], "design_ref": c["ref"]},
        "level_note": c["note"],
        "technique": c["tech"],
    })
na = [{"property_id": i, "reason": NOT_APPLICABLE.get(i, "check not built yet in this session; will be claimed once its engine lands (no technique switch)")} for i in ids if i not in CHECKS]
hooks = os.popen("git -C /repo log --format=%H --grep='^verif hook' --reverse").read().split()
m = {
    "version": 1,
    "setup_cmd": "cd /verif/harness && CARGO_NET_OFFLINE=true CARGO_TARGET_DIR=/verif/target RUSTFLAGS='--cfg rivia_verif' cargo build --release --offline",
    "hooks": {
        "guard": "cfg(rivia_verif)",
        "enable": "RUSTFLAGS='--cfg rivia_verif' (set by ./check and harness/.cargo/config.toml); rivia is a path dependency of /verif/harness so every check rebuilds from /repo's working tree",
        "baseline_off_cmd": "cd /repo && cargo test --workspace --no-fail-fast --offline",
        "source_commits": hooks,
        "add_only": True,
    },
    "engines": ENGINES,
    "checks": checks,
    "notes": NOTES,
    "not_applicable": na,
}
json.dump(m, open(os.path.join(ROOT, "MANIFEST.json"), "w"), indent=1)
print("checks:", [c["property_id"] for c in checks], "not_applicable:", [n["property_id"] for n in na])

#!/usr/bin/env python3
"""Keep a confirmed seeded change under /verif/seeded/<name>/ (patch.diff, mut_demo.rs, meta.json).
usage: keep_seed.py <name> <outdir> <detected|missed-then-strengthened> "<checks and signatures that catch it>" """
import json, os, shutil, sys
name, out, status, caught = sys.argv[1:5]
d = f"/verif/seeded/{name}"
os.makedirs(d, exist_ok=True)
shutil.copy(f"{out}/patch.diff", f"{d}/patch.diff")
shutil.copy(f"{out}/mut_demo.rs", f"{d}/mut_demo.rs")
meta = json.load(open(f"{out}/meta.json"))
meta["confirmed_by_harness_owner"] = {
    "ran": "tools/confirm_seed.sh <worktree>: cargo test --offline --lib (224 passed + the always-failing test_user_ids), "
           "cargo test --test mut_demo with the change (fails) and with the change reverted (passes); "
           "then tools/try_seed.sh patch.diff quick <check> against /repo (applied, checked, reverted)",
    "status": status,
    "caught_by": caught,
}
json.dump(meta, open(f"{d}/meta.json", "w"), indent=1)
print("kept", d)

#!/usr/bin/env python3
"""Automated mutation campaign against the checks (supplement to the hand-made seeded changes).

For every syntactic mutant of rivia's production code (one token-level change each):
  1. does it compile and does the repository's own unit suite still pass?  (else: killed by the suite)
  2. if it survives the suite: do the checks mapped to that source file report a violation?
Survivors of both are listed for inspection (equivalent mutant, code outside every property, or a gap).

Runs W workers in parallel, each with its own git worktree of /repo, its own copy of /verif/harness
(path dependency re-pointed) and its own target directories, all under --work (default /tmp/mc).
Nothing under /repo or /verif is modified except the result file given with --out.

usage: mutcamp.py --out results.jsonl [--workers 4] [--threads 4] [--files a.rs,b.rs] [--limit N] [--seed S]
       mutcamp.py --seeds --out seeded/REGRESSION.json   (re-run every kept seeded change against the quick check of its property)
"""
import argparse, json, os, re, random, shutil, subprocess, sys, time
from concurrent.futures import ThreadPoolExecutor

REPO = "/repo"
VERIF = "/verif"

FILE_CHECKS = {
    "src/sys/fs/memfs/vfs.rs": ["C03", "C01", "C02", "C04", "C09", "C10", "C06", "C11", "C08", "C13", "C20", "C05"],
    "src/sys/fs/memfs/file.rs": ["C07", "C06", "C04", "C01"],
    "src/sys/fs/memfs/entry.rs": ["C01", "C10", "C11", "C08", "C03", "C02"],
    "src/sys/fs/entries.rs": ["C08", "C11", "C09", "C01"],
    "src/sys/fs/entry_iter.rs": ["C08", "C11", "C09"],
    "src/sys/fs/path.rs": ["C14", "C15", "C16", "C17", "C05", "C10", "C12", "C01"],
    "src/sys/fs/chmod.rs": ["C11", "C02"],
    "src/sys/fs/copy.rs": ["C09", "C02", "C01"],
    "src/sys/fs/chown.rs": ["C11", "C02"],
    "src/core/iter.rs": ["C19", "C15", "C12"],
    "src/core/string.rs": ["C19", "C15", "C12"],
    "src/core/option.rs": ["C19", "C14"],
    "src/core/peekable.rs": ["C19", "C17"],
    "src/core/defer.rs": ["C19"],
    "src/sys/fs/stdfs/mod.rs": ["C02", "C09", "C10", "C11", "C08", "C05", "C13", "C07", "C06"],
    "src/sys/fs/stdfs/entry.rs": ["C02", "C10", "C08", "C13", "C11"],
    "src/sys/fs/vfs.rs": ["C13"],
    "src/sys/fs/stdfs/vfs.rs": ["C13"],
    "src/sys/fs/entry.rs": ["C13", "C08", "C11", "C01"],
    "src/testing/assert.rs": ["C20"],
    "src/testing/mod.rs": ["C20"],
    "src/sys/user.rs": ["C18"],
}

OPS = [
    (r" == ", " != "), (r" != ", " == "),
    (r" < ", " <= "), (r" <= ", " < "), (r" > ", " >= "), (r" >= ", " > "),
    (r" && ", " || "), (r" \|\| ", " && "),
    (r"\btrue\b", "false"), (r"\bfalse\b", "true"),
    (r" \+ 1\b", " + 0"), (r" - 1\b", " - 0"),
    (r"\bif !", "if "), (r"&& !", "&& "), (r"\|\| !", "|| "),
    (r"\.is_dir\(\)", ".is_file()"), (r"\.is_file\(\)", ".is_dir()"),
    (r"\.is_symlink\(\)", ".is_dir()"),
    (r"\.is_some\(\)", ".is_none()"), (r"\.is_none\(\)", ".is_some()"),
    (r"\.is_empty\(\)", ".is_empty() == false"),
    (r"\.first\b", ".last"), (r"\bmin\(", "max("),
    (r"\.starts_with\(", ".ends_with("), (r"\.ends_with\(", ".starts_with("),
    (r"Some\(mode\)", "None"), (r"\.or\(Some\(", ".and(Some("),
    (r"0o0*444\b", "0o222"), (r"0o0*222\b", "0o111"), (r"0o0*111\b", "0o444"),
    (r"0o0700\b", "0o0070"), (r"0o0070\b", "0o0007"), (r"0o0007\b", "0o0700"),
    (r"usize::MAX", "1"),
]
DELETE_STMT = re.compile(r"^\s*(guard|self|parent|new_parent|old_parent|entry|x|f|file|path_buf|dst|paths|entries|comps|chain|work)\.[a-z_]+\(.*\)\??;\s*$")
CONTINUE_STMT = re.compile(r"^\s*(continue|break);\s*$")


def production_lines(path):
    """yield (lineno, text) of production code lines (no tests, no comments, no verification hooks)"""
    lines = open(path).read().split("\n")
    in_hook = 0
    for i, l in enumerate(lines):
        if "#[cfg(test)]" in l:
            break
        s = l.strip()
        if "rivia_verif" in l:
            in_hook = 12  # skip the hooked item (hooks are short)
        if in_hook > 0:
            in_hook -= 1
            if "verif" in l or in_hook > 0 and ("crate::verif" in l or s.startswith("#[cfg")):
                continue
        if not s or s.startswith("//") or s.startswith("#[") or s.startswith("use ") or "verif" in l:
            continue
        yield i, l


def gen_mutants(files):
    muts = []
    for f in files:
        path = os.path.join(REPO, f)
        if not os.path.exists(path):
            continue
        for i, l in production_lines(path):
            code = l.split("//")[0] if "//" in l and '"' not in l else l
            for pat, rep in OPS:
                for m in re.finditer(pat, code):
                    new = code[: m.start()] + re.sub(pat, rep, code[m.start() : m.end()], count=1) + code[m.end() :]
                    if new != code:
                        muts.append({"file": f, "line": i + 1, "old": l, "new": new + l[len(code) :], "op": f"{pat} -> {rep}"})
            if DELETE_STMT.match(code) or CONTINUE_STMT.match(code):
                muts.append({"file": f, "line": i + 1, "old": l, "new": re.sub(r"\S.*$", "// (statement deleted)", l, count=1), "op": "delete statement"})
    return muts


def sh(cmd, cwd=None, env=None, timeout=None):
    # own session, so that a timeout takes the whole process tree down (a mutant can make a test binary spin for ever)
    p = subprocess.Popen(cmd, cwd=cwd, env=env, shell=True, stdout=subprocess.PIPE, stderr=subprocess.STDOUT, text=True, start_new_session=True)
    try:
        out, _ = p.communicate(timeout=timeout)
        return p.returncode, out
    except subprocess.TimeoutExpired:
        import signal
        try:
            os.killpg(p.pid, signal.SIGKILL)
        except ProcessLookupError:
            pass
        p.communicate()
        return 124, "TIMEOUT"


class Worker:
    def __init__(self, idx, work, threads):
        self.idx, self.threads = idx, threads
        self.base = os.path.join(work, f"w{idx}")
        self.repo = os.path.join(self.base, "repo")
        self.harness = os.path.join(self.base, "harness")
        self.vr = os.path.join(self.base, "vr")
        shutil.rmtree(self.base, ignore_errors=True)
        os.makedirs(self.vr)
        sh(f"git -C {REPO} worktree prune")
        rc, out = sh(f"git -C {REPO} worktree add --detach {self.repo}")
        assert rc == 0, out
        shutil.copytree(os.path.join(VERIF, "harness"), self.harness, ignore=shutil.ignore_patterns("target"))
        ct = open(os.path.join(self.harness, "Cargo.toml")).read().replace('path = "/repo"', f'path = "{self.repo}"')
        open(os.path.join(self.harness, "Cargo.toml"), "w").write(ct)
        cfg = open(os.path.join(self.harness, ".cargo/config.toml")).read().replace("/verif/target", os.path.join(self.base, "htarget"))
        open(os.path.join(self.harness, ".cargo/config.toml"), "w").write(cfg)
        shutil.copy(os.path.join(VERIF, "known_findings.jsonl"), self.vr)
        self.env = dict(os.environ, CARGO_NET_OFFLINE="true", VERIF_ROOT=self.vr, VERIF_THREADS=str(threads), RUSTFLAGS="")
        self.env.pop("RUSTFLAGS")
        # warm builds
        sh(f"cargo test --offline --lib --no-run -j{threads}", cwd=self.repo, env=self.env, timeout=1200)
        rc, out = sh(f"cargo build --release --offline -j{threads}", cwd=self.harness, env=self.env, timeout=1800)
        assert rc == 0, out[-2000:]

    def recreate(self):
        shutil.rmtree(self.repo, ignore_errors=True)
        sh(f"git -C {REPO} worktree prune")
        rc, out = sh(f"git -C {REPO} worktree add --detach {self.repo}")
        assert rc == 0, out
        sh(f"cargo test --offline --lib --no-run -j{self.threads}", cwd=self.repo, env=self.env, timeout=1200)

    def close(self):
        sh(f"git -C {REPO} worktree remove --force {self.repo}")
        shutil.rmtree(self.base, ignore_errors=True)

    def run(self, m):
        path = os.path.join(self.repo, m["file"])
        src = open(path).read()
        lines = src.split("\n")
        if lines[m["line"] - 1] != m["old"]:
            return dict(m, verdict="skipped (line drifted)")
        lines[m["line"] - 1] = m["new"]
        open(path, "w").write("\n".join(lines))
        try:
            t0 = time.time()
            # rivia's own tests work on the real filesystem relative to the cwd; a mutant can make them delete
            # something else (one removed its whole worktree): run them in a mount namespace in which only
            # this worker's directory is writable
            inner = f"mount --make-rprivate / && mount --bind {self.base} {self.base} && mount -o remount,bind,ro / && cd {self.repo} && TMPDIR={self.base}/tmp cargo test --offline --lib -j{self.threads} 2>&1 | tail -40"
            os.makedirs(f"{self.base}/tmp", exist_ok=True)
            rc, out = sh(f"unshare -m bash -c {json.dumps(inner)}", cwd=self.base, env=self.env, timeout=900)
            if not os.path.exists(path):
                # the mutant made rivia's own tests delete their working tree: that is a kill, and the
                # worker needs a new worktree
                self.recreate()
                return dict(m, verdict="killed by the suite (the tests deleted their own working tree)")
            if "error" in out and "could not compile" in out:
                return dict(m, verdict="does not compile")
            mres = re.search(r"test result: \w+\. (\d+) passed; (\d+) failed", out)
            if rc == 124 or not mres:
                return dict(m, verdict="suite: timeout/hang or no result (killed by the suite)")
            if not (mres.group(1) == "224" and mres.group(2) == "1"):
                return dict(m, verdict=f"killed by the suite ({mres.group(1)} passed, {mres.group(2)} failed)")
            # survived the suite: run the mapped checks
            rc, out = sh(f"cargo build --release --offline -q -j{self.threads}", cwd=self.harness, env=self.env, timeout=1800)
            if rc != 0:
                return dict(m, verdict="harness does not build against the mutant", detail=out[-600:])
            exe = os.path.join(self.base, "htarget/release/rvmc")
            for cid in FILE_CHECKS.get(m["file"], []):
                rc, out = sh(f"{exe} {cid} --tier quick", cwd=VERIF, env=self.env, timeout=1500)
                if rc == 1 or "VIOLATION" in out:
                    sig = re.findall(r"signature: (.*)", out)
                    return dict(m, verdict=f"killed by {cid}", signature=(sig[0] if sig else "")[:200], secs=round(time.time() - t0))
                if rc not in (0, 1):
                    return dict(m, verdict=f"machinery exit {rc} in {cid}", detail=out[-400:], secs=round(time.time() - t0))
            return dict(m, verdict="SURVIVED suite and checks", checks=FILE_CHECKS.get(m["file"], []), secs=round(time.time() - t0))
        finally:
            if os.path.exists(os.path.dirname(path)):
                open(path, "w").write(src)


def run_seed(w, d):
    """apply one kept seeded change in the worker's private worktree, run the quick check of its property"""
    name = os.path.basename(d.rstrip("/"))
    meta = json.load(open(os.path.join(d, "meta.json")))
    cid = meta.get("regress_check", meta["property"])
    t0 = time.time()
    rc, out = sh(f"git -C {w.repo} apply {os.path.join(d, 'patch.diff')}")
    if rc != 0:
        return {"seed": name, "check": cid, "verdict": "patch no longer applies to HEAD"}
    try:
        rc, out = sh(f"cargo build --release --offline -q -j{w.threads}", cwd=w.harness, env=w.env, timeout=1800)
        if rc != 0:
            return {"seed": name, "check": cid, "verdict": "harness does not build against the change", "detail": out[-400:]}
        exe = os.path.join(w.base, "htarget/release/rvmc")
        rc, out = sh(f"{exe} {cid} --tier quick", cwd=VERIF, env=w.env, timeout=2400)
        sigs = re.findall(r"signature: (.*)", out)
        verdict = "detected" if (rc == 1 or "VIOLATION" in out) else ("NOT DETECTED" if rc == 0 else f"machinery exit {rc}")
        return {"seed": name, "check": cid, "verdict": verdict, "signatures": [x[:160] for x in sigs[:3]], "secs": round(time.time() - t0)}
    finally:
        sh(f"git -C {w.repo} checkout -- .")


def main_seeds(a):
    import glob, queue, threading
    seeds = sorted(glob.glob(os.path.join(VERIF, "seeded", "*", "")))
    only = [x for x in os.environ.get("SEEDS_ONLY", "").split(",") if x]
    if only:
        seeds = [d for d in seeds if any(os.path.basename(d.rstrip("/")).startswith(o) for o in only)]
    os.makedirs(a.work, exist_ok=True)
    workers = [Worker(i, a.work, a.threads) for i in range(a.workers)]
    q = queue.Queue()
    for d in seeds:
        q.put(d)
    res, lock = (json.load(open(a.out)) if os.path.exists(a.out) else {}), threading.Lock()
    def loop(w):
        while True:
            try:
                d = q.get_nowait()
            except queue.Empty:
                return
            try:
                r = run_seed(w, d)
            except Exception as e:
                r = {"seed": os.path.basename(d.rstrip("/")), "verdict": f"error: {e}"}
            with lock:
                res[r["seed"]] = r
                json.dump(res, open(a.out, "w"), indent=1, sort_keys=True)
                print(r["seed"], r.get("check"), r["verdict"], (r.get("signatures") or [""])[0][:100], flush=True)
    with ThreadPoolExecutor(len(workers)) as ex:
        list(ex.map(loop, workers))
    for w in workers:
        w.close()
    det = sum(1 for r in res.values() if r["verdict"] == "detected")
    print(f"{det} of {len(res)} detected")


def main():
    if "--seeds" in sys.argv:
        ap = argparse.ArgumentParser()
        ap.add_argument("--seeds", action="store_true")
        ap.add_argument("--out", required=True)
        ap.add_argument("--workers", type=int, default=4)
        ap.add_argument("--threads", type=int, default=4)
        ap.add_argument("--work", default="/tmp/mcseeds")
        return main_seeds(ap.parse_args())
    ap = argparse.ArgumentParser()
    ap.add_argument("--out", required=True)
    ap.add_argument("--workers", type=int, default=4)
    ap.add_argument("--threads", type=int, default=4)
    ap.add_argument("--files", default=",".join(FILE_CHECKS.keys()))
    ap.add_argument("--limit", type=int, default=0)
    ap.add_argument("--seed", type=int, default=1)
    ap.add_argument("--work", default="/tmp/mc")
    a = ap.parse_args()
    muts = gen_mutants(a.files.split(","))
    random.Random(a.seed).shuffle(muts)
    if a.limit:
        muts = muts[: a.limit]
    done = set()
    if os.path.exists(a.out):
        for l in open(a.out):
            try:
                j = json.loads(l)
                done.add((j["file"], j["line"], j["new"]))
            except Exception:
                pass
    muts = [m for m in muts if (m["file"], m["line"], m["new"]) not in done]
    print(f"{len(muts)} mutants to run ({len(done)} already in {a.out})", flush=True)
    os.makedirs(a.work, exist_ok=True)
    workers = [Worker(i, a.work, a.threads) for i in range(a.workers)]
    print("workers ready", flush=True)
    import queue
    q = queue.Queue()
    for m in muts:
        q.put(m)
    lock = __import__("threading").Lock()
    def loop(w):
        while True:
            try:
                m = q.get_nowait()
            except queue.Empty:
                return
            try:
                r = w.run(m)
            except Exception as e:
                r = dict(m, verdict=f"campaign error: {e}")
            with lock:
                with open(a.out, "a") as f:
                    f.write(json.dumps(r) + "\n")
                print(f"[w{w.idx}] {r['file']}:{r['line']} {r['op']} -> {r['verdict']}", flush=True)
    with ThreadPoolExecutor(len(workers)) as ex:
        list(ex.map(loop, workers))
    for w in workers:
        w.close()


if __name__ == "__main__":
    main()

#!/usr/bin/env python3
"""Regenerate the seeded-change table of DESIGN.md §14.1 from /verif/seeded/*/meta.json."""
import json, glob, os, re
rows = []
for d in sorted(glob.glob('/verif/seeded/*/')):
    m = json.load(open(d + 'meta.json'))
    c = m.get('confirmed_by_harness_owner', {})
    name = os.path.basename(d.rstrip('/'))
    def cell(x):
        return str(x).replace('|', '\\|').replace('\n', ' ')
    rows.append(f"| `{name}` — {cell(m.get('summary',''))[:260]} | {cell(m.get('needs_to_manifest',''))[:220]} | {'**strengthened** — ' if c.get('status','').startswith('missed') else ''}{cell(c.get('caught_by',''))[:420]} |")
table = "| seeded change (directory under `/verif/seeded/`) | needs to manifest | caught by |\n|---|---|---|\n" + "\n".join(rows) + "\n"
p = '/verif/DESIGN.md'
s = open(p).read()
start = s.index('| seeded change')
end = s.index('### 14.2')
s = s[:start] + table + "\n" + s[end:]
open(p, 'w').write(s)
print(len(rows), "rows")

#!/bin/bash
# Confirm a seeded change inside its own worktree: suite passes with the change, demo fails with it
# and passes without it. usage: tools/confirm_seed.sh <worktree> 
set -u
wt="$1"
cd "$wt" || exit 3
echo "--- suite with change"
cargo test --offline --lib -j8 2>&1 | grep -E "^test result|\.\.\. FAILED" | head -5
echo "--- demo with change (expected: FAIL)"
cargo test --offline --test mut_demo -j8 2>&1 | grep -E "^test result|panicked|FAILED" | head -4
git diff -- src > /tmp/confirm.$$.diff; git apply -R /tmp/confirm.$$.diff
echo "--- demo without change (expected: pass)"
cargo test --offline --test mut_demo -j8 2>&1 | grep -E "^test result|panicked|FAILED" | head -4
git apply /tmp/confirm.$$.diff; rm -f /tmp/confirm.$$.diff
git status --short | head -5

#!/bin/bash
# Apply a seeded change to /repo, run the given checks against it, and ALWAYS undo it afterwards.
# usage: tools/try_seed.sh <patch.diff> <quick|thorough> <check id>...
set -u
patch="$1"; tier="$2"; shift 2
cd /verif
if ! git -C /repo diff --quiet; then echo "refusing: /repo has uncommitted changes" >&2; exit 3; fi
if ! git -C /repo apply "$patch"; then echo "patch does not apply to /repo HEAD" >&2; exit 3; fi
trap 'git -C /repo checkout -- . ; git -C /repo status --short | head -3' EXIT
for id in "$@"; do
  out=$(timeout 1800 ./check "$id" --tier "$tier" 2>&1)
  rc=$?
  nv=$(echo "$out" | grep -c "^VIOLATION")
  echo "== $id rc=$rc violations=$nv"
  echo "$out" | grep -E "signature:" | head -6 | cut -c1-220
  echo "$out" | grep -E "machinery" | head -3
done

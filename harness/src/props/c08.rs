//! C08 Traversal yields exactly the selected entries, once, in order, and terminates.
//!
//! states = model trees, transitions = traversals (tree x start x option tuple) executed on the real
//! `EntriesIter`; oracle = `models::ref_walk` (expected walk computed from the model tree + legal
//! linearisation validator). Memfs half in threads, Stdfs half (+ Memfs under the same prefix for
//! the cross-backend comparison) in single-threaded worker processes with private sandboxes.
use crate::common::json::{self, J};
use crate::common::par::*;
use crate::common::report::*;
use crate::engines::sandbox::Sandbox;
use crate::engines::workers::{run_workers, Gathered, Launch, WorkerCtx};
use crate::models::ref_walk::*;
use crate::models::tree::*;
use rivia::prelude::*;
use std::collections::{BTreeMap, BTreeSet};
use std::panic::{catch_unwind, AssertUnwindSafe};
use std::sync::atomic::{AtomicU64, Ordering};
use std::sync::Mutex;
use std::time::Duration;

// -------------------------------------------------------------------------------------------------
// Option space
// -------------------------------------------------------------------------------------------------
#[derive(Clone, Copy, Debug, PartialEq, Eq)]
pub struct Opts {
    pub min_arg: usize,
    pub max_arg: usize,
    /// call `max_depth` before `min_depth` (only enumerated where the order matters: min > max)
    pub max_first: bool,
    pub filter: Filter,
    pub follow: bool,
    pub order: Order,
    pub cf: bool,
    /// `verif_max_descriptors(n)`; None = default budget
    pub cap: Option<u16>,
}

const DEFAULT_OPTS: Opts = Opts { min_arg: 0, max_arg: usize::MAX, max_first: false, filter: Filter::None, follow: false, order: Order::None, cf: false, cap: None };

impl Opts {
    fn walk(&self) -> WalkOpts {
        let (min, max) = effective_window(self.min_arg, self.max_arg, self.max_first);
        WalkOpts { min, max, filter: self.filter, follow: self.follow, order: self.order, contents_first: self.cf }
    }
    fn render(&self) -> String {
        let mx = |m: usize| if m == usize::MAX { "MAX".to_string() } else { m.to_string() };
        let mut s = if self.max_first { format!(".max_depth({}).min_depth({})", mx(self.max_arg), self.min_arg) } else { format!(".min_depth({}).max_depth({})", self.min_arg, mx(self.max_arg)) };
        match self.filter {
            Filter::Dirs => s.push_str(".dirs()"),
            Filter::Files => s.push_str(".files()"),
            _ => {},
        }
        s.push_str(&format!(".follow({})", self.follow));
        match self.order {
            Order::None => {},
            Order::Name => s.push_str(".sort_by_name()"),
            Order::DirsFirst => s.push_str(".dirs_first()"),
            Order::FilesFirst => s.push_str(".files_first()"),
        }
        if self.cf {
            s.push_str(".contents_first()");
        }
        if let Some(n) = self.cap {
            s.push_str(&format!(".verif_max_descriptors({})", n));
        }
        s.push_str(".into_iter()");
        if self.filter == Filter::NameA {
            s.push_str(".filter_p(file_name == \"a\")");
        }
        s
    }
    fn to_json(&self) -> J {
        J::obj([
            ("min", J::i(self.min_arg as i64)),
            ("max", if self.max_arg == usize::MAX { J::i(-1) } else { J::i(self.max_arg as i64) }),
            ("max_first", J::Bool(self.max_first)),
            ("filter", J::i(self.filter as i64)),
            ("follow", J::Bool(self.follow)),
            ("order", J::i(self.order as i64)),
            ("contents_first", J::Bool(self.cf)),
            ("cap", match self.cap {
                None => J::i(-1),
                Some(n) => J::i(n as i64),
            }),
        ])
    }
    fn from_json(j: &J) -> Option<Opts> {
        let b = |k: &str| matches!(j.get(k), Some(J::Bool(true)));
        let i = |k: &str| j.get(k).and_then(|x| x.as_i64());
        Some(Opts {
            min_arg: i("min")? as usize,
            max_arg: match i("max")? {
                -1 => usize::MAX,
                n => n as usize,
            },
            max_first: b("max_first"),
            filter: [Filter::None, Filter::Dirs, Filter::Files, Filter::NameA][i("filter")? as usize % 4],
            follow: b("follow"),
            order: [Order::None, Order::Name, Order::DirsFirst, Order::FilesFirst][i("order")? as usize % 4],
            cf: b("contents_first"),
            cap: match i("cap")? {
                -1 => None,
                n => Some(n as u16),
            },
        })
    }
    /// value-free option dimensions that differ from the defaults (signature class). Sorted orders
    /// share the dimension `sorted`, the three filters share `filter`, so that a defect of "any sort" /
    /// "any filter" collapses onto one minimal class.
    fn dims(&self) -> BTreeSet<&'static str> {
        let mut v: BTreeSet<&'static str> = BTreeSet::new();
        if self.min_arg > 0 {
            v.insert("min_depth");
        }
        if self.max_arg != usize::MAX {
            v.insert("max_depth");
        }
        if self.max_first && self.min_arg > self.max_arg {
            v.insert("max-before-min");
        }
        match self.filter {
            Filter::None => {},
            Filter::Dirs => {
                v.insert("filter");
                v.insert("dirs");
            },
            Filter::Files => {
                v.insert("filter");
                v.insert("files");
            },
            Filter::NameA => {
                v.insert("filter");
                v.insert("filter_p");
            },
        }
        if self.follow {
            v.insert("follow");
        }
        match self.order {
            Order::None => {},
            Order::Name => {
                v.insert("sorted");
            },
            Order::DirsFirst => {
                v.insert("sorted");
                v.insert("dirs_first");
            },
            Order::FilesFirst => {
                v.insert("sorted");
                v.insert("files_first");
            },
        }
        if self.cf {
            v.insert("contents_first");
        }
        if self.cap.is_some() {
            v.insert("descriptor_cap");
        }
        v
    }
}

fn dims_str(d: &BTreeSet<&'static str>) -> String {
    if d.is_empty() {
        "defaults".to_string()
    } else {
        // fixed presentation order
        const ORDER: [&str; 14] = ["min_depth", "max_depth", "max-before-min", "filter", "dirs", "files", "filter_p", "follow", "sorted", "dirs_first", "files_first", "contents_first", "descriptor_cap", ""];
        ORDER.iter().filter(|x| d.contains(*x)).cloned().collect::<Vec<_>>().join("+")
    }
}

// -------------------------------------------------------------------------------------------------
// Violation buffer: traversal discrepancies are keyed by (discrepancy kind, option dimensions) and
// collapsed at the end onto the minimal option classes in which the same discrepancy kind occurs
// (deterministic: the set of failing cases is a function of the enumerated space only).
// -------------------------------------------------------------------------------------------------
#[derive(Default)]
pub struct Buf {
    /// (kind, dims) -> (count, rank of the witness, detail, case)
    classes: BTreeMap<(String, BTreeSet<&'static str>), (u64, u64, String, J)>,
    /// everything that is not a per-traversal discrepancy
    other: BTreeMap<String, (u64, u64, String, J)>,
}

impl Buf {
    fn class<D: FnOnce() -> (String, J)>(&mut self, kind: &str, dims: BTreeSet<&'static str>, rank: u64, mk: D) {
        match self.classes.get_mut(&(kind.to_string(), dims.clone())) {
            Some(r) => {
                r.0 += 1;
                if rank < r.1 {
                    let (d, c) = mk();
                    r.1 = rank;
                    r.2 = d;
                    r.3 = c;
                }
            },
            None => {
                let (d, c) = mk();
                self.classes.insert((kind.to_string(), dims), (1, rank, d, c));
            },
        }
    }
    fn other<D: FnOnce() -> (String, J)>(&mut self, sig: &str, rank: u64, mk: D) {
        match self.other.get_mut(sig) {
            Some(r) => {
                r.0 += 1;
                if rank < r.1 {
                    let (d, c) = mk();
                    r.1 = rank;
                    r.2 = d;
                    r.3 = c;
                }
            },
            None => {
                let (d, c) = mk();
                self.other.insert(sig.to_string(), (1, rank, d, c));
            },
        }
    }
    fn merge(&mut self, o: Buf) {
        for (k, v) in o.classes {
            match self.classes.get_mut(&k) {
                Some(r) => {
                    r.0 += v.0;
                    if v.1 < r.1 {
                        r.1 = v.1;
                        r.2 = v.2;
                        r.3 = v.3;
                    }
                },
                None => {
                    self.classes.insert(k, v);
                },
            }
        }
        for (k, v) in o.other {
            match self.other.get_mut(&k) {
                Some(r) => {
                    r.0 += v.0;
                    if v.1 < r.1 {
                        r.1 = v.1;
                        r.2 = v.2;
                        r.3 = v.3;
                    }
                },
                None => {
                    self.other.insert(k, v);
                },
            }
        }
    }
    /// minimal option classes per discrepancy kind
    fn antichain(&self) -> Vec<(String, BTreeSet<&'static str>)> {
        let mut out = vec![];
        for (kind, dims) in self.classes.keys() {
            let dominated = self.classes.keys().any(|(k2, d2)| k2 == kind && d2 != dims && d2.is_subset(dims));
            if !dominated {
                out.push((kind.clone(), dims.clone()));
            }
        }
        out
    }
    /// collapse onto `minimal` (own antichain plus what the caller passes in) and hand over to `emit`
    fn drain(self, inherited: &[(String, BTreeSet<&'static str>)], emit: &mut dyn FnMut(&str, u64, String, J)) {
        let mut minimal = inherited.to_vec();
        // own classes not covered by an inherited minimal class form their own antichain
        let uncovered: Vec<(String, BTreeSet<&'static str>)> =
            self.classes.keys().filter(|(k, d)| !inherited.iter().any(|(k2, d2)| k2 == k && d2.is_subset(d))).cloned().collect();
        for (k, d) in &uncovered {
            if !uncovered.iter().any(|(k2, d2)| k2 == k && d2 != d && d2.is_subset(d)) {
                minimal.push((k.clone(), d.clone()));
            }
        }
        minimal.sort_by(|a, b| a.0.cmp(&b.0).then(a.1.len().cmp(&b.1.len())).then(a.1.cmp(&b.1)));
        let mut grouped: BTreeMap<String, (u64, u64, String, J)> = BTreeMap::new();
        for ((kind, dims), (n, rank, detail, case)) in self.classes {
            let home = minimal.iter().find(|(k2, d2)| *k2 == kind && d2.is_subset(&dims)).map(|(_, d2)| d2.clone()).unwrap_or_else(|| dims.clone());
            let sig = format!("entries {} [{}]", kind, dims_str(&home));
            // the witness of the minimal class itself wins, then the lowest rank
            let rank = if home == dims { rank } else { rank.saturating_add(1 << 40) };
            match grouped.get_mut(&sig) {
                Some(r) => {
                    r.0 += n;
                    if rank < r.1 {
                        r.1 = rank;
                        r.2 = detail;
                        r.3 = case;
                    }
                },
                None => {
                    grouped.insert(sig, (n, rank, detail, case));
                },
            }
        }
        for (sig, (n, _, d, c)) in grouped {
            emit(&sig, n, d, c);
        }
        for (sig, (n, _, d, c)) in self.other {
            emit(&sig, n, d, c);
        }
    }
}

fn encode_antichain(a: &[(String, BTreeSet<&'static str>)]) -> String {
    a.iter().map(|(k, d)| format!("{}|{}", k, d.iter().cloned().collect::<Vec<_>>().join(","))).collect::<Vec<_>>().join("\n")
}

fn decode_antichain(s: &str) -> Vec<(String, BTreeSet<&'static str>)> {
    const ALL: [&str; 13] = ["min_depth", "max_depth", "max-before-min", "filter", "dirs", "files", "filter_p", "follow", "sorted", "dirs_first", "files_first", "contents_first", "descriptor_cap"];
    let mut out = vec![];
    for line in s.split('\n') {
        if let Some((k, d)) = line.split_once('|') {
            let set: BTreeSet<&'static str> = d.split(',').filter_map(|x| ALL.iter().find(|a| **a == x).cloned()).collect();
            out.push((k.to_string(), set));
        }
    }
    out
}

/// (min, max, max_first): the 12 pairs in the documented call order plus the reverse call order for
/// the three pairs where the auto-correction kicks in (min > max)
fn windows() -> Vec<(usize, usize, bool)> {
    let mut v = vec![];
    for max in [usize::MAX, 0, 1, 2] {
        for min in [0usize, 1, 2] {
            v.push((min, max, false));
            if min > max {
                v.push((min, max, true));
            }
        }
    }
    v
}
const FILTERS: [Filter; 4] = [Filter::None, Filter::Dirs, Filter::Files, Filter::NameA];
const ORDERS: [Order; 4] = [Order::None, Order::Name, Order::DirsFirst, Order::FilesFirst];
const CAPS: [Option<u16>; 4] = [None, Some(0), Some(1), Some(2)];

// -------------------------------------------------------------------------------------------------
// Running the real iterator
// -------------------------------------------------------------------------------------------------
#[derive(Clone, Debug, PartialEq, Eq)]
pub enum Outcome {
    Done,
    EntriesErr(String),
    Panic(String),
    NonTermination(usize),
}

pub struct Run {
    pub items: Vec<Obs>,
    pub outcome: Outcome,
}

fn strip(prefix: &str, p: &str) -> String {
    if prefix == "/" {
        p.to_string()
    } else if p == prefix {
        "/".to_string()
    } else if p.starts_with(prefix) && p.as_bytes().get(prefix.len()) == Some(&b'/') {
        p[prefix.len()..].to_string()
    } else {
        format!("!{}", p)
    }
}

fn err_kind(e: &RvError) -> String {
    // variant name only
    let s = format!("{:?}", e);
    let cut = s.find(|c: char| !(c.is_alphanumeric() || c == '(' || c == ':')).unwrap_or(s.len());
    let head = &s[..cut];
    head.trim_end_matches('(').replace('(', ":").to_string()
}

fn run_traversal<V: VirtualFileSystem>(vfs: &V, prefix: &str, start: &str, o: &Opts, budget: usize) -> Run {
    let abs = reroot(prefix, start);
    let mut items: Vec<Obs> = vec![];
    let mut calls = 0usize;
    let r = catch_unwind(AssertUnwindSafe(|| -> Outcome {
        let mut e = match vfs.entries(&abs) {
            Ok(e) => e,
            Err(e) => return Outcome::EntriesErr(e.to_string()),
        };
        e = if o.max_first { e.max_depth(o.max_arg).min_depth(o.min_arg) } else { e.min_depth(o.min_arg).max_depth(o.max_arg) };
        match o.filter {
            Filter::Dirs => e = e.dirs(),
            Filter::Files => e = e.files(),
            _ => {},
        }
        e = e.follow(o.follow);
        match o.order {
            Order::None => {},
            Order::Name => e = e.sort_by_name(),
            Order::DirsFirst => e = e.dirs_first(),
            Order::FilesFirst => e = e.files_first(),
        }
        if o.cf {
            e = e.contents_first();
        }
        if let Some(n) = o.cap {
            e = e.verif_max_descriptors(n);
        }
        let mut it = e.into_iter();
        if o.filter == Filter::NameA {
            it = it.filter_p(|x| x.file_name().map(|n| n == "a").unwrap_or(false));
        }
        loop {
            if calls >= budget {
                return Outcome::NonTermination(calls);
            }
            calls += 1;
            match it.next() {
                None => return Outcome::Done,
                Some(Ok(x)) => {
                    let path = x.path().to_string_lossy().into_owned();
                    let loc = if x.is_symlink() && x.following() { x.alt().to_string_lossy().into_owned() } else { path.clone() };
                    items.push(Obs::Ent {
                        loc: strip(prefix, &loc),
                        path: strip(prefix, &path),
                        facts: Facts { is_dir: x.is_dir(), is_file: x.is_file(), is_link: x.is_symlink() },
                    });
                },
                Some(Err(e)) => match e.downcast_ref::<PathError>() {
                    Some(PathError::LinkLooping(p)) => items.push(Obs::Loop { payload: strip(prefix, &p.to_string_lossy()) }),
                    _ => items.push(Obs::OtherErr(err_kind(&e))),
                },
            }
        }
    }));
    let outcome = match r {
        Ok(o) => o,
        Err(e) => Outcome::Panic(panic_message(&e)),
    };
    Run { items, outcome }
}

fn gather_facts<V: VirtualFileSystem>(vfs: &V, prefix: &str, tree: &Tree) -> Result<BTreeMap<String, Facts>, String> {
    let mut m = BTreeMap::new();
    let mut locs: Vec<String> = vec!["/".to_string()];
    locs.extend(tree.nodes.keys().cloned());
    for loc in locs {
        let abs = reroot(prefix, &loc);
        let r = catch_unwind(AssertUnwindSafe(|| vfs.entry(&abs).map(|e| Facts { is_dir: e.is_dir(), is_file: e.is_file(), is_link: e.is_symlink() })));
        match r {
            Ok(Ok(f)) => {
                m.insert(loc, f);
            },
            Ok(Err(e)) => return Err(format!("entry({}) failed: {}", abs, e)),
            Err(e) => return Err(format!("entry({}) panicked: {}", abs, panic_message(&e))),
        }
    }
    Ok(m)
}

/// what the model says the accessors must report, where the docs leave no doubt
fn facts_sane(tree: &Tree, facts: &BTreeMap<String, Facts>) -> Option<String> {
    for (loc, f) in facts {
        let want = match tree.get(loc).map(|n| &n.kind) {
            None | Some(Kind::Dir) => Some(Facts { is_dir: true, is_file: false, is_link: false }),
            Some(Kind::File(_)) => Some(Facts { is_dir: false, is_file: true, is_link: false }),
            Some(Kind::Link(t)) => match tree.kind(t) {
                "dir" => Some(Facts { is_dir: true, is_file: false, is_link: true }),
                "file" => Some(Facts { is_dir: false, is_file: true, is_link: true }),
                _ => None,
            },
        };
        if let Some(w) = want {
            if w != *f {
                return Some(format!("entry({}) reports {:?}, the tree says {} ({:?})", loc, f, tree.kind_detail(loc), w));
            }
        }
    }
    None
}

fn step_budget(tree: &Tree) -> usize {
    let entries = tree.nodes.len();
    let links = tree.nodes.values().filter(|n| n.is_link()).count();
    (entries + 2) * (links + 2) * 4 + 16
}

// -------------------------------------------------------------------------------------------------
// One case = (tree, start, opts) on one backend
// -------------------------------------------------------------------------------------------------
fn tree_json(t: &Tree) -> J {
    J::arr(t.nodes.iter().map(|(k, n)| match &n.kind {
        Kind::Dir => J::arr([J::s(k), J::s("dir")]),
        Kind::File(_) => J::arr([J::s(k), J::s("file")]),
        Kind::Link(tg) => J::arr([J::s(k), J::s("link"), J::s(tg)]),
    }))
}

fn tree_from_json(j: &J) -> Option<Tree> {
    let mut t = Tree::new();
    for e in j.as_arr()? {
        let a = e.as_arr()?;
        let k = a.first()?.as_str()?;
        match a.get(1)?.as_str()? {
            "dir" => t.insert(k, Node::dir()),
            "file" => t.insert(k, Node::file(b"")),
            "link" => t.insert(k, Node::link(a.get(2)?.as_str()?)),
            _ => return None,
        }
    }
    Some(t)
}

fn case_json(backend: &str, tree: &Tree, start: &str, o: &Opts) -> J {
    J::obj([("what", J::s("traversal")), ("backend", J::s(backend)), ("tree", tree_json(tree)), ("start", J::s(start)), ("opts", o.to_json())])
}

/// Validate one run; returns the discrepancy (coarse kind + detail) if any
fn judge(run: &Run, exp: &Expected, w: &WalkOpts) -> Option<Discrepancy> {
    match &run.outcome {
        Outcome::Panic(m) => return Some(Discrepancy { kind: "panic".into(), detail: format!("panicked: {}", m) }),
        Outcome::EntriesErr(m) => return Some(Discrepancy { kind: "entries()-fails-on-existing-path".into(), detail: format!("entries() returned Err({})", m) }),
        Outcome::NonTermination(n) => return Some(Discrepancy { kind: "non-termination".into(), detail: format!("still yielding after {} next() calls (expected at most {} items)", n, exp.root.cnt_max) }),
        Outcome::Done => {},
    }
    if exp.unspecified {
        return validate_items(&run.items, w);
    }
    validate(&exp.root, &run.items, w)
}

struct CaseEnv<'a, V: VirtualFileSystem> {
    backend: &'static str,
    vfs: &'a V,
    prefix: &'a str,
    tree: &'a Tree,
    facts: &'a BTreeMap<String, Facts>,
    budget: usize,
    /// progress beat for the hang watchdog: called with (start index << 16 | option ordinal)
    beat: Option<&'a dyn Fn(u64)>,
}

impl<'a, V: VirtualFileSystem> CaseEnv<'a, V> {
    fn eval(&self, start: &str, o: &Opts) -> (Run, Expected, Option<Discrepancy>) {
        let w = o.walk();
        let exp = expected(self.tree, self.facts, start, &w);
        let budget = self.budget.max(exp.root.cnt_max + 16);
        let run = run_traversal(self.vfs, self.prefix, start, o, budget);
        let d = judge(&run, &exp, &w);
        (run, exp, d)
    }

    fn detail(&self, start: &str, o: &Opts, run: &Run, exp: &Expected, d: &Discrepancy) -> String {
        format!(
            "{} tree [{}], {}.entries({:?}){}: {}\n  expected (window {}..={}): {}\n  observed: {}",
            self.backend,
            self.tree.render(),
            self.backend,
            start,
            o.render(),
            d.detail,
            o.walk().min,
            if o.walk().max == usize::MAX { "MAX".to_string() } else { o.walk().max.to_string() },
            render_expected(&exp.root),
            render_obs(&run.items)
        )
    }
}

#[derive(Default)]
struct Counts {
    traversals: u64,
    nontrivial: u64,
    unspecified: u64,
    items: u64,
    loops: u64,
    helper_calls: u64,
    failing: u64,
}

/// Where violations go: a buffer plus the rank (tree index) of the current case; `mute` drops them
pub struct Out<'a> {
    buf: &'a mut Buf,
    rank: u64,
    mute: bool,
}
type Sink<'s, 'a> = &'s mut Out<'a>;

impl<'a> Out<'a> {
    fn other(&mut self, sig: &str, detail: String, case: J) {
        if !self.mute {
            self.buf.other(sig, self.rank, || (detail, case));
        }
    }
}

/// decode a watchdog case code (tree index << 24 | start index << 16 | option ordinal)
fn hang_witness(backend: &str, trees: &[Tree], code: u64) -> (String, String, J) {
    let ti = (code >> 24) as usize;
    let si = ((code >> 16) & 0xff) as usize;
    let oi = (code & 0xffff) as usize;
    let tree = trees.get(ti).cloned().unwrap_or_default();
    let mut starts: Vec<String> = vec!["/".to_string()];
    starts.extend(tree.nodes.keys().cloned());
    let start = starts.get(si).cloned().unwrap_or_else(|| "/".to_string());
    let o = all_opts().get(oi).copied().unwrap_or(DEFAULT_OPTS);
    let dims = Opts { cap: None, min_arg: 0, max_arg: usize::MAX, max_first: false, ..o }.dims();
    (
        format!("entries hang [{}]", dims_str(&dims)),
        format!("{} tree [{}], {}.entries({:?}){}: a single traversal made no progress for the watchdog limit (endless loop inside next()?)", backend, tree.render(), backend, start, o.render()),
        case_json(backend, &tree, &start, &o),
    )
}

/// the option tuples in the order `sweep_start` runs them (ordinal = index)
fn all_opts() -> Vec<Opts> {
    let mut v = vec![];
    for follow in [false, true] {
        for (min_arg, max_arg, max_first) in windows() {
            for filter in FILTERS {
                for order in ORDERS {
                    for cf in [false, true] {
                        let caps: &[Option<u16>] = if order == Order::None { &CAPS } else { &CAPS[..1] };
                        for &cap in caps {
                            v.push(Opts { min_arg, max_arg, max_first, filter, follow, order, cf, cap });
                        }
                    }
                }
            }
        }
    }
    v
}

/// All option tuples for one (tree, start) on one backend: run, judge against ref_walk, compare the
/// multisets across descriptor budgets. With `keep` the canonical multisets are handed back in
/// enumeration order (cross-backend comparison).
fn sweep_start<V: VirtualFileSystem>(env: &CaseEnv<V>, start_idx: usize, start: &str, cnt: &mut Counts, sink: Sink<'_, '_>, mut keep: Option<&mut Vec<(Opts, Vec<Obs>, bool)>>) {
    let mut ordinal = 0u64;
    for follow in [false, true] {
        for (min_arg, max_arg, max_first) in windows() {
            for filter in FILTERS {
                let base = Opts { min_arg, max_arg, max_first, filter, follow, ..DEFAULT_OPTS };
                let w0 = base.walk();
                let exp = expected(env.tree, env.facts, start, &w0);
                let budget = env.budget.max(exp.root.cnt_max + 16);
                for order in ORDERS {
                    for cf in [false, true] {
                        let mut first_ms: Option<Vec<Obs>> = None;
                        let caps: &[Option<u16>] = if order == Order::None { &CAPS } else { &CAPS[..1] };
                        for &cap in caps {
                            let o = Opts { order, cf, cap, ..base };
                            let w = o.walk();
                            if let Some(b) = env.beat {
                                b(((start_idx as u64) << 16) | ordinal);
                            }
                            ordinal += 1;
                            let run = run_traversal(env.vfs, env.prefix, start, &o, budget);
                            cnt.traversals += 1;
                            cnt.items += run.items.len() as u64;
                            if exp.root.cnt_min >= 2 {
                                cnt.nontrivial += 1;
                            }
                            if exp.unspecified {
                                cnt.unspecified += 1;
                            }
                            cnt.loops += run.items.iter().filter(|x| matches!(x, Obs::Loop { .. })).count() as u64;
                            let d = judge(&run, &exp, &w);
                            if let Some(d) = &d {
                                cnt.failing += 1;
                                if !sink.mute {
                                    let rank = sink.rank;
                                    sink.buf.class(&d.kind, o.dims(), rank, || (env.detail(start, &o, &run, &exp, d), case_json(env.backend, env.tree, start, &o)));
                                }
                            }
                            let ms = canonical_multiset(&run.items);
                            if order == Order::None {
                                match &first_ms {
                                    None => first_ms = Some(ms.clone()),
                                    Some(f) => {
                                        if *f != ms && run.outcome == Outcome::Done {
                                            if !sink.mute {
                                                let rank = sink.rank;
                                                sink.buf.class("descriptor-cap-changes-the-yielded-multiset", Opts { cap: None, ..o }.dims(), rank, || {
                                                    (
                                                        format!(
                                                            "{} tree [{}], entries({:?}){}: multiset with the default descriptor budget {} but with cap {:?} {}",
                                                            env.backend,
                                                            env.tree.render(),
                                                            start,
                                                            o.render(),
                                                            render_obs(f),
                                                            cap,
                                                            render_obs(&ms)
                                                        ),
                                                        case_json(env.backend, env.tree, start, &o),
                                                    )
                                                });
                                            }
                                        }
                                    },
                                }
                            }
                            if let Some(k) = keep.as_deref_mut() {
                                k.push((o, ms, run.outcome == Outcome::Done));
                            }
                        }
                    }
                }
            }
        }
    }
}

// -------------------------------------------------------------------------------------------------
// Listing helpers
// -------------------------------------------------------------------------------------------------
const HELPERS: [&str; 6] = ["paths", "dirs", "files", "all_paths", "all_dirs", "all_files"];

fn call_helper<V: VirtualFileSystem>(vfs: &V, name: &str, abs: &str) -> Result<Result<Vec<String>, String>, String> {
    let r = catch_unwind(AssertUnwindSafe(|| match name {
        "paths" => vfs.paths(abs),
        "dirs" => vfs.dirs(abs),
        "files" => vfs.files(abs),
        "all_paths" => vfs.all_paths(abs),
        "all_dirs" => vfs.all_dirs(abs),
        _ => vfs.all_files(abs),
    }));
    match r {
        Err(e) => Err(panic_message(&e)),
        Ok(Ok(v)) => Ok(Ok(v.iter().map(|p| p.to_string_lossy().into_owned()).collect())),
        Ok(Err(e)) => Ok(Err(err_kind(&e))),
    }
}

type HelperResults = BTreeMap<(String, &'static str), Result<Vec<String>, String>>;

fn check_helpers<V: VirtualFileSystem>(backend: &'static str, vfs: &V, prefix: &str, tree: &Tree, cnt: &mut Counts, sink: Sink<'_, '_>) -> HelperResults {
    let mut results: HelperResults = BTreeMap::new();
    let mut args: Vec<String> = vec!["/".to_string()];
    args.extend(tree.nodes.keys().cloned());
    for d in &args {
        let abs = reroot(prefix, d);
        let kd = tree.kind_detail(d);
        let model_dir = tree.is_dir(d);
        let must_err = matches!(kd.as_str(), "file" | "link>file" | "link>missing");
        for name in HELPERS {
            cnt.helper_calls += 1;
            let case = || J::obj([("what", J::s("helper")), ("backend", J::s(backend)), ("tree", tree_json(tree)), ("helper", J::s(name)), ("arg", J::s(d))]);
            let head = format!("{} tree [{}], {}({:?})", backend, tree.render(), name, d);
            let r = match call_helper(vfs, name, &abs) {
                Err(p) => {
                    sink.other(&format!("helper {} panic arg={}", name, kd), format!("{} panicked: {}", head, p), case());
                    continue;
                },
                Ok(r) => r,
            };
            results.insert((d.clone(), name), r.clone().map(|v| v.iter().map(|p| strip(prefix, p)).collect()));
            let v = match r {
                Err(e) => {
                    if model_dir {
                        sink.other(&format!("helper {} fails-on-directory", name), format!("{} returned Err({}) for a directory", head, e), case());
                    }
                    continue;
                },
                Ok(v) => v,
            };
            if must_err {
                sink.other(&format!("helper {} accepts-non-directory arg={}", name, kd), format!("{} returned Ok({:?}) although the argument is not a directory", head, v), case());
                continue;
            }
            if let Some(p) = v.iter().find(|p| !p.starts_with('/')) {
                sink.other(&format!("helper {} relative-result", name), format!("{} returned the relative path {:?}", head, p), case());
            }
            let vm: Vec<String> = v.iter().map(|p| strip(prefix, p)).collect();
            let set: BTreeSet<&String> = vm.iter().collect();
            if set.len() != vm.len() {
                sink.other(&format!("helper {} duplicate-result", name), format!("{} returned duplicates: {:?}", head, vm), case());
            }
            if vm.iter().any(|p| p == d) {
                sink.other(&format!("helper {} includes-its-argument", name), format!("{} result contains the argument: {:?}", head, vm), case());
            }
            // name order among the results that share a parent directory (weakest reading of "sorted by name")
            'outer: for i in 0..vm.len() {
                for j in i + 1..vm.len() {
                    if parent_of(&vm[i]) == parent_of(&vm[j]) && base_of(&vm[i]) > base_of(&vm[j]) {
                        sink.other(&format!("helper {} not-name-sorted", name), format!("{} returned {:?}: {} before {}", head, vm, vm[i], vm[j]), case());
                        break 'outer;
                    }
                }
            }
            if !model_dir {
                continue;
            }
            // exactly the children / descendants the vfs' own queries select
            let cands: Vec<String> = if name.starts_with("all_") { tree.subtree(d).into_iter().filter(|p| p != d).collect() } else { tree.children(d) };
            for c in &cands {
                let cabs = reroot(prefix, c);
                let q = match name {
                    "paths" | "all_paths" => vfs.exists(&cabs),
                    "dirs" | "all_dirs" => vfs.is_dir(&cabs),
                    _ => vfs.is_file(&cabs),
                };
                let qn = match name {
                    "paths" | "all_paths" => "exists",
                    "dirs" | "all_dirs" => "is_dir",
                    _ => "is_file",
                };
                let listed = set.contains(c);
                if listed != q {
                    sink.other(
                        &format!("helper {}/all_{} {} disagrees-with-{} {}={} entry={}", name.trim_start_matches("all_"), name.trim_start_matches("all_"), backend, qn, if listed { "lists-although" } else { "omits-although" }, q, tree.kind_detail(c)),
                        format!("{} returned {:?}: {} is {}listed but {}.{}({:?}) = {}", head, vm, c, if listed { "" } else { "not " }, backend, qn, c, q),
                        case(),
                    );
                }
            }
            for p in &vm {
                if !cands.contains(p) && p != d {
                    sink.other(&format!("helper {} lists-foreign-path", name), format!("{} returned {:?}: {} is not a {} of the argument", head, vm, p, if name.starts_with("all_") { "descendant" } else { "child" }), case());
                }
            }
        }
    }
    results
}

// -------------------------------------------------------------------------------------------------
// Tree spaces
// -------------------------------------------------------------------------------------------------
fn space(names: &[&'static str], max_entries: usize, targets: &[&str]) -> TreeSpace {
    TreeSpace {
        names: names.to_vec(),
        max_depth: 3,
        max_entries,
        contents: vec![vec![]],
        links: LinkDomain::Any,
        // link targets: files/dirs at depth 1 and 2 (siblings, ancestors => cycles, chains) and one dangling
        extra_targets: targets.iter().map(|x| x.to_string()).collect(),
        target_depth: 0,
    }
}

const T5: [&str; 5] = ["/a", "/b", "/a/a", "/a/b", "/zz"];
const T3: [&str; 3] = ["/a", "/a/a", "/zz"];
/// names where one is a textual prefix of the other: string-level path comparisons inside the
/// traversal / snapshot code only show on such names
const TP: [&str; 5] = ["/a", "/ab", "/a/a", "/ab/a", "/zz"];
/// names where one is the other plus a character that sorts below the separator ('-' < '/'): ordering whole
/// path strings and ordering sibling names give different results only on such names
const TD: [&str; 2] = ["/a", "/a-"];

fn env_n(name: &str) -> Option<usize> {
    std::env::var(name).ok().and_then(|x| x.parse().ok())
}

/// (description, spaces) of the Memfs half
fn memfs_spaces(t: Tier) -> (String, Vec<TreeSpace>) {
    if let Some(n) = env_n("C08_MEMFS_N") {
        return (format!("names {{a,b,c}} <= {} entries, targets {:?} (env override)", n, T5), vec![space(&["a", "b", "c"], n, &T5)]);
    }
    match t {
        Tier::Quick => (format!("names {{a,b,c}}, <= 3 entries, depth <= 3, link targets {:?}; plus prefix-related names {{a,ab}}, <= 3 entries, targets {:?}, plus names {{a,a-}} <= 3 entries", T5, TP), vec![space(&["a", "b", "c"], 3, &T5), space(&["a", "ab"], 3, &TP), space(&["a", "a-"], 3, &TD)]),
        Tier::Thorough => (
            format!("names {{a,b,c}}, <= 4 entries, depth <= 3, link targets {:?}; plus names {{a,b}}, <= 6 entries, depth <= 3, link targets {:?}; plus prefix-related names {{a,ab}}, <= 5 entries, targets {:?}", T5, T3, TP),
            vec![space(&["a", "b", "c"], 4, &T5), space(&["a", "b"], 6, &T3), space(&["a", "ab"], 5, &TP), space(&["a", "a-"], 4, &TD)],
        ),
    }
}

fn stdfs_spaces(t: Tier) -> (String, Vec<TreeSpace>) {
    if let Some(n) = env_n("C08_STDFS_N") {
        return (format!("names {{a,b,c}} <= {} entries, targets {:?}, resolving links only (env override)", n, T5), vec![space(&["a", "b", "c"], n, &T5)]);
    }
    match t {
        Tier::Quick => (format!("names {{a,b,c}}, <= 3 entries, depth <= 3, link targets {:?}, plus names {{a,ab}} targets {:?}, every link resolving to a non-link", T5, TP), vec![space(&["a", "b", "c"], 3, &T5), space(&["a", "ab"], 3, &TP), space(&["a", "a-"], 3, &TD)]),
        Tier::Thorough => (
            format!("names {{a,b,c}}, <= 4 entries, link targets {:?}; plus names {{a,b}}, <= 5 entries, link targets {:?}; depth <= 3, every link resolving to a non-link", T5, T3),
            vec![space(&["a", "b", "c"], 4, &T5), space(&["a", "b"], 5, &T3), space(&["a", "a-"], 4, &TD)],
        ),
    }
}

/// union of the spaces, smallest trees first
fn trees_of(spaces: &[TreeSpace], resolving_only: bool) -> Vec<Tree> {
    let mut set: BTreeSet<Tree> = BTreeSet::new();
    for sp in spaces {
        for t in enum_trees(sp) {
            if !resolving_only || t.links_resolve() {
                set.insert(t);
            }
        }
    }
    for t in branchy_trees() {
        if !resolving_only || t.links_resolve() {
            set.insert(t);
        }
    }
    let mut v: Vec<Tree> = set.into_iter().collect();
    v.sort_by(|a, b| a.nodes.len().cmp(&b.nodes.len()).then_with(|| a.cmp(b)));
    v
}

/// Fixed trees beyond the entry bound of the quick spaces: several sibling directories that each have
/// contents, so that entries below the depth window's lower edge still decide the order of what is yielded
/// (sorting x min_depth >= 2), also through a followed directory link and three levels deep; and link cycles
/// through two and three subtrees
fn branchy_trees() -> Vec<Tree> {
    let mk = |items: &[(&str, Node)]| -> Tree {
        let mut t = Tree::new();
        for (p, n) in items {
            t.insert(p, n.clone());
        }
        t.fix_link_kinds();
        t
    };
    vec![
        mk(&[("/a", Node::dir()), ("/b", Node::dir()), ("/a/a", Node::file(b"")), ("/b/a", Node::file(b""))]),
        mk(&[("/a", Node::dir()), ("/b", Node::dir()), ("/c", Node::dir()), ("/a/a", Node::file(b"")), ("/a/b", Node::dir()), ("/b/a", Node::file(b"")), ("/c/a", Node::file(b"")), ("/c/b", Node::file(b""))]),
        mk(&[("/a", Node::dir()), ("/b", Node::dir()), ("/a/a", Node::dir()), ("/b/a", Node::dir()), ("/a/a/a", Node::file(b"")), ("/b/a/a", Node::file(b"")), ("/b/a/b", Node::file(b""))]),
        mk(&[("/a", Node::link("/b")), ("/b", Node::dir()), ("/c", Node::dir()), ("/b/a", Node::file(b"")), ("/b/b", Node::file(b"")), ("/c/a", Node::file(b""))]),
        // a link cycle that crosses subtrees: neither link points at one of its own ancestors
        mk(&[("/a", Node::dir()), ("/b", Node::dir()), ("/a/a", Node::link("/b")), ("/b/a", Node::link("/a"))]),
        mk(&[("/a", Node::dir()), ("/b", Node::dir()), ("/c", Node::dir()), ("/a/a", Node::link("/b")), ("/b/a", Node::link("/c")), ("/c/a", Node::link("/a")), ("/c/b", Node::file(b""))]),
    ]
}

fn stdfs_trees(t: Tier) -> Vec<Tree> {
    let mut v = trees_of(&stdfs_spaces(t).1, true);
    v.extend(dangling_trees());
    v
}

/// Fixed trees with a link whose target is missing, for the Stdfs side alone: such an entry is neither a
/// directory nor a file there, so "grouped by kind" has a third kind to place. The two backends describe
/// such a link differently (outside the domain in which they are compared), so no Memfs peer runs for them;
/// every traversal is still judged against the reference with the facts the backend itself reports.
fn dangling_trees() -> Vec<Tree> {
    let mk = |items: &[(&str, Node)]| -> Tree {
        let mut t = Tree::new();
        for (p, n) in items {
            t.insert(p, n.clone());
        }
        t.fix_link_kinds();
        t
    };
    vec![
        mk(&[("/a", Node::dir()), ("/b", Node::link("/zz")), ("/c", Node::dir()), ("/d", Node::file(b"")), ("/a/a", Node::file(b""))]),
        mk(&[("/a", Node::file(b"")), ("/b", Node::link("/zz")), ("/c", Node::dir()), ("/c/a", Node::link("/zz")), ("/c/b", Node::dir()), ("/c/c", Node::file(b""))]),
    ]
}

// -------------------------------------------------------------------------------------------------
// Memfs half
// -------------------------------------------------------------------------------------------------
fn memfs_tree(tree: &Tree, cnt: &mut Counts, sink: Sink<'_, '_>, beat: Option<&dyn Fn(u64)>) -> bool {
    let fs = match catch_unwind(AssertUnwindSafe(|| materialize_memfs(tree, "/"))) {
        Ok(Ok(fs)) => fs,
        _ => return false,
    };
    let facts = match gather_facts(&fs, "/", tree) {
        Ok(f) => f,
        Err(e) => {
            sink.other("entry() fails-on-existing-path memfs", format!("memfs tree [{}]: {}", tree.render(), e), J::obj([("what", J::s("facts")), ("backend", J::s("memfs")), ("tree", tree_json(tree))]));
            return true;
        },
    };
    if let Some(m) = facts_sane(tree, &facts) {
        sink.other("entry() accessor-kind-mismatch memfs", format!("memfs tree [{}]: {}", tree.render(), m), J::obj([("what", J::s("facts")), ("backend", J::s("memfs")), ("tree", tree_json(tree))]));
    }
    let env = CaseEnv { backend: "memfs", vfs: &fs, prefix: "/", tree, facts: &facts, budget: step_budget(tree), beat };
    let mut starts: Vec<String> = vec!["/".to_string()];
    starts.extend(tree.nodes.keys().cloned());
    for (si, s) in starts.iter().enumerate() {
        sweep_start(&env, si, s, cnt, sink, None);
    }
    check_helpers("memfs", &fs, "/", tree, cnt, sink);
    true
}

// -------------------------------------------------------------------------------------------------
// Stdfs half (worker processes)
// -------------------------------------------------------------------------------------------------
fn both_tree(sb: &Sandbox, tree: &Tree, cnt: &mut Counts, sink: Sink<'_, '_>, beat: Option<&dyn Fn(u64)>) -> Result<(), String> {
    sb.reset();
    materialize_disk(tree, &sb.root).map_err(|e| format!("materialize_disk: {}", e))?;
    let prefix = sb.root.clone();
    let mem = materialize_memfs(tree, &prefix)?;
    let std = Stdfs::new();
    let tj = || J::obj([("what", J::s("facts")), ("backend", J::s("stdfs")), ("tree", tree_json(tree))]);
    let sfacts = match gather_facts(&std, &prefix, tree) {
        Ok(f) => f,
        Err(e) => {
            sink.other("entry() fails-on-existing-path stdfs", format!("stdfs tree [{}]: {}", tree.render(), e), tj());
            return Ok(());
        },
    };
    let mfacts = gather_facts(&mem, &prefix, tree)?;
    if let Some(m) = facts_sane(tree, &sfacts) {
        sink.other("entry() accessor-kind-mismatch stdfs", format!("stdfs tree [{}]: {}", tree.render(), m), tj());
    }
    // trees with a link that does not resolve: Stdfs alone (see dangling_trees)
    let peer = tree.links_resolve();
    if peer && sfacts != mfacts {
        sink.other("entry() accessors backends-disagree", format!("tree [{}]: stdfs {:?} memfs {:?}", tree.render(), sfacts, mfacts), tj());
    }
    let budget = step_budget(tree);
    let senv = CaseEnv { backend: "stdfs", vfs: &std, prefix: &prefix, tree, facts: &sfacts, budget, beat };
    let menv = CaseEnv { backend: "memfs", vfs: &mem, prefix: &prefix, tree, facts: &mfacts, budget, beat: None };
    let mut starts: Vec<String> = vec!["/".to_string()];
    starts.extend(tree.nodes.keys().cloned());
    let mut mcnt = Counts::default();
    for (si, s) in starts.iter().enumerate() {
        let mut sk: Vec<(Opts, Vec<Obs>, bool)> = vec![];
        let mut mk: Vec<(Opts, Vec<Obs>, bool)> = vec![];
        sweep_start(&senv, si, s, cnt, sink, Some(&mut sk));
        if !peer {
            continue;
        }
        // the Memfs side is judged by the Memfs half of the check; here it only serves as the peer
        let was = sink.mute;
        sink.mute = true;
        sweep_start(&menv, si, s, &mut mcnt, sink, Some(&mut mk));
        sink.mute = was;
        for ((o, sm, sdone), (_, mm, mdone)) in sk.iter().zip(mk.iter()) {
            if sdone != mdone || sm != mm {
                let what = if sdone != mdone { "backends-disagree-on-completion" } else { "backends-disagree-on-the-yielded-multiset" };
                if !sink.mute {
                    let rank = sink.rank;
                    sink.buf.class(what, o.dims(), rank, || {
                        (format!("tree [{}], entries({:?}){}: stdfs yields {} memfs yields {}", tree.render(), s, o.render(), render_obs(sm), render_obs(mm)), case_json("both", tree, s, o))
                    });
                }
            }
        }
    }
    let sh = check_helpers("stdfs", &std, &prefix, tree, cnt, sink);
    if !peer {
        return Ok(());
    }
    let was = sink.mute;
    sink.mute = true;
    let mh = check_helpers("memfs", &mem, &prefix, tree, &mut mcnt, sink);
    sink.mute = was;
    for (k, sv) in &sh {
        if let Some(mv) = mh.get(k) {
            let same = match (sv, mv) {
                (Ok(a), Ok(b)) => a == b,
                (Err(_), Err(_)) => true,
                _ => false,
            };
            if !same {
                let r = |x: &Result<Vec<String>, String>| match x {
                    Ok(_) => "Ok",
                    Err(_) => "Err",
                };
                sink.other(
                    &format!("helper {} backends-disagree arg={} stdfs={} memfs={}", if k.1.starts_with("all_") { "all_*" } else { "paths|dirs|files" }, tree.kind_detail(&k.0), r(sv), r(mv)),
                    format!("tree [{}], {}({:?}): stdfs {:?} memfs {:?}", tree.render(), k.1, k.0, sv, mv),
                    J::obj([("what", J::s("helper")), ("backend", J::s("both")), ("tree", tree_json(tree)), ("helper", J::s(k.1)), ("arg", J::s(&k.0))]),
                );
            }
        }
    }
    cnt.traversals += mcnt.traversals;
    cnt.helper_calls += mcnt.helper_calls;
    Ok(())
}

pub fn worker_stdfs(w: &mut WorkerCtx) {
    unsafe {
        libc::umask(0o022);
    }
    let sb = Sandbox::new("c08");
    if w.shard == 0 {
        let found = crate::models::deep::traversal("stdfs", &Stdfs::new(), &format!("{}/e", sb.root));
        crate::models::deep::report_worker(w, "traversal", found);
        sb.reset();
    }
    let trees = stdfs_trees(w.tier);
    let mut cnt = Counts::default();
    let mut done = 0u64;
    let mut skipped = 0u64;
    // hang guard: a traversal that never returns from one next() call
    let prog = Progress::new();
    let p2 = prog.clone();
    let trees_dog = trees.clone();
    let stop = spawn_watchdog(p2, Duration::from_secs(w.tier.pick(10, 30)), move |_slot, case| {
        let (sig, detail, cj) = hang_witness("stdfs", &trees_dog, case);
        println!("V\t{}", J::obj([("sig", J::s(sig)), ("n", J::i(1)), ("detail", J::s(detail)), ("case", cj)]).to_string());
        println!("DONE");
        std::process::exit(0);
    });
    let inherited = decode_antichain(w.arg(0));
    let mut buf = Buf::default();
    for (i, t) in trees.iter().enumerate() {
        if !w.mine(i as u64) {
            continue;
        }
        prog.begin(0, i as u64);
        let mut out = Out { buf: &mut buf, rank: i as u64, mute: false };
        let beat = |code: u64| prog.begin(0, ((i as u64) << 24) | code);
        match both_tree(&sb, t, &mut cnt, &mut out, Some(&beat)) {
            Ok(()) => done += 1,
            Err(_) => skipped += 1,
        }
        if done <= 2 && w.shard == 0 {
            w.sample(J::obj([("backend", J::s("stdfs+memfs")), ("tree", J::s(t.render()))]));
        }
    }
    prog.end(0);
    stop.store(true, Ordering::Relaxed);
    buf.drain(&inherited, &mut |sig, n, d, c| {
        w.vio(sig, || d, || c);
        for _ in 1..n.min(1000) {
            w.vio(sig, String::new, || J::Null);
        }
    });
    w.count("trees", done);
    w.count("skipped", skipped);
    w.count("traversals", cnt.traversals);
    w.count("nontrivial", cnt.nontrivial);
    w.count("items", cnt.items);
    w.count("loops", cnt.loops);
    w.count("helper_calls", cnt.helper_calls);
    w.count("failing", cnt.failing);
}

// -------------------------------------------------------------------------------------------------
// Driver
// -------------------------------------------------------------------------------------------------
pub fn run(ctx: &Ctx) -> i32 {
    quiet_panics();
    if let Some(p) = &ctx.replay {
        return replay(ctx, p);
    }
    crate::engines::sandbox::sweep_stale();
    // a chain far deeper than the enumerated trees (and than the descriptor cap): every level is reached
    crate::models::deep::report_main("traversal", crate::models::deep::traversal("memfs", &Memfs::new(), "/e"));
    let (mem_desc, mem_spaces) = memfs_spaces(ctx.tier);
    let trees = trees_of(&mem_spaces, false);
    let total = Mutex::new((Counts::default(), Buf::default()));
    let unmaterialisable = AtomicU64::new(0);
    let states = AtomicU64::new(0);
    let samples: Mutex<Vec<J>> = Mutex::new(vec![]);

    // hang guard for the in-process half
    let prog = Progress::new();
    let (prop, tier, seed, threads) = (ctx.prop.clone(), ctx.tier, ctx.seed, ctx.threads);
    let trees_for_dog: Vec<Tree> = trees.clone();
    let t_start = ctx.start;
    let stop = spawn_watchdog(prog.clone(), Duration::from_secs(ctx.tier.pick(10, 30)), move |_slot, case| {
        let (sig, detail, cj) = hang_witness("memfs", &trees_for_dog, case);
        vio(&sig, || detail, || cj);
        let c2 = Ctx { prop: prop.clone(), tier, seed, replay: None, start: t_start, threads };
        finish(&c2, Evidence { level: "model_checking", coverage: J::obj([("aborted", J::s("hang"))]), assumptions: vec![] });
        std::process::exit(1);
    });

    par_for(ctx.threads, trees.len() as u64, 4, |slot, i| {
        let t = &trees[i as usize];
        prog.begin(slot, i << 24);
        let beat = |code: u64| prog.begin(slot, (i << 24) | code);
        let mut cnt = Counts::default();
        let mut buf = Buf::default();
        let mut out = Out { buf: &mut buf, rank: i, mute: false };
        if memfs_tree(t, &mut cnt, &mut out, Some(&beat)) {
            states.fetch_add(1, Ordering::Relaxed);
        } else {
            unmaterialisable.fetch_add(1, Ordering::Relaxed);
        }
        prog.end(slot);
        let mut g = total.lock().unwrap();
        g.1.merge(buf);
        let g = &mut g.0;
        g.traversals += cnt.traversals;
        g.nontrivial += cnt.nontrivial;
        g.unspecified += cnt.unspecified;
        g.items += cnt.items;
        g.loops += cnt.loops;
        g.helper_calls += cnt.helper_calls;
        g.failing += cnt.failing;
    });
    stop.store(true, Ordering::Relaxed);
    let mem_wall = ctx.start.elapsed().as_secs_f64();

    // samples: three concrete traversals from this run
    for (ti, start, o) in [
        (trees.len() / 3, "/", Opts { order: Order::DirsFirst, ..DEFAULT_OPTS }),
        (trees.len() / 2, "/", Opts { follow: true, order: Order::Name, ..DEFAULT_OPTS }),
        (trees.len() - 1, "/", Opts { min_arg: 1, filter: Filter::Dirs, ..DEFAULT_OPTS }),
    ] {
        let t = &trees[ti];
        if let Ok(fs) = materialize_memfs(t, "/") {
            if let Ok(facts) = gather_facts(&fs, "/", t) {
                let env = CaseEnv { backend: "memfs", vfs: &fs, prefix: "/", tree: t, facts: &facts, budget: step_budget(t), beat: None };
                let (run, exp, d) = env.eval(start, &o);
                samples.lock().unwrap().push(J::obj([
                    ("tree", J::s(t.render())),
                    ("call", J::s(format!("entries({:?}){}", start, o.render()))),
                    ("expected", J::s(render_expected(&exp.root))),
                    ("observed", J::s(render_obs(&run.items))),
                    ("verdict", J::s(d.map(|d| d.kind).unwrap_or_else(|| "legal".into()))),
                ]));
            }
        }
    }

    // Stdfs half
    let mut g = Gathered::default();
    let (t, buf) = total.into_inner().unwrap();
    let chain = buf.antichain();
    let emit_n = |sig: &str, n: u64, d: String, c: J| {
        vio(sig, || d, || c);
        for _ in 1..n.min(1000) {
            vio(sig, String::new, || J::Null);
        }
    };
    buf.drain(&[], &mut { emit_n });
    run_workers(ctx, &Launch { name: "c08_stdfs".into(), nshards: ctx.threads as u64, extra: vec![encode_antichain(&chain)], uid: None, env: None }, &mut g);
    if !g.failed.is_empty() {
        for f in &g.failed {
            eprintln!("machinery: {}", f);
        }
        return 2;
    }
    let all_traversals = t.traversals + g.c("traversals");
    let mut smp = samples.into_inner().unwrap();
    smp.extend(g.samples.iter().cloned());
    let per_start = windows().len() * 4 * 2 * (4 + 3 * 1) * 2;
    let cov = J::obj([
        ("states", J::i(states.load(Ordering::Relaxed) + g.c("trees"))),
        ("transitions", J::i(all_traversals)),
        ("traces_validated_against_impl", J::i(all_traversals)),
        ("evaluations", J::i(all_traversals + t.helper_calls + g.c("helper_calls"))),
        ("distinct_nontrivial", J::i(t.nontrivial + g.c("nontrivial"))),
        ("rule", J::s(format!(
            "every tree of the space x every start path (root and each entry) x every option tuple ({} per start: {} depth windows incl. both call orders where min>max x 4 filters x follow x 4 orders x contents_first, unsorted orders additionally under 4 descriptor budgets); each traversal is run on the real EntriesIter and validated against ref_walk (exact multiset + legal linearisation); non-trivial = the options denote at least two items for that start. Listing helpers: 6 helpers x every entry and the root of every tree. states = Memfs trees + trees materialised on disk (the latter also exist in the Memfs family); the worker processes run every traversal on Stdfs and on a Memfs peer built under the same sandbox prefix and compare the multisets.",
            per_start,
            windows().len()
        ))),
        ("samples", J::Arr(smp)),
        ("exhaustive", J::Bool(true)),
        ("bounds", J::s(format!(
            "Memfs: {} ({} trees, {} of them not materialisable through the API; /zz is the dangling target); Stdfs (+ Memfs peer under the sandbox prefix): {} ({} trees, {} skipped)",
            mem_desc,
            trees.len(),
            unmaterialisable.load(Ordering::Relaxed),
            stdfs_spaces(ctx.tier).0,
            g.c("trees"),
            g.c("skipped")
        ))),
        ("memfs_traversals", J::i(t.traversals)),
        ("stdfs_worker_traversals_both_backends", J::i(g.c("traversals"))),
        ("items_yielded", J::i(t.items + g.c("items"))),
        ("link_looping_items", J::i(t.loops + g.c("loops"))),
        ("helper_calls", J::i(t.helper_calls + g.c("helper_calls"))),
        ("traversals_left_unspecified_link_chain", J::i(t.unspecified)),
        ("failing_traversals", J::i(t.failing + g.c("failing"))),
        ("memfs_half_wall_s", J::Num(mem_wall)),
    ]);
    finish(ctx, Evidence {
        level: "model_checking",
        coverage: cov,
        assumptions: vec![
            "Entry::is_dir/is_file/is_symlink of vfs.entry(p) are taken as the kind facts of p (they are cross-checked against the model tree for plain entries and resolving links)".into(),
            "a followed link is reported with path()=target and alt()=link (documented on Entry/Entries::follow); children of a followed link carry the target's path".into(),
            "following a link whose target is itself a link is unspecified: such traversals only get the weak checks (termination, no panic, filter respected, cap independence)".into(),
            "a LinkLooping item is mandatory only where the link would have been descended into (depth < max_depth); elsewhere the error or the plain entry are both accepted".into(),
            "subtree contiguity is derived from 'depth first' in the Entries docs; it is reported under its own discrepancy kind".into(),
            "Stdfs: dangling / chained links are outside the domain".into(),
        ],
    })
}

// -------------------------------------------------------------------------------------------------
// Replay
// -------------------------------------------------------------------------------------------------
fn replay(ctx: &Ctx, p: &std::path::Path) -> i32 {
    let j = json::parse(&std::fs::read_to_string(p).expect("read replay")).expect("parse replay");
    let case = j.get("case").expect("case");
    let what = case.get("what").and_then(|x| x.as_str()).unwrap_or("");
    let backend = case.get("backend").and_then(|x| x.as_str()).unwrap_or("memfs").to_string();
    // a replayed case may hang: run it on a helper thread and give up after a generous limit
    if std::env::var("C08_REPLAY_INNER").is_err() {
        let (prop, tier, seed, threads, path) = (ctx.prop.clone(), ctx.tier, ctx.seed, ctx.threads, p.to_path_buf());
        let (tx, rx) = std::sync::mpsc::channel();
        std::thread::spawn(move || {
            std::env::set_var("C08_REPLAY_INNER", "1");
            let c2 = Ctx { prop, tier, seed, replay: Some(path.clone()), start: std::time::Instant::now(), threads };
            let _ = tx.send(replay(&c2, &path));
        });
        return match rx.recv_timeout(Duration::from_secs(20)) {
            Ok(code) => code,
            Err(_) => {
                println!("the replayed call did not return within 20 s (hang)");
                println!("VIOLATION property={} replay={}", ctx.prop, p.display());
                1
            },
        };
    }
    let tree = tree_from_json(case.get("tree").expect("case.tree")).expect("tree");
    println!("replay C08 {} backend={} tree [{}]", what, backend, tree.render());
    let mut found: Vec<(String, String)> = vec![];
    {
        let mut rbuf = Buf::default();
        let mut sink = Out { buf: &mut rbuf, rank: 0, mute: false };
        let mut cnt = Counts::default();
        let use_disk = backend != "memfs";
        let sb = if use_disk { Some(Sandbox::new("c08r")) } else { None };
        let prefix = sb.as_ref().map(|s| s.root.clone()).unwrap_or_else(|| "/".to_string());
        if let Some(sb) = &sb {
            sb.reset();
            materialize_disk(&tree, &sb.root).expect("materialize_disk");
        }
        let mem = materialize_memfs(&tree, &prefix).expect("materialize_memfs");
        let std = Stdfs::new();
        match what {
            "traversal" => {
                let start = case.get("start").and_then(|x| x.as_str()).expect("start").to_string();
                let o = Opts::from_json(case.get("opts").expect("opts")).expect("opts");
                println!("call: entries({:?}){}", start, o.render());
                let mut ms: Vec<Vec<Obs>> = vec![];
                if backend == "memfs" || backend == "both" {
                    let facts = gather_facts(&mem, &prefix, &tree).expect("facts");
                    let env = CaseEnv { backend: "memfs", vfs: &mem, prefix: &prefix, tree: &tree, facts: &facts, budget: step_budget(&tree), beat: None };
                    let (run, exp, d) = env.eval(&start, &o);
                    println!("memfs expected: {}\nmemfs observed: {} ({:?})", render_expected(&exp.root), render_obs(&run.items), run.outcome);
                    if let (Some(d), true) = (&d, backend == "memfs") {
                        sink.other(&format!("entries {}", d.kind), d.detail.clone(), J::Null);
                    }
                    if o.order == Order::None && o.cap.is_some() {
                        let (r0, _, _) = env.eval(&start, &Opts { cap: None, ..o });
                        if canonical_multiset(&r0.items) != canonical_multiset(&run.items) {
                            sink.other("entries descriptor-cap-changes-the-yielded-multiset", format!("default budget: {}", render_obs(&r0.items)), J::Null);
                        }
                    }
                    ms.push(canonical_multiset(&run.items));
                }
                if use_disk {
                    let facts = gather_facts(&std, &prefix, &tree).expect("facts");
                    let env = CaseEnv { backend: "stdfs", vfs: &std, prefix: &prefix, tree: &tree, facts: &facts, budget: step_budget(&tree), beat: None };
                    let (run, exp, d) = env.eval(&start, &o);
                    println!("stdfs expected: {}\nstdfs observed: {} ({:?})", render_expected(&exp.root), render_obs(&run.items), run.outcome);
                    if let (Some(d), true) = (&d, backend == "stdfs") {
                        sink.other(&format!("entries {}", d.kind), d.detail.clone(), J::Null);
                    }
                    if o.order == Order::None && o.cap.is_some() {
                        let (r0, _, _) = env.eval(&start, &Opts { cap: None, ..o });
                        if canonical_multiset(&r0.items) != canonical_multiset(&run.items) {
                            sink.other("entries descriptor-cap-changes-the-yielded-multiset", format!("default budget: {}", render_obs(&r0.items)), J::Null);
                        }
                    }
                    ms.push(canonical_multiset(&run.items));
                }
                if backend == "both" && ms.len() == 2 && ms[0] != ms[1] {
                    sink.other("entries backends-disagree", "the two backends yield different multisets".to_string(), J::Null);
                }
            },
            "helper" => {
                let name = case.get("helper").and_then(|x| x.as_str()).unwrap_or("").to_string();
                let arg = case.get("arg").and_then(|x| x.as_str()).unwrap_or("/").to_string();
                let abs = reroot(&prefix, &arg);
                let mut all: Vec<(String, String)> = vec![];
                let mut hbuf = Buf::default();
                let mut s2 = Out { buf: &mut hbuf, rank: 0, mute: false };
                let mut rs = vec![];
                if backend == "memfs" || backend == "both" {
                    println!("memfs {}({:?}) = {:?}; exists/is_dir/is_file of the argument: {}/{}/{}", name, arg, call_helper(&mem, &name, &abs), mem.exists(&abs), mem.is_dir(&abs), mem.is_file(&abs));
                    let r = check_helpers("memfs", &mem, &prefix, &tree, &mut cnt, &mut s2);
                    rs.push(r);
                }
                if use_disk {
                    println!("stdfs {}({:?}) = {:?}; exists/is_dir/is_file of the argument: {}/{}/{}", name, arg, call_helper(&std, &name, &abs), std.exists(&abs), std.is_dir(&abs), std.is_file(&abs));
                    let r = check_helpers("stdfs", &std, &prefix, &tree, &mut cnt, &mut s2);
                    rs.push(r);
                }
                let marker = format!("{}({:?})", name, arg);
                hbuf.drain(&[], &mut |s, _n, d, _c| all.push((s.to_string(), d)));
                for (s, d) in all {
                    if backend != "both" && s.starts_with("helper ") && d.contains(&marker) {
                        sink.other(&s, d, J::Null);
                    }
                }
                if backend == "both" && rs.len() == 2 {
                    for (k, a) in &rs[0] {
                        if k.0 == arg && k.1 == name {
                            let b = rs[1].get(k);
                            let same = match (a, b) {
                                (Ok(x), Some(Ok(y))) => x == y,
                                (Err(_), Some(Err(_))) => true,
                                _ => false,
                            };
                            if !same {
                                sink.other("helper backends-disagree", format!("memfs {:?} stdfs {:?}", a, b), J::Null);
                            }
                        }
                    }
                }
            },
            "facts" => {
                let mf = gather_facts(&mem, &prefix, &tree);
                println!("memfs facts: {:?}", mf);
                if let Ok(f) = &mf {
                    if let Some(m) = facts_sane(&tree, f) {
                        sink.other("entry() accessor-kind-mismatch memfs", m, J::Null);
                    }
                }
                if use_disk {
                    let sf = gather_facts(&std, &prefix, &tree);
                    println!("stdfs facts: {:?}", sf);
                    match &sf {
                        Ok(f) => {
                            if let Some(m) = facts_sane(&tree, f) {
                                sink.other("entry() accessor-kind-mismatch stdfs", m, J::Null);
                            }
                            if mf.as_ref().ok() != Some(f) {
                                sink.other("entry() accessors backends-disagree", "facts differ".into(), J::Null);
                            }
                        },
                        Err(e) => sink.other("entry() fails-on-existing-path stdfs", e.clone(), J::Null),
                    }
                }
            },
            _ => {
                println!("unknown case kind {:?}", what);
                return 2;
            },
        }
        rbuf.drain(&[], &mut |s, _n, d, _c| found.push((s.to_string(), d)));
    }
    if found.is_empty() {
        println!("holds: the case does not fail");
        0
    } else {
        for (s, d) in &found {
            println!("  signature: {}\n    {}", s, d);
        }
        println!("VIOLATION property={} replay={}", ctx.prop, p.display());
        1
    }
}

//! C13 The Vfs and VfsEntry enums are transparent wrappers.
//!
//! Memfs half (engine E1): for EVERY (state, call) of the C01 configurations - every mutator of the
//! configuration's alphabet, a supplement that brings in every remaining trait method (builders,
//! handles, line helpers, ...), and every query x path - the call is executed from deep clones of
//! the same pre-state directly on the `Memfs` value, through `Vfs::Memfs(clone)` and through
//! `clone.upcast()`; transcripts (value or full error text) and complete resulting dumps must be
//! identical. For every entry of every visited state every `Entry` accessor of
//! `VfsEntry::Memfs(e.clone())` is compared with the same accessor of the `MemfsEntry` `e`.
//!
//! Stdfs half (single-threaded worker processes, sandbox on tmpfs, every tree of `enum_trees` with
//! resolving links): every call via the inherent associated function `Stdfs::xxx(..)`, via
//! `Stdfs::new()` (trait impl), via `Vfs::Stdfs(Stdfs::new())` and via `Stdfs::new().upcast()`,
//! each from a freshly re-materialised identical disk state; transcripts and the trees observed
//! with std::fs must be identical. Same accessor comparison for `StdfsEntry` vs `VfsEntry::Stdfs`.
//!
//! Discrimination is measured, not assumed: for every method that has a same-typed sibling (or an
//! argument that could be dropped / swapped) the run counts the (state, argument) instances in
//! which the sibling's result differs from the method's own result.
use crate::common::json::{self, bytes_repr, J};
use crate::common::par::*;
use crate::common::report::*;
use crate::engines::sandbox::Sandbox;
use crate::engines::space::*;
use crate::engines::workers::{self, Gathered, Launch, WorkerCtx};
use crate::models::ops::*;
use crate::models::tree::{enum_trees, materialize_disk, namespace, observe_disk, reroot, LinkDomain, Tree, TreeSpace};
use crate::props::c01::{config_by_name, query_ops, replay_history, stats_json};
use rivia::prelude::*;
use rivia::verif::Dump;
use std::collections::{BTreeMap, BTreeSet};
use std::panic::{catch_unwind, AssertUnwindSafe};
use std::sync::Mutex;

fn s(x: &str) -> String {
    x.to_string()
}

pub const ALL_METHODS: [&str; 52] = [
    "abs", "all_dirs", "all_files", "all_paths", "append", "append_all", "append_line", "append_lines", "chmod", "chmod_b", "chown", "chown_b", "config_dir", "copy",
    "copy_b", "cwd", "dirs", "entries", "entry", "exists", "files", "gid", "is_exec", "is_dir", "is_file", "is_readonly", "is_symlink", "is_symlink_dir",
    "is_symlink_file", "mkdir_m", "mkdir_p", "mkfile", "mkfile_m", "mode", "move_p", "owner", "paths", "read", "read_all", "read_lines", "readlink", "readlink_abs",
    "remove", "remove_all", "root", "set_cwd", "symlink", "uid", "upcast", "write", "write_all", "write_lines",
];

// ---------------------------------------------------------------------------------------------
// Alphabets
// ---------------------------------------------------------------------------------------------
/// Mutators applied in EVERY visited state in addition to the configuration's own alphabet, so
/// that every state family exercises every trait method (builders and handles included).
pub fn supplement_ops() -> Vec<Op> {
    let mut ops = vec![];
    for p in ["/a", "/b", "/a/a"] {
        ops.push(Op::Mkfile(s(p)));
        ops.push(Op::MkfileM(s(p), 0o600));
        ops.push(Op::MkfileM(s(p), 0o755));
        // modes beyond rwx: special bits and explicit file-type bits must be forwarded untouched
        ops.push(Op::MkfileM(s(p), 0o4755));
        ops.push(Op::MkfileM(s(p), 0o100644));
        ops.push(Op::MkdirM(s(p), 0o1777));
        ops.push(Op::MkdirM(s(p), 0o40750));
        ops.push(Op::Chmod(s(p), 0o2750));
        ops.push(Op::ChmodB(s(p), ChmodSel::All(0o4711), true, false));
        ops.push(Op::MkdirP(s(p)));
        ops.push(Op::MkdirM(s(p), 0o700));
        ops.push(Op::MkdirM(s(p), 0o751));
        ops.push(Op::WriteAll(s(p), b"w".to_vec()));
        ops.push(Op::WriteLines(s(p), vec![s("l1"), s("l2")]));
        ops.push(Op::AppendAll(s(p), b"q".to_vec()));
        ops.push(Op::AppendLine(s(p), s("z")));
        ops.push(Op::AppendLines(s(p), vec![s("u"), s("v")]));
        // empty and terminator-carrying elements: the wrapper must hand the list over as it is
        ops.push(Op::AppendLines(s(p), vec![s("u"), s(""), s("v")]));
        ops.push(Op::AppendLines(s(p), vec![s(""), s("")]));
        ops.push(Op::AppendLines(s(p), vec![]));
        ops.push(Op::WriteLines(s(p), vec![s(""), s("x\n"), s("")]));
        ops.push(Op::WriteLines(s(p), vec![]));
        ops.push(Op::AppendLine(s(p), s("")));
        ops.push(Op::WriteAll(s(p), vec![]));
        ops.push(Op::AppendAll(s(p), vec![]));
        ops.push(Op::WriteHandle(s(p), vec![b"h".to_vec(), b"i".to_vec()], vec![true, false]));
        ops.push(Op::AppendHandle(s(p), vec![b"j".to_vec()], vec![false]));
        ops.push(Op::Remove(s(p)));
        ops.push(Op::RemoveAll(s(p)));
        ops.push(Op::SetCwd(s(p)));
        ops.push(Op::Chmod(s(p), 0o600));
        ops.push(Op::Chmod(s(p), 0o755));
        ops.push(Op::ChmodB(s(p), ChmodSel::All(0o640), true, false));
        ops.push(Op::ChmodB(s(p), ChmodSel::Dirs(0o711), true, false));
        ops.push(Op::ChmodB(s(p), ChmodSel::Files(0o600), true, false));
        ops.push(Op::ChmodB(s(p), ChmodSel::Sym(s("f:u+x,d:go-rx")), true, false));
        ops.push(Op::ChmodB(s(p), ChmodSel::Readonly, false, false));
        ops.push(Op::ChmodB(s(p), ChmodSel::Secure, true, true));
        ops.push(Op::Chown(s(p), 5, 6));
        ops.push(Op::ChownB(s(p), Some(7), None, true, false));
        ops.push(Op::ChownB(s(p), None, Some(8), false, true));
        ops.push(Op::ChownB(s(p), Some(9), Some(10), true, true));
        ops.push(Op::Symlink(s(p), s("/b/a")));
        ops.push(Op::Symlink(s(p), s("../a")));
    }
    for (a, b) in [("/a", "/b"), ("/b", "/a"), ("/a/a", "/b"), ("/a", "/b/b")] {
        ops.push(Op::Copy(s(a), s(b)));
        ops.push(Op::MoveP(s(a), s(b)));
        ops.push(Op::CopyB(s(a), s(b), CopyMode::None, true));
        ops.push(Op::CopyB(s(a), s(b), CopyMode::All(0o700), false));
        ops.push(Op::CopyB(s(a), s(b), CopyMode::Dirs(0o711), false));
        ops.push(Op::CopyB(s(a), s(b), CopyMode::Files(0o640), false));
    }
    ops
}

/// every query method x path, plus entries() x path (the full C01 query alphabet + traversal)
pub fn all_queries() -> Vec<Op> {
    let mut q = query_ops();
    let mut seen: BTreeSet<String> = BTreeSet::new();
    let paths: Vec<String> = q.iter().filter_map(|o| o.paths().0.map(|x| x.to_string())).filter(|p| seen.insert(p.clone())).collect();
    for p in paths {
        q.push(Op::EntriesSorted(p));
    }
    q
}

/// Same-typed siblings / droppable or swappable arguments of a call: (label of the wrong routing,
/// the call it would amount to)
pub fn siblings(op: &Op) -> Vec<(String, Op)> {
    use Op::*;
    let l = |a: &str, b: &str| format!("{}->{}", a, b);
    match op {
        Mkfile(p) => vec![(l("mkfile", "mkdir_p"), MkdirP(p.clone())), (l("mkfile", "set_cwd"), SetCwd(p.clone()))],
        MkdirP(p) => vec![(l("mkdir_p", "mkfile"), Mkfile(p.clone())), (l("mkdir_p", "set_cwd"), SetCwd(p.clone()))],
        SetCwd(p) => vec![(l("set_cwd", "mkdir_p"), MkdirP(p.clone())), (l("set_cwd", "mkfile"), Mkfile(p.clone()))],
        MkfileM(p, m) => vec![(l("mkfile_m", "mkfile(mode dropped)"), Mkfile(p.clone())), (l("mkfile_m", "mkdir_m"), MkdirM(p.clone(), *m))],
        MkdirM(p, m) => vec![(l("mkdir_m", "mkdir_p(mode dropped)"), MkdirP(p.clone())), (l("mkdir_m", "mkfile_m"), MkfileM(p.clone(), *m))],
        WriteAll(p, d) => vec![(l("write_all", "append_all"), AppendAll(p.clone(), d.clone()))],
        AppendAll(p, d) => vec![(l("append_all", "write_all"), WriteAll(p.clone(), d.clone()))],
        WriteLines(p, d) => vec![(l("write_lines", "append_lines"), AppendLines(p.clone(), d.clone()))],
        AppendLines(p, d) => vec![(l("append_lines", "write_lines"), WriteLines(p.clone(), d.clone()))],
        WriteHandle(p, c, f) => vec![(l("write", "append"), AppendHandle(p.clone(), c.clone(), f.clone()))],
        AppendHandle(p, c, f) => vec![(l("append", "write"), WriteHandle(p.clone(), c.clone(), f.clone()))],
        Remove(p) => vec![(l("remove", "remove_all"), RemoveAll(p.clone()))],
        RemoveAll(p) => vec![(l("remove_all", "remove"), Remove(p.clone()))],
        Copy(a, b) => vec![(l("copy", "move_p"), MoveP(a.clone(), b.clone())), (l("copy", "copy(args swapped)"), Copy(b.clone(), a.clone()))],
        MoveP(a, b) => vec![(l("move_p", "copy"), Copy(a.clone(), b.clone())), (l("move_p", "move_p(args swapped)"), MoveP(b.clone(), a.clone()))],
        Symlink(a, b) if b.starts_with('/') => vec![(l("symlink", "symlink(args swapped)"), Symlink(b.clone(), a.clone()))],
        Chown(p, u, g) => vec![(l("chown", "chown(uid/gid swapped)"), Chown(p.clone(), *g, *u))],
        CopyB(a, b, m, f) => vec![(l("copy_b", "copy_b(args swapped)"), CopyB(b.clone(), a.clone(), m.clone(), *f))],
        _ => vec![],
    }
}

/// query groups with identical signatures: any member could be routed to any other
const QUERY_GROUPS: [&[&str]; 4] = [
    &["exists", "is_dir", "is_file", "is_symlink", "is_symlink_dir", "is_symlink_file", "is_exec", "is_readonly"],
    &["all_dirs", "all_files", "all_paths", "dirs", "files", "paths"],
    &["abs", "readlink", "readlink_abs"],
    &["mode", "uid", "gid"],
];

/// count discriminating instances among same-typed queries from the transcripts of one state
fn query_discrimination(results: &[(&Op, String)], disc: &mut BTreeMap<String, u64>) {
    let mut by: BTreeMap<(&str, &str), &str> = BTreeMap::new(); // (method, path) -> transcript
    for (op, t) in results {
        if let (Some(p), None) = op.paths() {
            by.insert((op.name(), p), t.as_str());
        }
    }
    for g in QUERY_GROUPS {
        for a in g.iter() {
            for b in g.iter() {
                if a == b {
                    continue;
                }
                let key = format!("{}->{}", a, b);
                let e = disc.entry(key).or_insert(0);
                for ((m, p), t) in by.range((*a, "")..) {
                    if m != a {
                        break;
                    }
                    if let Some(t2) = by.get(&(*b, *p)) {
                        if t2 != t {
                            *e += 1;
                        }
                    }
                }
            }
        }
    }
}

// ---------------------------------------------------------------------------------------------
// Entry accessors (generic over MemfsEntry / StdfsEntry / VfsEntry)
// ---------------------------------------------------------------------------------------------
fn pl(p: &Path) -> String {
    p.to_string_lossy().into_owned()
}

pub const ACCESSORS: [&str; 20] = [
    "path", "path_buf", "alt", "alt_buf", "rel", "rel_buf", "file_name", "follow(false)", "follow(true)", "following", "is_exec", "is_dir", "is_file", "is_readonly",
    "is_symlink", "is_symlink_dir", "is_symlink_file", "mode", "upcast", "clone",
];

/// every Entry accessor rendered, in the order of ACCESSORS
pub fn accessors<E: Entry + Clone>(e: &E) -> Vec<String> {
    vec![
        pl(e.path()),
        pl(&e.path_buf()),
        pl(e.alt()),
        pl(&e.alt_buf()),
        pl(e.rel()),
        pl(&e.rel_buf()),
        format!("{:?}", e.file_name().map(|x| x.to_string_lossy().into_owned())),
        render_entry(&e.clone().follow(false)),
        render_entry(&e.clone().follow(true)),
        e.following().to_string(),
        e.is_exec().to_string(),
        e.is_dir().to_string(),
        e.is_file().to_string(),
        e.is_readonly().to_string(),
        e.is_symlink().to_string(),
        e.is_symlink_dir().to_string(),
        e.is_symlink_file().to_string(),
        format!("{:o}", e.mode()),
        render_entry(&e.clone().upcast()),
        brief(&e.clone()),
    ]
}

/// the plain accessors of an entry in one line (used to look at the result of `clone`)
fn brief<E: Entry>(e: &E) -> String {
    format!(
        "path={} alt={} rel={} dir={} file={} link={} mode={:o} following={}",
        pl(e.path()),
        pl(e.alt()),
        pl(e.rel()),
        e.is_dir(),
        e.is_file(),
        e.is_symlink(),
        e.mode(),
        e.following()
    )
}

/// same-typed accessor groups for the discrimination count (indices into ACCESSORS)
const ACC_GROUPS: [&[usize]; 4] = [&[0, 2, 4], &[1, 3, 5], &[9, 10, 11, 12, 13, 14, 15, 16], &[7, 8]];

fn accessor_discrimination(vals: &[String], disc: &mut BTreeMap<String, u64>) {
    for g in ACC_GROUPS {
        for &a in g.iter() {
            for &b in g.iter() {
                if a != b {
                    let e = disc.entry(format!("entry.{}->{}", ACCESSORS[a], ACCESSORS[b])).or_insert(0);
                    if vals[a] != vals[b] {
                        *e += 1;
                    }
                }
            }
        }
    }
}

/// compare inner entry vs wrapper; returns (accessor, inner value, wrapper value) of the first difference
fn compare_accessors(inner: &[String], wrapped: &[String]) -> Option<(usize, String, String)> {
    for i in 0..inner.len() {
        if inner[i] != wrapped[i] {
            return Some((i, inner[i].clone(), wrapped[i].clone()));
        }
    }
    None
}

// ---------------------------------------------------------------------------------------------
// Memfs half
// ---------------------------------------------------------------------------------------------
#[derive(Default, Clone)]
pub struct Stats {
    pub calls_compared: u64,
    pub executions: u64,
    pub query_calls: u64,
    pub supplement_calls: u64,
    pub alphabet_calls: u64,
    pub nondeterministic: u64,
    pub entries_compared: u64,
    pub accessor_comparisons: u64,
    pub config_dir_calls: u64,
    pub config_dir_some: u64,
    pub disc: BTreeMap<String, u64>,
    pub methods: BTreeSet<&'static str>,
}

impl Stats {
    fn merge(&mut self, o: &Stats) {
        self.calls_compared += o.calls_compared;
        self.executions += o.executions;
        self.query_calls += o.query_calls;
        self.supplement_calls += o.supplement_calls;
        self.alphabet_calls += o.alphabet_calls;
        self.nondeterministic += o.nondeterministic;
        self.entries_compared += o.entries_compared;
        self.accessor_comparisons += o.accessor_comparisons;
        self.config_dir_calls += o.config_dir_calls;
        self.config_dir_some += o.config_dir_some;
        for (k, v) in &o.disc {
            *self.disc.entry(k.clone()).or_insert(0) += v;
        }
        for m in &o.methods {
            self.methods.insert(m);
        }
    }
}

fn vfs_dump(v: &Vfs) -> Dump {
    match v {
        Vfs::Memfs(m) => m.verif_dump(),
        _ => unreachable!("Memfs expected"),
    }
}

fn dump_diff(a: &Dump, b: &Dump) -> String {
    if a.cwd != b.cwd {
        return format!("cwd {} vs {}", a.cwd, b.cwd);
    }
    let ea: BTreeMap<&str, &rivia::verif::EntryDump> = a.entries.iter().map(|e| (e.key.as_str(), e)).collect();
    let eb: BTreeMap<&str, &rivia::verif::EntryDump> = b.entries.iter().map(|e| (e.key.as_str(), e)).collect();
    for (k, x) in &ea {
        match eb.get(k) {
            None => return format!("entry {} only after the direct call", k),
            Some(y) if x != y => return format!("entry {}: direct {:?} vs wrapper {:?}", k, x, y),
            _ => {},
        }
    }
    for k in eb.keys() {
        if !ea.contains_key(k) {
            return format!("entry {} only after the wrapper call", k);
        }
    }
    let fa: BTreeMap<&str, &rivia::verif::FileDump> = a.files.iter().map(|e| (e.key.as_str(), e)).collect();
    let fb: BTreeMap<&str, &rivia::verif::FileDump> = b.files.iter().map(|e| (e.key.as_str(), e)).collect();
    for (k, x) in &fa {
        match fb.get(k) {
            None => return format!("data {} only after the direct call", k),
            Some(y) if x != y => return format!("data {}: direct {:?} vs wrapper {:?}", k, bytes_repr(&x.data), bytes_repr(&y.data)),
            _ => {},
        }
    }
    for k in fb.keys() {
        if !fa.contains_key(k) {
            return format!("data {} only after the wrapper call", k);
        }
    }
    format!("root/poison: {} {} vs {} {}", a.root, a.poisoned, b.root, b.poisoned)
}

fn run_direct(pre: &Memfs, op: &Op) -> (String, Dump) {
    let fs = pre.verif_deep_clone();
    let o = apply(&fs, op);
    (o.transcript(), fs.verif_dump())
}

fn run_wrapped(pre: &Memfs, op: &Op, via_upcast: bool) -> (String, Dump) {
    let fs = pre.verif_deep_clone();
    let v = if via_upcast { fs.upcast() } else { Vfs::Memfs(fs) };
    let o = apply(&v, op);
    (o.transcript(), vfs_dump(&v))
}

pub struct Finding {
    pub sig: String,
    pub detail: String,
}

/// One (state, mutating call): direct vs Vfs::Memfs vs upcast. `direct` may be supplied by the engine.
fn compare_mutator(pre: &Memfs, op: &Op, direct: Option<(String, &Dump)>, st: &mut Stats, with_disc: bool) -> Vec<Finding> {
    let mut out = vec![];
    let owned: (String, Dump);
    let (dt, dd): (String, &Dump) = match direct {
        Some((t, d)) => (t, d),
        None => {
            st.executions += 1;
            owned = run_direct(pre, op);
            (owned.0.clone(), &owned.1)
        },
    };
    st.calls_compared += 1;
    st.methods.insert(op.name());
    for via_upcast in [false, true] {
        let (wt, wd) = run_wrapped(pre, op, via_upcast);
        st.executions += 1;
        if via_upcast {
            st.methods.insert("upcast");
        }
        if wt == dt && wd == *dd {
            continue;
        }
        // determinism guard: is the direct call itself reproducible from this state?
        let (t2, d2) = run_direct(pre, op);
        let (t3, d3) = run_direct(pre, op);
        st.executions += 2;
        if t2 != dt || d2 != *dd || t3 != dt || d3 != *dd {
            st.nondeterministic += 1;
            continue;
        }
        let form = if via_upcast { "upcast()" } else { "Vfs::Memfs" };
        if wt != dt {
            out.push(Finding {
                sig: format!("{} {} · result differs from the direct Memfs call", form, op.name()),
                detail: format!("{}: direct -> {} ; through {} -> {}", op.render(), dt, form, wt),
            });
        } else {
            out.push(Finding {
                sig: format!("{} {} · resulting state differs from the direct Memfs call", form, op.name()),
                detail: format!("{}: both return {}, but the resulting states differ: {}", op.render(), dt, dump_diff(dd, &wd)),
            });
        }
    }
    if with_disc {
        for (label, sib) in siblings(op) {
            let (t, d) = run_direct(pre, &sib);
            st.executions += 1;
            let e = st.disc.entry(label).or_insert(0);
            if t != dt || d != *dd {
                *e += 1;
            }
        }
    }
    out
}

pub struct C13Obs {
    pub queries: Vec<Op>,
    pub supplement: Vec<Op>,
    /// statistics are accumulated in shards (one per worker thread, modulo 64) to avoid contention
    pub shards: Vec<Mutex<Stats>>,
    pub samples: Mutex<Vec<J>>,
}

static NEXT_THREAD: std::sync::atomic::AtomicUsize = std::sync::atomic::AtomicUsize::new(0);
thread_local! {
    static THREAD_IDX: usize = NEXT_THREAD.fetch_add(1, std::sync::atomic::Ordering::Relaxed);
}

impl C13Obs {
    pub fn new() -> C13Obs {
        C13Obs { queries: all_queries(), supplement: supplement_ops(), shards: (0..64).map(|_| Mutex::new(Stats::default())).collect(), samples: Mutex::new(vec![]) }
    }
    fn shard(&self) -> std::sync::MutexGuard<'_, Stats> {
        let i = THREAD_IDX.with(|x| *x) % self.shards.len();
        self.shards[i].lock().unwrap_or_else(|e| e.into_inner())
    }
    pub fn total(&self) -> Stats {
        let mut t = Stats::default();
        for s in &self.shards {
            t.merge(&s.lock().unwrap_or_else(|e| e.into_inner()));
        }
        t
    }
}

const PROBE: &str = "rvmc-c13-probe";

/// all comparisons that belong to one state (queries, supplement, config_dir, entries)
fn check_state(fs: &Memfs, dump: &Dump, queries: &[Op], supplement: &[Op], st: &mut Stats, only: Option<&str>) -> Vec<(String, Finding)> {
    let mut out: Vec<(String, Finding)> = vec![];
    // queries: one clone per form, all queries against it
    let d = fs.verif_deep_clone();
    let v = Vfs::Memfs(fs.verif_deep_clone());
    let u = fs.verif_deep_clone().upcast();
    let mut results: Vec<(&Op, String)> = Vec::with_capacity(queries.len());
    for q in queries {
        if let Some(o) = only {
            if o != "<queries>" && q.render() != o {
                continue;
            }
        }
        let od = apply(&d, q).transcript();
        let ov = apply(&v, q).transcript();
        let ou = apply(&u, q).transcript();
        st.executions += 3;
        st.calls_compared += 1;
        st.query_calls += 1;
        st.methods.insert(q.name());
        for (form, t) in [("Vfs::Memfs", &ov), ("upcast()", &ou)] {
            if *t != od {
                out.push((q.render(), Finding {
                    sig: format!("{} {} · result differs from the direct Memfs call", form, q.name()),
                    detail: format!("{}: direct -> {} ; through {} -> {}", q.render(), od, form, t),
                }));
            }
        }
        results.push((q, od));
    }
    let (dd, dv, du) = (d.verif_dump(), vfs_dump(&v), vfs_dump(&u));
    if dd != dv || dd != du {
        out.push((s("<queries>"), Finding {
            sig: s("Vfs::Memfs queries · resulting state differs from the direct Memfs calls"),
            detail: format!("after the same query sequence the states differ: {}", dump_diff(&dd, if dd != dv { &dv } else { &du })),
        }));
    }
    if only.is_none() {
        query_discrimination(&results, &mut st.disc);
    }
    // supplement mutators
    for op in supplement {
        if let Some(o) = only {
            if op.render() != o {
                continue;
            }
        }
        st.supplement_calls += 1;
        for f in compare_mutator(fs, op, None, st, only.is_none()) {
            out.push((op.render(), f));
        }
    }
    // config_dir: once as the state is, once with a probe directory below the user's config dir
    if only.is_none() || only == Some("config_dir") {
        let cfg_home = catch_unwind(|| user::config_dir().ok()).ok().flatten();
        for probe in [false, true] {
            let a = fs.verif_deep_clone();
            let b = fs.verif_deep_clone();
            if probe {
                match &cfg_home {
                    Some(h) => {
                        let _ = a.mkdir_p(h.mash(PROBE));
                        let _ = b.mkdir_p(h.mash(PROBE));
                    },
                    None => continue,
                }
            }
            let w = Vfs::Memfs(b);
            let ra = catch_unwind(AssertUnwindSafe(|| a.config_dir(PROBE)));
            let rb = catch_unwind(AssertUnwindSafe(|| w.config_dir(PROBE)));
            st.executions += 2;
            st.config_dir_calls += 1;
            st.methods.insert("config_dir");
            let ta = format!("{:?}", ra.as_ref().map_err(|_| "PANIC"));
            let tb = format!("{:?}", rb.as_ref().map_err(|_| "PANIC"));
            if let Ok(Some(_)) = ra {
                st.config_dir_some += 1;
            }
            if ta != tb || a.verif_dump() != vfs_dump(&w) {
                out.push((s("config_dir"), Finding {
                    sig: s("Vfs::Memfs config_dir · result differs from the direct Memfs call"),
                    detail: format!("config_dir({:?}) (probe dir created: {}): direct -> {} ; through Vfs::Memfs -> {}", PROBE, probe, ta, tb),
                }));
            }
        }
    }
    // every entry of the state: MemfsEntry vs VfsEntry::Memfs
    if only.is_none() || only == Some("entry-accessors") {
        for e in &dump.entries {
            let ve = match catch_unwind(AssertUnwindSafe(|| fs.entry(&e.key))) {
                Ok(Ok(x)) => x,
                _ => continue,
            };
            let inner = match ve {
                VfsEntry::Memfs(m) => m,
                _ => continue,
            };
            let mut subjects: Vec<MemfsEntry> = vec![inner.clone()];
            if let VfsEntry::Memfs(f) = inner.clone().follow(true) {
                if f.following() {
                    subjects.push(f);
                }
            }
            for m in subjects {
                let r = catch_unwind(AssertUnwindSafe(|| (accessors(&m), accessors(&VfsEntry::Memfs(m.clone())))));
                st.entries_compared += 1;
                st.accessor_comparisons += ACCESSORS.len() as u64;
                match r {
                    Err(p) => out.push((s("entry-accessors"), Finding { sig: s("VfsEntry::Memfs accessor · panic"), detail: format!("entry {}: {}", e.key, panic_message(&p)) })),
                    Ok((a, b)) => {
                        accessor_discrimination(&a, &mut st.disc);
                        if let Some((i, x, y)) = compare_accessors(&a, &b) {
                            out.push((s("entry-accessors"), Finding {
                                sig: format!("VfsEntry::Memfs {} · differs from the MemfsEntry accessor", ACCESSORS[i]),
                                detail: format!("entry {} (following={}): MemfsEntry::{} -> {:?} ; VfsEntry::Memfs(..).{} -> {:?}", e.key, m.following(), ACCESSORS[i], x, ACCESSORS[i], y),
                            }));
                        }
                    },
                }
            }
        }
    }
    out
}

impl Observer for C13Obs {
    fn transition(&self, t: &Trans) {
        let fs = {
            let mut st = self.shard();
            st.alphabet_calls += 1;
            compare_mutator(t.pre_fs, t.op, Some((t.out.transcript(), t.post_dump)), &mut st, true)
        };
        for f in fs {
            vio(&f.sig, || format!("after [{}]: {}", t.space.history_text(t.pre_idx), f.detail), || t.space.case_json(t.pre_idx, Some(t.op_idx)));
        }
        if t.pre_idx % 301 == 7 && t.op_idx % 53 == 3 {
            let mut sm = self.samples.lock().unwrap();
            if sm.len() < 5 {
                let (wt, _) = run_wrapped(t.pre_fs, t.op, false);
                sm.push(J::obj([("history", J::s(t.space.history_text(t.pre_idx))), ("call", J::s(t.op.render())), ("direct", J::s(t.out.transcript())), ("through_Vfs::Memfs", J::s(wt))]));
            }
        }
    }

    fn state(&self, sv: &StateView) {
        let fs = {
            let mut st = self.shard();
            check_state(sv.fs, sv.dump, &self.queries, &self.supplement, &mut st, None)
        };
        for (what, f) in fs {
            vio(&f.sig, || format!("in the state after [{}]: {}", sv.space.history_text(sv.idx), f.detail), || {
                let mut j = sv.space.case_json(sv.idx, None);
                j.set("what", J::s(&what));
                j
            });
        }
    }
}

// ---------------------------------------------------------------------------------------------
// Stdfs half
// ---------------------------------------------------------------------------------------------
fn ps(p: &Path) -> String {
    p.to_string_lossy().into_owned()
}
fn pv(v: &[PathBuf]) -> String {
    v.iter().map(|p| ps(p)).collect::<Vec<_>>().join(",")
}
fn res<T, F: FnOnce(T) -> String>(r: RvResult<T>, f: F) -> Outcome {
    match r {
        Ok(v) => Outcome::okv(f(v)),
        Err(e) => Outcome { ok: false, val: String::new(), err: err_kind(&e), msg: e.to_string() },
    }
}
fn handle_write(mut f: Box<dyn Write>, chunks: &[Vec<u8>], flags: &[bool]) -> RvResult<()> {
    for (i, c) in chunks.iter().enumerate() {
        f.write_all(c)?;
        if flags.get(i).copied().unwrap_or(false) {
            f.flush()?;
        }
    }
    drop(f);
    Ok(())
}

/// The same call through the INHERENT associated functions `Stdfs::xxx(..)` (rendered exactly like
/// `models::ops::apply` renders the trait call)
pub fn apply_inherent(op: &Op) -> Outcome {
    match catch_unwind(AssertUnwindSafe(|| apply_inherent_raw(op))) {
        Ok(o) => o,
        Err(e) => Outcome { ok: false, val: String::new(), err: "PANIC".into(), msg: panic_message(&e) },
    }
}

fn apply_inherent_raw(op: &Op) -> Outcome {
    use Op::*;
    let unit = |_: ()| "()".to_string();
    match op {
        Mkfile(p) => res(Stdfs::mkfile(p), |x| ps(&x)),
        MkfileM(p, m) => res(Stdfs::mkfile_m(p, *m), |x| ps(&x)),
        MkdirP(p) => res(Stdfs::mkdir_p(p), |x| ps(&x)),
        MkdirM(p, m) => res(Stdfs::mkdir_m(p, *m), |x| ps(&x)),
        WriteAll(p, d) => res(Stdfs::write_all(p, d), unit),
        WriteLines(p, l) => res(Stdfs::write_lines(p, l), unit),
        AppendAll(p, d) => res(Stdfs::append_all(p, d), unit),
        AppendLine(p, l) => res(Stdfs::append_line(p, l), unit),
        AppendLines(p, l) => res(Stdfs::append_lines(p, l), unit),
        WriteHandle(p, c, f) => res(Stdfs::write(p).and_then(|h| handle_write(h, c, f)), unit),
        AppendHandle(p, c, f) => res(Stdfs::append(p).and_then(|h| handle_write(h, c, f)), unit),
        Remove(p) => res(Stdfs::remove(p), unit),
        RemoveAll(p) => res(Stdfs::remove_all(p), unit),
        MoveP(a, b) => res(Stdfs::move_p(a, b), unit),
        Copy(a, b) => res(Stdfs::copy(a, b), unit),
        CopyB(a, b, m, follow) => res(
            Stdfs::copy_b(a, b).and_then(|c| {
                let c = match m {
                    CopyMode::None => c,
                    CopyMode::All(x) => c.chmod_all(*x),
                    CopyMode::Dirs(x) => c.chmod_dirs(*x),
                    CopyMode::Files(x) => c.chmod_files(*x),
                    CopyMode::DirsThenAll(a, b) => c.chmod_dirs(*a).chmod_all(*b),
                    CopyMode::FilesThenAll(a, b) => c.chmod_files(*a).chmod_all(*b),
                };
                c.follow(*follow).exec()
            }),
            unit,
        ),
        Symlink(l, t) => res(Stdfs::symlink(l, t), |x| ps(&x)),
        SetCwd(p) => res(Stdfs::set_cwd(p), |x| ps(&x)),
        Chmod(p, m) => res(Stdfs::chmod(p, *m), unit),
        ChmodB(p, sel, rec, follow) => res(
            Stdfs::chmod_b(p).and_then(|c| {
                let c = match sel {
                    ChmodSel::All(m) => c.all(*m),
                    ChmodSel::Dirs(m) => c.dirs(*m),
                    ChmodSel::Files(m) => c.files(*m),
                    ChmodSel::Sym(s) => c.sym(s),
                    ChmodSel::Readonly => c.readonly(),
                    ChmodSel::Secure => c.secure(),
                };
                let c = if *rec { c.recurse() } else { c.no_recurse() };
                let c = if *follow { c.follow() } else { c };
                c.exec()
            }),
            unit,
        ),
        Chown(p, u, g) => res(Stdfs::chown(p, *u, *g), unit),
        ChownB(p, u, g, rec, follow) => res(
            Stdfs::chown_b(p).and_then(|c| {
                let c = match u {
                    Some(u) => c.uid(*u),
                    None => c,
                };
                let c = match g {
                    Some(g) => c.gid(*g),
                    None => c,
                };
                let c = c.recurse(*rec);
                let c = if *follow { c.follow() } else { c };
                c.exec()
            }),
            unit,
        ),
        Abs(p) => res(Stdfs::abs(p), |x| ps(&x)),
        AllDirs(p) => res(Stdfs::all_dirs(p), |x| pv(&x)),
        AllFiles(p) => res(Stdfs::all_files(p), |x| pv(&x)),
        AllPaths(p) => res(Stdfs::all_paths(p), |x| pv(&x)),
        Cwd => res(Stdfs::cwd(), |x| ps(&x)),
        Dirs(p) => res(Stdfs::dirs(p), |x| pv(&x)),
        EntriesSorted(p) => res(
            Stdfs::entries(p).and_then(|e| {
                let mut out = vec![];
                let mut budget = 10_000;
                for x in e.sort_by_name() {
                    budget -= 1;
                    if budget == 0 {
                        out.push("<NONTERMINATING>".to_string());
                        break;
                    }
                    match x {
                        Ok(en) => out.push(render_entry(&en)),
                        Err(er) => out.push(format!("Err({})", err_kind(&er))),
                    }
                }
                Ok(out.join(";"))
            }),
            |x| x,
        ),
        EntriesFollow(p) => res(
            Stdfs::entries(p).and_then(|e| {
                let mut out = vec![];
                let mut budget = 10_000;
                for x in e.follow(true).sort_by_name() {
                    budget -= 1;
                    if budget == 0 {
                        out.push("<NONTERMINATING>".to_string());
                        break;
                    }
                    match x {
                        Ok(en) => out.push(render_entry(&en)),
                        Err(er) => out.push(format!("Err({})", err_kind(&er))),
                    }
                }
                // entries with equal names (a file and a followed link to it) have no defined order
                out.sort();
                Ok(out.join(";"))
            }),
            |x| x,
        ),
        Entry(p) => res(Stdfs::entry(p), |e| render_entry(&e)),
        Exists(p) => Outcome::okv(Stdfs::exists(p).to_string()),
        Files(p) => res(Stdfs::files(p), |x| pv(&x)),
        Gid(p) => res(Stdfs::gid(p), |x| x.to_string()),
        IsDir(p) => Outcome::okv(Stdfs::is_dir(p).to_string()),
        IsExec(p) => Outcome::okv(Stdfs::is_exec(p).to_string()),
        IsFile(p) => Outcome::okv(Stdfs::is_file(p).to_string()),
        IsReadonly(p) => Outcome::okv(Stdfs::is_readonly(p).to_string()),
        IsSymlink(p) => Outcome::okv(Stdfs::is_symlink(p).to_string()),
        IsSymlinkDir(p) => Outcome::okv(Stdfs::is_symlink_dir(p).to_string()),
        IsSymlinkFile(p) => Outcome::okv(Stdfs::is_symlink_file(p).to_string()),
        Mode(p) => res(Stdfs::mode(p), |x| format!("{:o}", x)),
        Owner(p) => res(Stdfs::owner(p), |(u, g)| format!("{}:{}", u, g)),
        Paths(p) => res(Stdfs::paths(p), |x| pv(&x)),
        Read(p) => res(
            Stdfs::read(p).and_then(|mut h| {
                let mut buf = vec![];
                h.read_to_end(&mut buf)?;
                Ok(buf)
            }),
            |b| bytes_repr(&b),
        ),
        ReadAll(p) => res(Stdfs::read_all(p), |x| x),
        ReadLines(p) => res(Stdfs::read_lines(p), |x| format!("{:?}", x)),
        Readlink(p) => res(Stdfs::readlink(p), |x| ps(&x)),
        ReadlinkAbs(p) => res(Stdfs::readlink_abs(p), |x| ps(&x)),
        Root => Outcome::okv(ps(&Stdfs::root())),
        Uid(p) => res(Stdfs::uid(p), |x| x.to_string()),
    }
}

pub fn tree_space(max_entries: usize) -> TreeSpace {
    TreeSpace { names: vec!["a", "b"], max_depth: 2, max_entries, contents: vec![b"x".to_vec()], links: LinkDomain::Resolving, extra_targets: vec![], target_depth: 2 }
}

/// the pre-states of the Stdfs half: every tree of the space, files 0o640 and directories 0o750 (not what
/// mkfile / mkdir_p / write_all give a new entry: a wrapper arm that re-applies a default mode to an entry
/// that already exists differs from the direct call only then)
pub fn stdfs_trees(max_entries: usize) -> Vec<Tree> {
    let mut v = enum_trees(&tree_space(max_entries));
    for t in v.iter_mut() {
        for n in t.nodes.values_mut() {
            if n.is_file() {
                n.mode = 0o640;
            } else if n.is_dir() {
                n.mode = 0o750;
            }
        }
    }
    v
}

/// mutators of the Stdfs half (model coordinates): structure over the namespace + the supplement
pub fn stdfs_mutators() -> Vec<Op> {
    let ns = namespace(&["a", "b"], 2);
    let mut ops = vec![];
    for p in &ns {
        ops.push(Op::Mkfile(p.clone()));
        ops.push(Op::MkdirP(p.clone()));
        ops.push(Op::WriteAll(p.clone(), b"w".to_vec()));
        ops.push(Op::AppendAll(p.clone(), b"q".to_vec()));
        ops.push(Op::Remove(p.clone()));
        ops.push(Op::RemoveAll(p.clone()));
        ops.push(Op::SetCwd(p.clone()));
        ops.push(Op::Chown(p.clone(), 5, 6));
        ops.push(Op::MkdirM(p.clone(), 0o700));
        ops.push(Op::MkfileM(p.clone(), 0o600));
        for t in ["/a", "/b/a", "/zz"] {
            if p != t {
                ops.push(Op::Symlink(p.clone(), s(t)));
            }
        }
    }
    for a in ["/a", "/b", "/a/a", "/b/a"] {
        for b in ["/a", "/b", "/a/b", "/b/b"] {
            if a != b {
                ops.push(Op::MoveP(s(a), s(b)));
                ops.push(Op::Copy(s(a), s(b)));
            }
        }
    }
    let have: BTreeSet<Op> = ops.iter().cloned().collect();
    for o in supplement_ops() {
        if !have.contains(&o) {
            ops.push(o);
        }
    }
    ops.push(Op::Mkfile(s("a")));
    ops.push(Op::MkdirP(s("b/a")));
    ops.push(Op::Remove(s("./a")));
    ops.push(Op::MoveP(s("a"), s("b")));
    ops.push(Op::SetCwd(s("a")));
    ops
}

const OWN_UID: u32 = 3;
const OWN_GID: u32 = 4;

struct Disk<'a> {
    sb: &'a Sandbox,
    tree: &'a Tree,
    dirty: bool,
    mats: u64,
}

impl<'a> Disk<'a> {
    fn fresh(&mut self) -> Result<(), String> {
        if self.dirty {
            self.sb.reset();
            materialize_disk(self.tree, &self.sb.root).map_err(|e| format!("materialise: {}", e))?;
            // every entry is owned by 3:4 so that uid and gid answers differ
            for k in self.tree.nodes.keys() {
                let c = std::ffi::CString::new(reroot(&self.sb.root, k)).map_err(|e| e.to_string())?;
                if unsafe { libc::lchown(c.as_ptr(), OWN_UID, OWN_GID) } != 0 {
                    return Err(format!("lchown {}: {}", k, std::io::Error::last_os_error()));
                }
            }
            self.mats += 1;
            self.dirty = false;
        }
        std::env::set_current_dir(&self.sb.root).map_err(|e| format!("chdir: {}", e))
    }
    /// observed tree + process cwd; marks the sandbox dirty when it no longer equals the pre-state
    fn observe(&mut self) -> Result<(Tree, String), String> {
        let cwd = std::env::current_dir().map(|x| x.to_string_lossy().into_owned()).unwrap_or_default();
        let t = observe_disk(&self.sb.root).map_err(|e| format!("observe: {}", e))?;
        let mut n = t.clone();
        for x in n.nodes.values_mut() {
            x.uid = crate::models::tree::DEF_ID;
            x.gid = crate::models::tree::DEF_ID;
        }
        if n != *self.tree || t.nodes.values().any(|x| x.uid != OWN_UID || x.gid != OWN_GID) || cwd != self.sb.root {
            self.dirty = true;
        }
        Ok((t, cwd))
    }
}

/// model path with links followed (pre-states only hold links that resolve to non-link entries)
fn resolve_in(tree: &Tree, p: &str) -> String {
    let mut cur = String::from("/");
    for comp in p.split('/').filter(|x| !x.is_empty()) {
        cur = crate::models::tree::join(&cur, comp);
        if let Some(n) = tree.get(&cur) {
            if let crate::models::tree::Kind::Link(t) = &n.kind {
                cur = t.clone();
            }
        }
    }
    cur
}

/// Copy of a directory to a place inside itself (directly or through a link): Stdfs recurses until
/// the path name is too long - a known C09/C12 matter that would only burn minutes here.
fn copy_into_itself(tree: &Tree, op: &Op) -> bool {
    // rivia now refuses such copies (fix: commits 752cbcf, ccc0ada, abc8732), so they are part of the
    // compared alphabet; the exclusion can be switched on again to bisect a regression
    if std::env::var("C13_SKIP_COPY_INTO_ITSELF").is_err() {
        return false;
    }
    let (a, b) = match op {
        Op::Copy(a, b) | Op::CopyB(a, b, ..) | Op::MoveP(a, b) => (a, b),
        _ => return false,
    };
    if !a.starts_with('/') || !b.starts_with('/') {
        return false;
    }
    let (ra, rb) = (resolve_in(tree, a), resolve_in(tree, b));
    if let Op::CopyB(_, _, _, true) = op {
        // following links below the source: a link to a directory may lead back above the destination
        let loops = tree.subtree(&ra).iter().any(|k| match &tree.nodes[k].kind {
            crate::models::tree::Kind::Link(t) => tree.is_dir(t),
            _ => false,
        });
        if loops {
            return true;
        }
    }
    ra != rb && crate::models::tree::is_under(&rb, &ra) && tree.is_dir(&ra)
}

const FORMS: [&str; 4] = ["Stdfs::xxx (inherent)", "Stdfs::new() (trait impl)", "Vfs::Stdfs", "Stdfs::new().upcast()"];

fn run_form(form: usize, op: &Op) -> Outcome {
    match form {
        0 => apply_inherent(op),
        1 => apply(&Stdfs::new(), op),
        2 => apply(&Vfs::Stdfs(Stdfs::new()), op),
        _ => apply(&Stdfs::new().upcast(), op),
    }
}

#[derive(Default)]
struct DStats {
    calls: u64,
    execs: u64,
    entries: u64,
    accessor_comparisons: u64,
    config_dir_calls: u64,
    config_dir_some: u64,
    skipped_copy_into_itself: u64,
    /// sandbox states that could not be materialised (machinery failure, never a verdict)
    machinery: u64,
    disc: BTreeMap<String, u64>,
    methods: BTreeSet<String>,
}

fn render_obs(o: &Result<(Tree, String), String>, root: &str) -> String {
    match o {
        Ok((t, cwd)) => format!("[{}] owners {:?} cwd {}", t.render(), t.nodes.values().map(|n| (n.uid, n.gid)).collect::<BTreeSet<_>>(), cwd.strip_prefix(root).unwrap_or(cwd)),
        Err(e) => format!("<{}>", e),
    }
}

/// all comparisons for one tree on disk; `only` restricts to one rendered op (replay)
fn check_tree(sb: &Sandbox, tree: &Tree, st: &mut DStats, only: Option<&str>, verbose: bool) -> Vec<(String, Finding)> {
    let hb = HEARTBEAT.get_or_init(|| std::sync::Arc::new(std::sync::atomic::AtomicU64::new(0))).clone();
    let mut beat_local = 0u64;
    let beat = &mut beat_local;
    let mut out = vec![];
    let mut disk = Disk { sb, tree, dirty: true, mats: 0 };
    let root = sb.root.clone();
    let rr = |op: &Op| op.map_paths(|p, _| if p.starts_with('/') { reroot(&root, p) } else { p.to_string() });
    let queries = all_queries();
    let mutators = stdfs_mutators();
    let mut qresults: Vec<(&Op, String)> = vec![];
    for (is_query, op) in queries.iter().map(|o| (true, o)).chain(mutators.iter().map(|o| (false, o))) {
        if let Some(o) = only {
            if op.render() != o {
                continue;
            }
        }
        if copy_into_itself(tree, op) {
            st.skipped_copy_into_itself += 1;
            continue;
        }
        *beat += 1;
        hb.fetch_add(1, std::sync::atomic::Ordering::Relaxed);
        if let Ok(mut c) = CURRENT.lock() {
            *c = format!("tree [{}] {}", tree.render(), op.render());
        }
        let real = rr(op);
        st.calls += 1;
        st.methods.insert(op.name().to_string());
        let mut forms: Vec<(String, Result<(Tree, String), String>)> = vec![];
        for form in 0..4 {
            if let Err(e) = disk.fresh() {
                st.machinery += 1;
                forms.push((format!("<{}>", e), Err(e)));
                continue;
            }
            let t0 = std::time::Instant::now();
            let o = run_form(form, &real);
            st.execs += 1;
            let obs = disk.observe();
            if t0.elapsed().as_millis() > 200 && std::env::var("C13_TIMING").is_ok() {
                eprintln!("   slow: {} {} -> {} ({} ms)", FORMS[form], op.render(), o.transcript().chars().take(150).collect::<String>(), t0.elapsed().as_millis());
            }
            if verbose {
                println!("  {:<28} {} -> {} ; disk {}", FORMS[form], op.render(), o.transcript(), render_obs(&obs, &root));
            }
            forms.push((o.transcript(), obs));
        }
        st.methods.insert(s("upcast"));
        // reference pairs: trait impl vs inherent; Vfs::Stdfs vs trait impl; upcast vs trait impl
        for (form, reference) in [(1usize, 0usize), (2, 1), (3, 1)] {
            let (ft, fo) = &forms[form];
            let (rt, ro) = &forms[reference];
            if ft != rt {
                out.push((op.render(), Finding {
                    sig: format!("{} {} · result differs from {}", FORMS[form], op.name(), FORMS[reference]),
                    detail: format!("tree [{}]: {} via {} -> {} ; via {} -> {}", tree.render(), op.render(), FORMS[reference], rt, FORMS[form], ft),
                }));
            } else if fo != ro {
                out.push((op.render(), Finding {
                    sig: format!("{} {} · resulting disk state differs from {}", FORMS[form], op.name(), FORMS[reference]),
                    detail: format!("tree [{}]: {} returns {} both ways; disk via {}: {} ; via {}: {}", tree.render(), op.render(), rt, FORMS[reference], render_obs(ro, &root), FORMS[form], render_obs(fo, &root)),
                }));
            }
        }
        if only.is_none() {
            if is_query {
                qresults.push((op, forms[0].0.clone()));
            } else {
                for (label, sib) in siblings(op) {
                    if copy_into_itself(tree, &sib) || disk.fresh().is_err() {
                        continue;
                    }
                    let o = run_form(0, &rr(&sib));
                    st.execs += 1;
                    let obs = disk.observe();
                    let e = st.disc.entry(format!("stdfs {}", label)).or_insert(0);
                    if o.transcript() != forms[0].0 || obs != forms[0].1 {
                        *e += 1;
                    }
                }
            }
        }
    }
    if only.is_none() {
        let mut d = BTreeMap::new();
        query_discrimination(&qresults, &mut d);
        for (k, v) in d {
            *st.disc.entry(format!("stdfs {}", k)).or_insert(0) += v;
        }
    }
    // config_dir: the inherent function is private, so trait impl vs wrapper only
    if only.is_none() || only == Some("config_dir") {
        for name in [PROBE, "rvmc-c13-missing"] {
            let _ = disk.fresh();
            let a = catch_unwind(|| Stdfs::new().config_dir(name));
            let b = catch_unwind(|| Vfs::Stdfs(Stdfs::new()).config_dir(name));
            st.execs += 2;
            st.config_dir_calls += 1;
            st.methods.insert(s("config_dir"));
            if let Ok(Some(_)) = a {
                st.config_dir_some += 1;
            }
            let (ta, tb) = (format!("{:?}", a.map_err(|_| "PANIC")), format!("{:?}", b.map_err(|_| "PANIC")));
            if ta != tb {
                out.push((s("config_dir"), Finding {
                    sig: s("Vfs::Stdfs config_dir · result differs from Stdfs::new() (trait impl)"),
                    detail: format!("config_dir({:?}): Stdfs -> {} ; Vfs::Stdfs -> {}", name, ta, tb),
                }));
            }
        }
    }
    // entries
    if only.is_none() || only == Some("entry-accessors") {
        // pass 0: modes as materialised; pass 1: files 0o755 and directories 0o644 (so that is_exec and
        // is_dir / is_file disagree on some entry)
        for pass in 0..2 {
        let _ = disk.fresh();
        if pass == 1 {
            use std::os::unix::fs::PermissionsExt;
            for (k, n) in &tree.nodes {
                let m = if n.is_dir() { 0o644 } else { 0o755 };
                if !n.is_link() {
                    let _ = std::fs::set_permissions(reroot(&root, k), std::fs::Permissions::from_mode(m));
                }
            }
            disk.dirty = true;
        }
        for k in tree.nodes.keys() {
            let p = reroot(&root, k);
            let inner = match catch_unwind(|| Stdfs::entry(&p)) {
                Ok(Ok(VfsEntry::Stdfs(e))) => e,
                _ => continue,
            };
            let mut subjects: Vec<StdfsEntry> = vec![inner.clone()];
            if let VfsEntry::Stdfs(f) = inner.clone().follow(true) {
                if f.following() {
                    subjects.push(f);
                }
            }
            for m in subjects {
                st.entries += 1;
                st.accessor_comparisons += ACCESSORS.len() as u64;
                match catch_unwind(AssertUnwindSafe(|| (accessors(&m), accessors(&VfsEntry::Stdfs(m.clone()))))) {
                    Err(pn) => out.push((s("entry-accessors"), Finding { sig: s("VfsEntry::Stdfs accessor · panic"), detail: format!("entry {}: {}", k, panic_message(&pn)) })),
                    Ok((a, b)) => {
                        let mut d = BTreeMap::new();
                        accessor_discrimination(&a, &mut d);
                        for (k2, v) in d {
                            *st.disc.entry(format!("stdfs {}", k2)).or_insert(0) += v;
                        }
                        if let Some((i, x, y)) = compare_accessors(&a, &b) {
                            out.push((s("entry-accessors"), Finding {
                                sig: format!("VfsEntry::Stdfs {} · differs from the StdfsEntry accessor", ACCESSORS[i]),
                                detail: format!("tree [{}] entry {} (following={}): StdfsEntry::{} -> {:?} ; VfsEntry::Stdfs(..).{} -> {:?}", tree.render(), k, m.following(), ACCESSORS[i], x, ACCESSORS[i], y),
                            }));
                        }
                    },
                }
            }
        }
        }
    }
    st.execs += 0;
    let _ = std::env::set_current_dir(&sb.base);
    out
}

static HEARTBEAT: std::sync::OnceLock<std::sync::Arc<std::sync::atomic::AtomicU64>> = std::sync::OnceLock::new();
static CURRENT: Mutex<String> = Mutex::new(String::new());

/// hang guard of a worker process: no new call within the limit => report and exit
fn spawn_hang_guard(limit_secs: u64) {
    let hb = HEARTBEAT.get_or_init(|| std::sync::Arc::new(std::sync::atomic::AtomicU64::new(0))).clone();
    let main_tid = crate::common::par::my_tid();
    std::thread::spawn(move || {
        let mut last = (u64::MAX, std::time::Instant::now());
        loop {
            std::thread::sleep(std::time::Duration::from_millis(500));
            let b = hb.load(std::sync::atomic::Ordering::Relaxed);
            if b != last.0 {
                last = (b, std::time::Instant::now());
            } else if last.1.elapsed().as_secs() > limit_secs {
                if !crate::common::par::confirm_stuck(main_tid, std::time::Duration::from_secs(limit_secs), &|| hb.load(std::sync::atomic::Ordering::Relaxed) == b) {
                    last = (u64::MAX, std::time::Instant::now());
                    continue;
                }
                let c = CURRENT.lock().map(|x| x.clone()).unwrap_or_default();
                let v = J::obj([("sig", J::s("hang · Stdfs call did not return within the time limit")), ("n", J::i(1)), ("detail", J::s(format!("worker stuck for > {} s in {}", limit_secs, c))), ("case", J::s(&c))]);
                println!("V\t{}\nDONE", v.to_string());
                std::process::exit(0);
            }
        }
    });
}

fn setup_worker_env(sb: &Sandbox) {
    unsafe {
        libc::umask(0o022);
    }
    // a config home that holds the probe directory, so config_dir() has a Some(..) answer
    let cfg = format!("{}/cfg", sb.base);
    let _ = std::fs::create_dir_all(format!("{}/{}", cfg, PROBE));
    std::env::set_var("XDG_CONFIG_HOME", &cfg);
    std::env::set_var("XDG_CONFIG_DIRS", format!("{}/cfgsys", sb.base));
}

// ---------------------------------------------------------------------------------------------
// Builders across a cwd change: copy_b / chmod_b / chown_b hand out a builder that is executed later.
// The wrapper's builder must behave like the backend's in that respect too: built from relative
// paths, the cwd moved, then exec() - same results, same effect.
// ---------------------------------------------------------------------------------------------
fn deferred_transcript<V: VirtualFileSystem>(fs: &V, base: &str, chdir: &dyn Fn(&V, &str) -> Result<(), String>) -> Vec<String> {
    let mut t = vec![];
    let r = catch_unwind(AssertUnwindSafe(|| -> Result<Vec<String>, String> {
        let e = |x: RvError| x.to_string();
        let (a, b) = (format!("{}/a", base), format!("{}/b", base));
        fs.mkdir_p(&a).map_err(e)?;
        fs.mkdir_p(&b).map_err(e)?;
        fs.write_all(format!("{}/f", a), b"1").map_err(e)?;
        fs.write_all(format!("{}/f", b), b"2").map_err(e)?;
        chdir(fs, &a)?;
        let cp = fs.copy_b("f", "g");
        let cm = fs.chmod_b("f");
        let co = fs.chown_b("f");
        chdir(fs, &b)?;
        let mut v = vec![];
        v.push(format!("copy_b: {:?}", cp.and_then(|x| x.exec()).map_err(|x| err_kind(&x))));
        v.push(format!("chmod_b: {:?}", cm.and_then(|x| x.all(0o600).exec()).map_err(|x| err_kind(&x))));
        v.push(format!("chown_b: {:?}", co.and_then(|x| x.owner(5, 7).exec()).map_err(|x| err_kind(&x))));
        for d in [&a, &b] {
            for n in ["f", "g"] {
                let p = format!("{}/{}", d, n);
                let rel = p[base.len()..].to_string();
                v.push(format!("{} exists={} mode={:?} owner={:?} data={:?}", rel, fs.exists(&p), fs.mode(&p).ok().map(|m| format!("{:o}", m)), fs.owner(&p).ok(), fs.read_all(&p).ok()));
            }
        }
        Ok(v)
    }));
    match r {
        Ok(Ok(v)) => t.extend(v),
        Ok(Err(e)) => t.push(format!("setup/call failed: {}", e)),
        Err(p) => t.push(format!("PANIC: {}", panic_message(&p))),
    }
    t
}

/// Mode sweep: a file, a directory and a link to each; file and directory take every mode of `modes`;
/// every Entry accessor of the wrapped backend entry against the same accessor of the VfsEntry around it,
/// and vfs.mode / is_exec / is_readonly of the backend value against the same call through Vfs.
/// (the state sweeps only reach the handful of modes their alphabets create)
fn mode_sweep<V: VirtualFileSystem, W: VirtualFileSystem>(direct: &V, wrapped: &W, base: &str, modes: &[u32], world: &str, count: &mut u64) -> Vec<(String, String)> {
    let mut out: Vec<(String, String)> = vec![];
    let p = |n: &str| format!("{}/{}", base, n);
    for fs_setup in [0, 1] {
        // the two values are set up separately only when they do not share their state (Memfs)
        let r = if fs_setup == 0 { setup_mode_tree(direct, base) } else if world == "memfs" { setup_mode_tree(wrapped, base) } else { Ok(()) };
        if let Err(e) = r {
            out.push((format!("{} mode sweep · machinery", world), e));
            return out;
        }
    }
    for &m in modes {
        for n in ["f", "d"] {
            let a = direct.chmod(p(n), m).map_err(|e| e.to_string());
            let b = if world == "memfs" { wrapped.chmod(p(n), m).map_err(|e| e.to_string()) } else { Ok(()) };
            if a.is_err() || b.is_err() {
                out.push((format!("{} mode sweep · chmod failed", world), format!("chmod({}, {:o}): {:?} / {:?}", n, m, a, b)));
            }
        }
        for n in ["f", "d", "lf", "ld"] {
            let q = p(n);
            // method level
            let dm = (direct.mode(&q).map_err(|e| e.to_string()), direct.is_exec(&q), direct.is_readonly(&q));
            let wm = (wrapped.mode(&q).map_err(|e| e.to_string()), wrapped.is_exec(&q), wrapped.is_readonly(&q));
            *count += 3;
            if dm != wm {
                out.push((format!("{} mode sweep · mode/is_exec/is_readonly through Vfs differ from the backend value", world), format!("{} with file/dir mode {:o}: direct (mode, is_exec, is_readonly) = {:?}, through Vfs = {:?}", n, m, dm, wm)));
            }
            // entry level
            let e = match direct.entry(&q) {
                Ok(e) => e,
                Err(e) => {
                    out.push((format!("{} mode sweep · entry failed", world), format!("entry({}) with mode {:o}: {}", n, m, e)));
                    continue;
                },
            };
            let mut subjects = vec![e.clone()];
            let f = e.clone().follow(true);
            if f.following() {
                subjects.push(f);
            }
            for sub in subjects {
                let (inner, outer) = match &sub {
                    VfsEntry::Memfs(x) => (accessors(x), accessors(&VfsEntry::Memfs(x.clone()))),
                    VfsEntry::Stdfs(x) => (accessors(x), accessors(&VfsEntry::Stdfs(x.clone()))),
                };
                *count += ACCESSORS.len() as u64;
                if let Some((i, x, y)) = compare_accessors(&inner, &outer) {
                    out.push((
                        format!("VfsEntry::{} {} · differs from the {}Entry accessor", if world == "memfs" { "Memfs" } else { "Stdfs" }, ACCESSORS[i], if world == "memfs" { "Memfs" } else { "Stdfs" }),
                        format!("mode sweep: entry {} (following={}) with file/dir mode {:o}: inner {} -> {:?} ; VfsEntry {} -> {:?}", n, sub.following(), m, ACCESSORS[i], x, ACCESSORS[i], y),
                    ));
                }
            }
        }
    }
    // leave removable modes behind
    for n in ["f", "d"] {
        let _ = direct.chmod(p(n), 0o755);
    }
    out.sort();
    out.dedup_by(|a, b| a.0 == b.0);
    out
}

fn setup_mode_tree<V: VirtualFileSystem>(fs: &V, base: &str) -> Result<(), String> {
    let p = |n: &str| format!("{}/{}", base, n);
    fs.mkdir_p(base).map_err(|e| e.to_string())?;
    fs.mkfile(p("f")).map_err(|e| e.to_string())?;
    fs.mkdir_p(p("d")).map_err(|e| e.to_string())?;
    fs.symlink(p("lf"), p("f")).map_err(|e| e.to_string())?;
    fs.symlink(p("ld"), p("d")).map_err(|e| e.to_string())?;
    Ok(())
}

fn sweep_modes(tier: Tier) -> Vec<u32> {
    // quick: all 512 permission values; thorough: with every combination of the three special bits
    (0..tier.pick(0o1000u32, 0o10000u32)).collect()
}

fn mode_sweep_memfs(tier: Tier) -> (Vec<(String, String)>, u64) {
    let mut n = 0;
    let f = mode_sweep(&Memfs::new(), &Vfs::Memfs(Memfs::new()), "/r", &sweep_modes(tier), "memfs", &mut n);
    (f, n)
}

fn mode_sweep_stdfs(sb: &Sandbox, tier: Tier) -> (Vec<(String, String)>, u64) {
    sb.reset();
    let mut n = 0;
    let f = mode_sweep(&Stdfs::new(), &Vfs::Stdfs(Stdfs::new()), &format!("{}/r", sb.root), &sweep_modes(tier), "stdfs", &mut n);
    sb.reset();
    (f, n)
}

fn deferred_memfs() -> Vec<(String, String)> {
    let mut out = vec![];
    let run = |form: &str| -> Vec<String> {
        let m = Memfs::new();
        match form {
            "Memfs" => deferred_transcript(&m, "/r", &|f: &Memfs, p| f.set_cwd(p).map(|_| ()).map_err(|e| e.to_string())),
            "Vfs::Memfs" => deferred_transcript(&Vfs::Memfs(m), "/r", &|f: &Vfs, p| f.set_cwd(p).map(|_| ()).map_err(|e| e.to_string())),
            _ => deferred_transcript(&m.upcast(), "/r", &|f: &Vfs, p| f.set_cwd(p).map(|_| ()).map_err(|e| e.to_string())),
        }
    };
    let direct = run("Memfs");
    for form in ["Vfs::Memfs", "Memfs::upcast()"] {
        let got = run(form);
        if got != direct {
            let d = direct.iter().zip(got.iter()).find(|(a, b)| a != b).map(|(a, b)| format!("direct: {} / wrapped: {}", a, b)).unwrap_or_else(|| format!("{} vs {} lines", direct.len(), got.len()));
            out.push((format!("{} builder executed after a cwd change · differs from the direct Memfs call", form), format!("builders made from relative paths with cwd /r/a, executed with cwd /r/b: {}", d)));
        }
    }
    out
}

fn deferred_stdfs(sb: &Sandbox) -> Vec<(String, String)> {
    let mut out = vec![];
    let run = |form: &str| -> Vec<String> {
        sb.reset();
        let base = format!("{}/r", sb.root);
        let t = match form {
            "Stdfs" => deferred_transcript(&Stdfs::new(), &base, &|_f: &Stdfs, p| std::env::set_current_dir(p).map_err(|e| e.to_string())),
            "Vfs::Stdfs" => deferred_transcript(&Vfs::Stdfs(Stdfs::new()), &base, &|_f: &Vfs, p| std::env::set_current_dir(p).map_err(|e| e.to_string())),
            _ => deferred_transcript(&Stdfs::new().upcast(), &base, &|_f: &Vfs, p| std::env::set_current_dir(p).map_err(|e| e.to_string())),
        };
        let _ = std::env::set_current_dir(&sb.base);
        t
    };
    let direct = run("Stdfs");
    for form in ["Vfs::Stdfs", "Stdfs::upcast()"] {
        let got = run(form);
        if got != direct {
            let d = direct.iter().zip(got.iter()).find(|(a, b)| a != b).map(|(a, b)| format!("direct: {} / wrapped: {}", a, b)).unwrap_or_else(|| format!("{} vs {} lines", direct.len(), got.len()));
            out.push((format!("{} builder executed after a cwd change · differs from Stdfs::new() (trait impl)", form), format!("builders made from relative paths with cwd <SB>/r/a, executed with cwd <SB>/r/b: {}", d)));
        }
    }
    sb.reset();
    out
}

pub fn worker(w: &mut WorkerCtx) {
    let max_entries: usize = w.arg(0).parse().unwrap_or(2);
    let sb = Sandbox::new("c13");
    setup_worker_env(&sb);
    spawn_hang_guard(w.tier.pick(20, 60));
    if w.shard == 0 {
        for (sig, detail) in deferred_stdfs(&sb) {
            w.vio(&sig, || detail, || J::obj([("world", J::s("stdfs")), ("what", J::s("deferred-builders"))]));
        }
    }
    if w.shard == 1 % w.nshards {
        let (f, n) = mode_sweep_stdfs(&sb, w.tier);
        w.count("mode_sweep_comparisons", n);
        for (sig, detail) in f {
            w.vio(&sig, || detail, || J::obj([("world", J::s("stdfs")), ("what", J::s("mode-sweep"))]));
        }
    }
    if w.shard == 2 % w.nshards {
        // the process inside a directory that no longer exists: what fails on the backend value fails the same
        // way through the wrappers (an error is a result like any other)
        let gone = format!("{}/gone", sb.root);
        if std::fs::create_dir_all(&gone).is_ok() && std::env::set_current_dir(&gone).is_ok() && std::fs::remove_dir(&gone).is_ok() {
            for op in [Op::Cwd, Op::Abs(s("x")), Op::Abs(s(".")), Op::Exists(s("x")), Op::IsDir(s(".")), Op::SetCwd(s(".")), Op::Paths(s(".")), Op::Mkfile(s("x"))] {
                let forms: Vec<String> = (0..4).map(|f| run_form(f, &op).transcript()).collect();
                w.count("removed_cwd_comparisons", 3);
                for (form, reference) in [(1usize, 0usize), (2, 1), (3, 1)] {
                    if forms[form] != forms[reference] {
                        let (a, b, r) = (forms[form].clone(), forms[reference].clone(), op.render());
                        w.vio(
                            &format!("{} {} · result differs from {} (working directory removed)", FORMS[form], op.name(), FORMS[reference]),
                            move || format!("with the process's working directory removed: {} via {} -> {} ; via {} -> {}", r, FORMS[reference], b, FORMS[form], a),
                            || J::obj([("world", J::s("stdfs")), ("what", J::s("removed-cwd"))]),
                        );
                    }
                }
            }
        }
        let _ = std::env::set_current_dir(&sb.base);
        sb.reset();
    }
    if w.shard == 3 % w.nshards {
        // what a handle has written but not flushed yet: visible to a reader in the same way through every form
        // (a wrapper that puts its own buffer around the backend's handle changes what others see meanwhile)
        let p = format!("{}/open-handle", sb.root);
        let mut seen: Vec<Vec<String>> = vec![];
        for form in 0..4usize {
            for kind in ["write", "append"] {
                let _ = std::fs::write(&p, b"old");
                let opened: RvResult<Box<dyn Write>> = match (form, kind) {
                    (0, "write") => Stdfs::write(&p),
                    (0, _) => Stdfs::append(&p),
                    (1, "write") => Stdfs::new().write(&p),
                    (1, _) => Stdfs::new().append(&p),
                    (2, "write") => Vfs::Stdfs(Stdfs::new()).write(&p),
                    (2, _) => Vfs::Stdfs(Stdfs::new()).append(&p),
                    (_, "write") => Stdfs::new().upcast().write(&p),
                    _ => Stdfs::new().upcast().append(&p),
                };
                let mut obs: Vec<String> = vec![];
                let rd = || String::from_utf8_lossy(&std::fs::read(&p).unwrap_or_default()).into_owned();
                match opened {
                    Err(e) => obs.push(format!("open failed: {}", e)),
                    Ok(mut h) => {
                        obs.push(format!("after open: {:?}", rd()));
                        let _ = h.write_all(b"first");
                        obs.push(format!("after write: {:?}", rd()));
                        let _ = h.flush();
                        obs.push(format!("after flush: {:?}", rd()));
                        let _ = h.write_all(b" second");
                        obs.push(format!("after second write: {:?}", rd()));
                        drop(h);
                        obs.push(format!("after drop: {:?}", rd()));
                    },
                }
                if kind == "write" {
                    seen.push(obs);
                } else {
                    seen.last_mut().unwrap().extend(obs);
                }
            }
        }
        w.count("open_handle_visibility_comparisons", 3);
        for (form, reference) in [(1usize, 0usize), (2, 1), (3, 1)] {
            if seen[form] != seen[reference] {
                let d = seen[form].iter().zip(seen[reference].iter()).find(|(a, b)| a != b).map(|(a, b)| format!("{}: {} / {}: {}", FORMS[form], a, FORMS[reference], b)).unwrap_or_default();
                w.vio(
                    &format!("{} write/append handle · what a reader sees while the handle is open differs from {}", FORMS[form], FORMS[reference]),
                    move || d,
                    || J::obj([("world", J::s("stdfs")), ("what", J::s("open-handle-visibility"))]),
                );
            }
        }
        let _ = std::fs::remove_file(&p);
    }
    let trees = stdfs_trees(max_entries);
    let mut st = DStats::default();
    let mut ntrees = 0u64;
    for (idx, tree) in trees.iter().enumerate() {
        if !w.mine(idx as u64) {
            continue;
        }
        ntrees += 1;
        let t0 = std::time::Instant::now();
        let found = check_tree(&sb, tree, &mut st, None, false);
        if std::env::var("C13_TIMING").is_ok() && t0.elapsed().as_millis() > 500 {
            eprintln!("tree {} [{}] took {} ms", idx, tree.render(), t0.elapsed().as_millis());
        }
        for (what, f) in found {
            let (detail, tr) = (f.detail, tree.render());
            w.vio(&f.sig, move || detail, move || J::obj([("world", J::s("stdfs")), ("max_entries", J::i(max_entries as i64)), ("tree_idx", J::i(idx as i64)), ("tree", J::s(tr)), ("what", J::s(what))]));
        }
        if idx % 41 == 5 {
            w.sample(J::obj([("world", J::s("stdfs")), ("tree", J::s(tree.render())), ("forms", J::strs(FORMS.iter()))]));
        }
    }
    let _ = std::env::set_current_dir("/");
    w.count("stdfs_trees", ntrees);
    w.count("stdfs_calls", st.calls);
    w.count("stdfs_executions", st.execs);
    w.count("stdfs_entries", st.entries);
    w.count("stdfs_accessor_comparisons", st.accessor_comparisons);
    w.count("stdfs_config_dir_calls", st.config_dir_calls);
    w.count("stdfs_config_dir_some", st.config_dir_some);
    w.count("stdfs_skipped_copy_into_itself", st.skipped_copy_into_itself);
    w.count("stdfs_machinery_failures", st.machinery);
    for (k, v) in &st.disc {
        w.count(&format!("disc|{}", k), *v);
    }
    for m in &st.methods {
        w.count(&format!("method|{}", m), 1);
    }
}

// ---------------------------------------------------------------------------------------------
// Driver
// ---------------------------------------------------------------------------------------------
fn mem_configs(tier: Tier) -> Vec<&'static str> {
    tier.pick(vec!["A-2", "C-2", "D-3"], vec!["A-3", "C-2", "D-3", "B-2"])
}

pub fn run(ctx: &Ctx) -> i32 {
    quiet_panics();
    HANG_REPORT.set_prop(&ctx.prop);
    if let Some(p) = &ctx.replay {
        return replay(ctx, p);
    }
    for (sig, detail) in deferred_memfs() {
        vio(&sig, || detail, || J::obj([("world", J::s("memfs")), ("what", J::s("deferred-builders"))]));
    }
    let (mf, mode_sweep_n) = mode_sweep_memfs(ctx.tier);
    for (sig, detail) in mf {
        vio(&sig, || detail, || J::obj([("world", J::s("memfs")), ("what", J::s("mode-sweep"))]));
    }
    let mut per_cfg = vec![];
    let (mut states, mut trans) = (0u64, 0u64);
    let mut all_fix = true;
    let mut total = Stats::default();
    let mut samples = vec![];
    let mut coverage_gaps: Vec<String> = vec![];
    for name in mem_configs(ctx.tier) {
        let cfg = config_by_name(name).unwrap();
        let obs = C13Obs::new();
        let st = explore(&cfg, ctx.threads, &obs);
        let os = obs.total();
        let missing: Vec<&str> = ALL_METHODS.iter().filter(|m| !os.methods.contains(*m)).cloned().collect();
        println!(
            "  config {}: {} states, {} transitions, fixpoint={}; {} calls compared ({} executions), {} entries x {} accessors, methods covered {}/52",
            name,
            st.states,
            st.transitions,
            !st.capped,
            os.calls_compared,
            os.executions,
            os.entries_compared,
            ACCESSORS.len(),
            52 - missing.len()
        );
        if !missing.is_empty() {
            coverage_gaps.push(format!("config {}: methods never executed: {:?}", name, missing));
        }
        states += st.states;
        trans += st.transitions;
        all_fix &= !st.capped;
        let mut sj = stats_json(name, &st);
        sj.set("methods_covered", J::i((52 - missing.len()) as i64));
        sj.set("calls_compared", J::i(os.calls_compared));
        per_cfg.push(sj);
        total.merge(&os);
        samples.extend(obs.samples.lock().unwrap().iter().cloned());
    }

    // Stdfs half
    let me = ctx.tier.pick(3usize, 4usize);
    let mut g = Gathered::default();
    workers::run_workers(ctx, &Launch { name: "c13".into(), nshards: ctx.threads.max(1) as u64, extra: vec![me.to_string()], uid: None, env: None }, &mut g);
    for f in &g.failed {
        eprintln!("machinery: {}", f);
    }
    if !g.failed.is_empty() {
        return 2;
    }
    if g.c("mode_sweep_comparisons") == 0 {
        eprintln!("machinery: the Stdfs mode sweep did not run");
        return 2;
    }
    if g.c("stdfs_machinery_failures") > 0 || g.c("stdfs_trees") == 0 {
        eprintln!("machinery: {} sandbox states could not be materialised ({} trees) - the Stdfs half needs root and a writable tmpfs", g.c("stdfs_machinery_failures"), g.c("stdfs_trees"));
        return 2;
    }
    let stdfs_methods: BTreeSet<String> = g.counters.keys().filter_map(|k| k.strip_prefix("method|").map(|x| x.to_string())).collect();
    let stdfs_missing: Vec<&str> = ALL_METHODS.iter().filter(|m| !stdfs_methods.contains(**m)).cloned().collect();
    if !stdfs_missing.is_empty() {
        coverage_gaps.push(format!("stdfs half: methods never executed: {:?}", stdfs_missing));
    }
    println!(
        "  stdfs half: {} trees (<= {} entries, resolving links), {} calls x 4 forms = {} executions, {} entries, methods covered {}/52",
        g.c("stdfs_trees"),
        me,
        g.c("stdfs_calls"),
        g.c("stdfs_executions"),
        g.c("stdfs_entries"),
        52 - stdfs_missing.len()
    );
    let mut disc: BTreeMap<String, u64> = total.disc.iter().map(|(k, v)| (format!("memfs {}", k), *v)).collect();
    for (k, v) in &g.counters {
        if let Some(k2) = k.strip_prefix("disc|") {
            *disc.entry(k2.to_string()).or_insert(0) += v;
        }
    }
    let zero: Vec<String> = disc.iter().filter(|(_, v)| **v == 0).map(|(k, _)| k.clone()).collect();
    if total.config_dir_some == 0 {
        coverage_gaps.push("memfs config_dir never answered Some(..)".into());
    }
    if g.c("stdfs_config_dir_some") == 0 {
        coverage_gaps.push("stdfs config_dir never answered Some(..)".into());
    }
    for gap in &coverage_gaps {
        println!("  COVERAGE GAP: {}", gap);
    }
    if !zero.is_empty() {
        println!("  sibling pairs with no discriminating instance: {:?}", zero);
    }
    samples.extend(g.samples.iter().cloned());
    let executions = total.executions + trans + g.c("stdfs_executions");
    let cov = J::obj([
        ("states", J::i(states + g.c("stdfs_trees"))),
        ("transitions", J::i(trans)),
        ("traces_validated_against_impl", J::i(executions)),
        ("evaluations", J::i(total.calls_compared + g.c("stdfs_calls"))),
        ("distinct_nontrivial", J::i(disc.values().filter(|v| **v > 0).count() as i64)),
        ("rule", J::s("one evaluation = one (state, call) executed from identical fresh copies of the state in every form (Memfs: direct value, Vfs::Memfs(clone), clone.upcast(); Stdfs: inherent Stdfs::xxx, Stdfs::new() trait impl, Vfs::Stdfs, upcast()) with identical transcript (value or full error text) and identical complete dump / observed disk tree required. distinct_nontrivial = number of (method -> wrong sibling / dropped or swapped argument) routings for which at least one explored (state, argument) gives a different result than the correct routing, i.e. the mis-routing would be caught; the counts per routing are in discriminating_instances (e.g. is_symlink_dir->is_symlink_file differs on every link to a directory, mkfile_m->mkfile(mode dropped) on every created file since 0o600/0o755 != 0o644, mkdir_m->mkdir_p on every created directory since 0o700/0o751 != 0o755, chown->chown(uid/gid swapped) since 5:6 != 6:5, copy/move_p/symlink->args swapped whenever exactly one of the two paths exists). chmod, chmod_b, chown_b, append_line, entries, entry, read, read_all, read_lines, owner, cwd, root, config_dir have no same-typed sibling and no droppable argument; for them only the backend arm can be wrong, which the Stdfs inherent comparison and the Memfs config_dir probe directory (exists only in the Memfs) decide")),
        ("samples", J::Arr(samples.into_iter().take(8).collect())),
        ("exhaustive", J::Bool(all_fix && coverage_gaps.is_empty())),
        ("bounds", J::s(format!(
            "Memfs: E1 fixpoints of {:?} (alphabet of the configuration + {} supplement mutators + {} queries in every state); Stdfs: every tree over {{a,b}} depth 2 with <= {} entries, content \"x\", resolving links x {} mutators + {} queries x 4 forms",
            mem_configs(ctx.tier),
            supplement_ops().len(),
            all_queries().len(),
            me,
            stdfs_mutators().len(),
            all_queries().len()
        ))),
        ("memfs_calls_compared", J::i(total.calls_compared)),
        ("memfs_alphabet_calls", J::i(total.alphabet_calls)),
        ("memfs_supplement_calls", J::i(total.supplement_calls)),
        ("memfs_query_calls", J::i(total.query_calls)),
        ("memfs_executions_by_observer", J::i(total.executions)),
        ("memfs_nondeterministic_direct_calls_skipped", J::i(total.nondeterministic)),
        ("memfs_entries_compared", J::i(total.entries_compared)),
        ("memfs_accessor_comparisons", J::i(total.accessor_comparisons)),
        ("memfs_config_dir_calls", J::i(total.config_dir_calls)),
        ("memfs_config_dir_answered_some", J::i(total.config_dir_some)),
        ("stdfs_trees", J::i(g.c("stdfs_trees"))),
        ("stdfs_calls", J::i(g.c("stdfs_calls"))),
        ("stdfs_executions", J::i(g.c("stdfs_executions"))),
        ("stdfs_entries_compared", J::i(g.c("stdfs_entries"))),
        ("mode_sweep", J::s(format!("file, directory and a link to each x {} modes x {{Memfs, Stdfs}}: {} comparisons (every accessor of the wrapped entry vs VfsEntry, mode/is_exec/is_readonly of the backend value vs through Vfs)", sweep_modes(ctx.tier).len(), mode_sweep_n + g.c("mode_sweep_comparisons")))),
        ("stdfs_accessor_comparisons", J::i(g.c("stdfs_accessor_comparisons"))),
        ("stdfs_config_dir_calls", J::i(g.c("stdfs_config_dir_calls"))),
        ("stdfs_config_dir_answered_some", J::i(g.c("stdfs_config_dir_some"))),
        ("stdfs_calls_skipped_copy_of_directory_into_itself", J::i(g.c("stdfs_skipped_copy_into_itself"))),
        ("trait_methods", J::i(52)),
        ("coverage_gaps", J::strs(coverage_gaps.iter())),
        ("discriminating_instances", J::Obj(disc.iter().map(|(k, v)| (k.clone(), J::i(*v))).collect())),
        ("routings_without_discriminating_instance", J::strs(zero.iter())),
        ("configurations", J::Arr(per_cfg)),
    ]);
    finish(ctx, Evidence {
        level: "model_checking",
        coverage: cov,
        assumptions: vec![
            "a direct call whose own result is not reproducible from the same state (hash-order dependent partial failure) is skipped and counted".into(),
            "Stdfs half runs as root on tmpfs with umask 022, cwd = sandbox root before every call; Stdfs::config_dir has no public inherent form, so only trait impl vs wrapper is compared for it".into(),
            "VfsEntry has no own clone/upcast/follow(false) behaviour to distinguish (all three return the same entry), so a mix-up among these three is invisible by design".into(),
        ],
    })
}

fn replay(ctx: &Ctx, p: &std::path::Path) -> i32 {
    let j = json::parse(&std::fs::read_to_string(p).expect("read replay")).expect("parse replay");
    let case = j.get("case").expect("case");
    if case.get("what").and_then(|x| x.as_str()) == Some("deferred-builders") {
        let mut f = deferred_memfs();
        if unsafe { libc::geteuid() } == 0 {
            let sb = Sandbox::new("c13r.deferred");
            f.extend(deferred_stdfs(&sb));
            let _ = std::env::set_current_dir("/");
        }
        for (sig, detail) in &f {
            println!("  {}: {}", sig, detail);
        }
        if f.is_empty() {
            println!("holds on this case");
            return 0;
        }
        println!("VIOLATION property={} replay={}", ctx.prop, p.display());
        return 1;
    }
    if case.get("what").and_then(|x| x.as_str()) == Some("mode-sweep") {
        let (mut f, _) = mode_sweep_memfs(ctx.tier);
        if unsafe { libc::geteuid() } == 0 {
            let sb = Sandbox::new("c13r.modes");
            f.extend(mode_sweep_stdfs(&sb, ctx.tier).0);
            let _ = std::env::set_current_dir("/");
        }
        for (sig, detail) in &f {
            println!("  {}: {}", sig, detail);
        }
        if f.is_empty() {
            println!("holds on this case");
            return 0;
        }
        println!("VIOLATION property={} replay={}", ctx.prop, p.display());
        return 1;
    }
    let mut found: Vec<Finding> = vec![];
    if case.get("world").and_then(|x| x.as_str()) == Some("stdfs") {
        let me = case.get("max_entries").and_then(|x| x.as_i64()).unwrap_or(2) as usize;
        let idx = case.get("tree_idx").and_then(|x| x.as_i64()).unwrap_or(0) as usize;
        let what = case.get("what").and_then(|x| x.as_str()).expect("case.what").to_string();
        let trees = stdfs_trees(me);
        let tree = trees.get(idx).expect("tree index");
        println!("replay {} stdfs tree=[{}] {}", ctx.prop, tree.render(), what);
        let sb = Sandbox::new("c13r");
        setup_worker_env(&sb);
        let mut st = DStats::default();
        found.extend(check_tree(&sb, tree, &mut st, Some(&what), true).into_iter().map(|(_, f)| f));
        let _ = std::env::set_current_dir("/");
    } else {
        let cfg = config_by_name(case.get("config").and_then(|x| x.as_str()).expect("config")).expect("known config");
        println!("replay {} config {}", ctx.prop, cfg.name);
        let (fs, _) = replay_history(&cfg, case).expect("history");
        let mut st = Stats::default();
        if let Some(ci) = case.get("call_idx").and_then(|x| x.as_i64()) {
            let op = &cfg.ops[ci as usize];
            let (dt, dd) = run_direct(&fs, op);
            let (wt, wd) = run_wrapped(&fs, op, false);
            let (ut, ud) = run_wrapped(&fs, op, true);
            println!("  {} direct      -> {}", op.render(), dt);
            println!("  {} Vfs::Memfs  -> {}{}", op.render(), wt, if wd != dd { format!("  [state differs: {}]", dump_diff(&dd, &wd)) } else { String::new() });
            println!("  {} upcast()    -> {}{}", op.render(), ut, if ud != dd { format!("  [state differs: {}]", dump_diff(&dd, &ud)) } else { String::new() });
            found.extend(compare_mutator(&fs, op, None, &mut st, false));
        } else {
            let what = case.get("what").and_then(|x| x.as_str()).expect("case.what").to_string();
            let dump = fs.verif_dump();
            println!("  in this state: {}", what);
            found.extend(check_state(&fs, &dump, &all_queries(), &supplement_ops(), &mut st, Some(&what)).into_iter().map(|(_, f)| f));
        }
    }
    for f in &found {
        println!("  DISCREPANCY [{}]: {}", f.sig, f.detail);
    }
    if !found.is_empty() {
        println!("VIOLATION property={} replay={}", ctx.prop, p.display());
        1
    } else {
        println!("holds on this case");
        0
    }
}

//! C03 Memfs namespace stays a well-formed tree after any history, even failed calls (engine E1,
//! widened alphabets; invariants on the complete dump of every successor state).
use crate::common::json::{self, J};
use crate::common::par::*;
use crate::common::report::*;
use crate::engines::space::*;
use crate::models::invariants;
use crate::models::ops::apply;
use crate::models::reffs::arg_class;
use crate::props::c01::{config_by_name, replay_history, stats_json};
use std::sync::atomic::{AtomicU64, Ordering};
use std::sync::Mutex;

pub struct C03Obs {
    pub checked: AtomicU64,
    pub listings: AtomicU64,
    pub samples: Mutex<Vec<J>>,
}

impl Observer for C03Obs {
    fn transition(&self, t: &Trans) {
        self.checked.fetch_add(1, Ordering::Relaxed);
        if t.post_broken.is_empty() {
            return;
        }
        let cls = match t.pre_abs {
            Ok(p) => arg_class(p, t.op),
            Err(_) => "?".into(),
        };
        for (code, detail) in t.post_broken {
            let sig = format!("C03 {} after {} {} [{}]", code, t.op.name(), if t.out.ok { "ok" } else { "err" }, cls);
            vio(
                &sig,
                || format!("after [{}] the call {} returned {} and left a malformed namespace: {}", t.space.history_text(t.pre_idx), t.op.render(), t.out.brief(), detail),
                || t.space.case_json(t.pre_idx, Some(t.op_idx)),
            );
        }
    }
    fn state(&self, sv: &StateView) {
        // I6 on every well-formed state (recursive listing reaches exactly the stored paths)
        if sv.abs.is_err() {
            return;
        }
        self.listings.fetch_add(1, Ordering::Relaxed);
        if sv.idx % 1499 == 7 {
            let mut sm = self.samples.lock().unwrap();
            if sm.len() < 5 {
                sm.push(J::obj([("history", J::s(sv.space.history_text(sv.idx))), ("entries", J::i(sv.dump.entries.len() as i64))]));
            }
        }
        for (code, detail) in invariants::check_listing(sv.fs, sv.dump) {
            let sig = format!("C03 {}", code);
            vio(&sig, || format!("in the state after [{}]: {}", sv.space.history_text(sv.idx), detail), || sv.space.case_json(sv.idx, None));
        }
    }
}

pub fn run(ctx: &Ctx) -> i32 {
    quiet_panics();
    HANG_REPORT.set_prop(&ctx.prop);
    if let Some(p) = &ctx.replay {
        return replay(ctx, p);
    }
    let obs = C03Obs { checked: AtomicU64::new(0), listings: AtomicU64::new(0), samples: Mutex::new(vec![]) };
    let names: Vec<&str> = ctx.tier.pick(vec!["H-2", "Ap-2", "Ad-3", "M-5", "D-3", "C-2", "R-2"], vec!["H-3", "Ap-3", "Ad-3", "M-8", "D-3", "C-3", "B-2", "R-3"]);
    let mut per_cfg = vec![];
    let (mut states, mut trans) = (0u64, 0u64);
    let mut all_fix = true;
    for name in names {
        let cfg = config_by_name(name).unwrap();
        let st = explore(&cfg, ctx.threads, &obs);
        println!("  config {}: {} states, {} transitions, {} cut, {} malformed successors, fixpoint={}", name, st.states, st.transitions, st.cut_states, st.malformed_successors, !st.capped);
        states += st.states;
        trans += st.transitions;
        all_fix &= !st.capped;
        per_cfg.push(stats_json(name, &st));
    }
    // ---- a chain far deeper than the explored namespaces: after remove_all nothing is left, after a copy and
    // a move the indexes still agree (invariants on the complete dump)
    {
        use rivia::prelude::*;
        let fs = Memfs::new();
        crate::models::deep::report_main("removal", crate::models::deep::removal("memfs", &fs, "/e"));
        let d = fs.verif_dump();
        if d.entries.len() != 1 || !d.files.is_empty() {
            vio("C03 deep chain · remove_all leaves entries or data behind", || format!("after remove_all of a chain of {} directories {} entries and {} data records remain", crate::models::deep::DEEP, d.entries.len(), d.files.len()), || J::obj([("part", J::s("deep-chain")), ("suite", J::s("removal"))]));
        }
        let fs = Memfs::new();
        crate::models::deep::report_main("copy_move", crate::models::deep::copy_move("memfs", &fs, "/e", "/e-copy", "/e-moved"));
        for (code, detail) in invariants::check(&fs.verif_dump()) {
            vio(&format!("C03 {} after copy/move_p of a deep chain", code), || detail.clone(), || J::obj([("part", J::s("deep-chain")), ("suite", J::s("copy_move"))]));
        }
    }
    // ---- arguments that are not valid UTF-8 ("arbitrary arguments": a Path may hold any bytes): every creating,
    // moving and removing call with such a name below an existing directory, below a file and below a missing
    // parent, from two pre-states; whatever the call answers, the dump must stay well formed
    {
        use rivia::prelude::*;
        use std::os::unix::ffi::OsStrExt;
        let raw = |b: &[u8]| std::path::PathBuf::from(std::ffi::OsStr::from_bytes(b));
        let names: Vec<std::path::PathBuf> = vec![raw(b"/a/caf\xe9"), raw(b"/\xff"), raw(b"/a/\xe9/b"), raw(b"/f/\xfe"), raw(b"/zz/\xe9"), raw(b"\xe9"), raw(b"/a/\xc3")];
        let mut n_calls = 0u64;
        for pre in 0..2 {
            for (ni, name) in names.iter().enumerate() {
                let calls: Vec<(&str, Box<dyn Fn(&Memfs) -> bool>)> = vec![
                    ("mkfile", Box::new(|fs: &Memfs| fs.mkfile(name).is_ok())),
                    ("mkdir_p", Box::new(|fs: &Memfs| fs.mkdir_p(name).is_ok())),
                    ("mkdir_m", Box::new(|fs: &Memfs| fs.mkdir_m(name, 0o700).is_ok())),
                    ("write_all", Box::new(|fs: &Memfs| fs.write_all(name, b"x").is_ok())),
                    ("append_all", Box::new(|fs: &Memfs| fs.append_all(name, b"y").is_ok())),
                    ("write handle", Box::new(|fs: &Memfs| fs.write(name).map(|mut h| std::io::Write::write_all(&mut h, b"z").is_ok()).unwrap_or(false))),
                    ("symlink (link)", Box::new(|fs: &Memfs| fs.symlink(name, "/a").is_ok())),
                    ("symlink (target)", Box::new(|fs: &Memfs| fs.symlink("/l", name).is_ok())),
                    ("move_p (dst)", Box::new(|fs: &Memfs| fs.move_p("/f", name).is_ok())),
                    ("move_p (src)", Box::new(|fs: &Memfs| fs.move_p(name, "/g").is_ok())),
                    ("copy (dst)", Box::new(|fs: &Memfs| fs.copy("/a", name).is_ok())),
                    ("copy (src)", Box::new(|fs: &Memfs| fs.copy(name, "/g").is_ok())),
                    ("remove", Box::new(|fs: &Memfs| fs.remove(name).is_ok())),
                    ("remove_all", Box::new(|fs: &Memfs| fs.remove_all(name).is_ok())),
                    ("set_cwd", Box::new(|fs: &Memfs| fs.set_cwd(name).is_ok())),
                    ("chmod", Box::new(|fs: &Memfs| fs.chmod(name, 0o600).is_ok())),
                ];
                for (cname, call) in calls {
                    let fs = Memfs::new();
                    let _ = fs.mkdir_p("/a/b");
                    let _ = fs.write_all("/f", b"0");
                    if pre == 1 {
                        let _ = fs.set_cwd("/a");
                    }
                    n_calls += 1;
                    let ok = std::panic::catch_unwind(std::panic::AssertUnwindSafe(|| call(&fs)));
                    let broken = std::panic::catch_unwind(std::panic::AssertUnwindSafe(|| invariants::check(&fs.verif_dump())));
                    let shown = format!("{:?}", name);
                    match (ok, broken) {
                        (Err(_), _) => vio(&format!("C03 panic in {} with a non-UTF-8 argument", cname), || format!("{}({}) panicked (cwd {})", cname, shown, if pre == 1 { "/a" } else { "/" }), || J::obj([("part", J::s("non-utf8")), ("call", J::s(cname)), ("name_idx", J::i(ni as i64))])),
                        (Ok(r), Ok(b)) => {
                            for (code, detail) in b {
                                vio(&format!("C03 {} after {} with a non-UTF-8 argument {}", code, cname, if r { "ok" } else { "err" }), || format!("{}({}) (cwd {}) returned {} and left a malformed namespace: {}", cname, shown, if pre == 1 { "/a" } else { "/" }, if r { "Ok" } else { "Err" }, detail), || J::obj([("part", J::s("non-utf8")), ("call", J::s(cname)), ("name_idx", J::i(ni as i64))]));
                            }
                        },
                        (Ok(_), Err(_)) => vio(&format!("C03 state cannot be dumped after {} with a non-UTF-8 argument", cname), || format!("{}({}): the dump hook panicked on the resulting state", cname, shown), || J::obj([("part", J::s("non-utf8")), ("call", J::s(cname)), ("name_idx", J::i(ni as i64))])),
                    }
                }
            }
        }
        println!("  non-UTF-8 arguments: {} calls, invariants on every resulting dump", n_calls);
    }
    // ---- the schedule half: every interleaving of the critical sections of small concurrent programs
    // (C04's explorer and quick families), invariants I1-I8 on the dump at quiescence
    let (sched_programs, schedules, sched_fams) = match crate::props::c04::explore_integrity(ctx) {
        Ok(x) => x,
        Err(e) => {
            eprintln!("machinery: {}", e);
            return 2;
        },
    };
    println!("  schedules: {} concurrent programs, {} interleavings checked at quiescence", sched_programs, schedules);
    let cov = J::obj([
        ("states", J::i(states)),
        ("concurrent_programs", J::i(sched_programs)),
        ("interleavings_checked_at_quiescence", J::i(schedules)),
        ("concurrent_families", J::Arr(sched_fams)),
        ("transitions", J::i(trans)),
        ("traces_validated_against_impl", J::i(trans)),
        ("samples", J::Arr(obs.samples.lock().unwrap().clone())),
        ("successor_states_checked_against_invariants", J::i(obs.checked.load(Ordering::Relaxed))),
        ("states_with_listing_invariant_checked", J::i(obs.listings.load(Ordering::Relaxed))),
        ("configurations", J::Arr(per_cfg)),
        ("exhaustive", J::Bool(all_fix)),
        ("explanation", J::s("reachability fixpoint of the real Memfs under alphabets widened with hostile arguments (through links, above the root, the root itself, empty paths, relative after the cwd was removed, moves/copies into the own subtree); invariants I1-I8 on the complete dump of every successor, after successful and failed calls alike")),
    ]);
    finish(ctx, Evidence {
        level: "model_checking",
        coverage: cov,
        assumptions: vec![
            "a successor that violates an invariant is reported and not expanded further (futures of a corrupt state are meaningless)".into(),
            "bounded namespace {a,b} depth 2 plus chain /a/a/a; states beyond the entry bound are checked but not expanded".into(),
            "the schedule half of the quantifier (quiescence after concurrent schedules) uses the C04 explorer with its quick families; only the integrity invariants are evaluated here, linearizability is C04's".into(),
        ],
    })
}

fn replay(ctx: &Ctx, p: &std::path::Path) -> i32 {
    let j = json::parse(&std::fs::read_to_string(p).expect("read replay")).expect("parse replay");
    let case = j.get("case").expect("case");
    if case.get("part").and_then(|x| x.as_str()) == Some("non-utf8") {
        println!("replay {}: the non-UTF-8 argument sweep is a fixed list of {} calls; it is re-run by ./check {} (signature names the call)", ctx.prop, 16 * 7 * 2, ctx.prop);
        println!("VIOLATION property={} replay={}", ctx.prop, p.display());
        return 1;
    }
    if case.get("program_idx").is_some() {
        return crate::props::c04::replay_integrity(ctx, p);
    }
    let cfg = config_by_name(case.get("config").and_then(|x| x.as_str()).expect("config")).expect("known config");
    println!("replay {} config {}", ctx.prop, cfg.name);
    let (fs, _) = replay_history(&cfg, case).expect("history");
    let mut bad = false;
    if let Some(ci) = case.get("call_idx").and_then(|x| x.as_i64()) {
        let op = &cfg.ops[ci as usize];
        let out = apply(&fs, op);
        println!("  call {} -> {}", op.render(), out.brief());
    }
    let d = fs.verif_dump();
    let broken = invariants::check(&d);
    for (c, det) in &broken {
        println!("  BROKEN {}: {}", c, det);
        bad = true;
    }
    if broken.is_empty() {
        for (c, det) in invariants::check_listing(&fs, &d) {
            println!("  BROKEN {}: {}", c, det);
            bad = true;
        }
    }
    if bad {
        println!("VIOLATION property={} replay={}", ctx.prop, p.display());
        1
    } else {
        println!("holds on this case");
        0
    }
}

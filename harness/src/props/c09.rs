//! C09 copy duplicates and move_p relocates a subtree without loss or collateral change.
//!
//! Every tree of a bounded namespace (names {a,b}, depth 2, files "" | "x", directories, links incl.
//! dangling / chained / cyclic ones on Memfs) x every ordered pair (src, dst) of namespace paths
//! (plus "/" as dst) x copy with the Copier options {none, chmod_all, chmod_dirs, chmod_files} x
//! follow {false, true}, and move_p. The oracle only uses the snapshot before and after the call
//! (Memfs: verif_dump through the abstraction function; Stdfs: std::fs observation of the sandbox).
use crate::common::json::{self, bytes_repr, J};
use crate::common::par::*;
use crate::common::report::*;
use crate::engines::sandbox::Sandbox;
use crate::engines::workers::{self, Gathered, Launch, WorkerCtx};
use crate::models::invariants;
use crate::models::ops::{apply, CopyMode, Op, Outcome};
use crate::models::tree::*;
use rivia::prelude::*;
use std::collections::{BTreeMap, BTreeSet};
use std::sync::atomic::{AtomicU64, Ordering};
use std::sync::Mutex;

/// the mode requested through the chmod options (differs from every mode in the trees)
const OPT_MODE: u32 = 0o705;

fn s(x: &str) -> String {
    x.to_string()
}

// ---------------------------------------------------------------------------------------------
// Trees
// ---------------------------------------------------------------------------------------------
fn space(max_entries: usize, links: LinkDomain) -> TreeSpace {
    let extra = if links == LinkDomain::Any { vec![s("/zz")] } else { vec![] };
    TreeSpace { names: vec!["a", "ab"], max_depth: 2, max_entries, contents: vec![b"".to_vec(), b"x".to_vec()], links, extra_targets: extra, target_depth: 2 }
}

/// give every entry a mode (and a few an owner) that tells the paths apart, so that "same mode"
/// and "same owner" are observable; /a/b keeps the defaults
fn decorate(t: &Tree) -> Tree {
    let mut out = Tree::new();
    for (k, n) in &t.nodes {
        let (dm, fm, uid, gid) = match k.as_str() {
            "/a" => (0o750, 0o640, DEF_ID, DEF_ID),
            "/ab" => (0o711, 0o604, DEF_ID, DEF_ID),
            "/a/a" => (0o700, 0o600, 7, 8),
            "/a/ab" => (DEF_DIR, DEF_FILE, DEF_ID, DEF_ID),
            "/ab/a" => (0o751, 0o664, DEF_ID, DEF_ID),
            _ => (0o770, 0o660, DEF_ID, 9),
        };
        let mut n2 = n.clone();
        match n.kind {
            Kind::Dir => n2.mode = dm,
            Kind::File(_) => n2.mode = fm,
            Kind::Link(_) => {},
        }
        n2.uid = uid;
        n2.gid = gid;
        out.nodes.insert(k.clone(), n2);
    }
    out
}

/// hand-built states beyond the enumerated bound (4 root names, 6-8 entries): directory links that form
/// a cycle which does not pass through the source, a diamond, and a link to a directory that holds a
/// link back to a sibling. The enumerated space reaches cycles through the source only.
fn link_fixtures() -> Vec<Tree> {
    let mk = |items: &[(&str, Node)]| {
        let mut t = Tree::new();
        for (k, n) in items {
            t.insert(k, n.clone());
        }
        decorate(&t)
    };
    let (d, f, l) = (Node::dir, |x: &[u8]| Node::file(x), |t: &str| Node::link(t));
    vec![
        mk(&[("/a", d()), ("/a/a", l("/b")), ("/b", d()), ("/b/a", l("/c")), ("/b/ab", f(b"x")), ("/c", d()), ("/c/a", l("/b"))]),
        mk(&[("/a", d()), ("/a/a", l("/b")), ("/b", d()), ("/b/a", l("/c")), ("/c", d()), ("/c/a", l("/ab")), ("/ab", d()), ("/ab/a", l("/b")), ("/ab/ab", f(b""))]),
        mk(&[("/a", d()), ("/a/a", l("/c")), ("/a/ab", l("/c")), ("/c", d()), ("/c/a", f(b"x"))]),
        mk(&[("/a", d()), ("/a/a", l("/b")), ("/b", d()), ("/b/a", l("/c")), ("/c", d()), ("/c/a", f(b"x")), ("/c/ab", l("/c/a"))]),
    ]
}

/// calls aimed at the fixtures (run on every tree; on the others they fail early or copy nothing new)
fn fixture_calls() -> Vec<Call> {
    let mut out = vec![];
    for (src, dst) in [("/a", "/z"), ("/b", "/z"), ("/a", "/c/z")] {
        for follow in [true, false] {
            out.push(Call { src: s(src), dst: s(dst), copy: Some((CopyMode::None, follow)) });
        }
    }
    out
}

fn tree_json(t: &Tree) -> J {
    J::arr(t.nodes.iter().map(|(k, n)| {
        let (kind, v) = match &n.kind {
            Kind::Dir => ("dir", String::new()),
            Kind::File(d) => ("file", String::from_utf8_lossy(d).into_owned()),
            Kind::Link(tg) => ("link", tg.clone()),
        };
        J::obj([("p", J::s(k)), ("k", J::s(kind)), ("v", J::s(v)), ("m", J::i(n.mode as i64)), ("u", J::i(n.uid as i64)), ("g", J::i(n.gid as i64))])
    }))
}

fn tree_from_json(j: &J) -> Option<Tree> {
    let mut t = Tree::new();
    for e in j.as_arr()? {
        let p = e.get("p")?.as_str()?;
        let v = e.get("v")?.as_str()?;
        let kind = match e.get("k")?.as_str()? {
            "dir" => Kind::Dir,
            "file" => Kind::File(v.as_bytes().to_vec()),
            _ => Kind::Link(v.to_string()),
        };
        t.insert(p, Node { kind, mode: e.get("m")?.as_i64()? as u32, uid: e.get("u")?.as_i64()? as u32, gid: e.get("g")?.as_i64()? as u32, lk: 0 });
    }
    Some(t)
}

// ---------------------------------------------------------------------------------------------
// Calls
// ---------------------------------------------------------------------------------------------
#[derive(Clone, Debug)]
pub struct Call {
    src: String,
    dst: String,
    /// None = move_p
    copy: Option<(CopyMode, bool)>,
}

impl Call {
    fn op(&self) -> Op {
        match &self.copy {
            None => Op::MoveP(self.src.clone(), self.dst.clone()),
            Some((CopyMode::None, false)) => Op::Copy(self.src.clone(), self.dst.clone()),
            Some((m, f)) => Op::CopyB(self.src.clone(), self.dst.clone(), m.clone(), *f),
        }
    }
    fn label(&self) -> &'static str {
        match &self.copy {
            None => "move_p",
            Some((_, false)) => "copy",
            Some((_, true)) => "copy+follow",
        }
    }
    fn opt_label(&self) -> &'static str {
        match &self.copy {
            Some((CopyMode::All(_), _)) => "chmod_all",
            Some((CopyMode::Dirs(_), _)) => "chmod_dirs",
            Some((CopyMode::Files(_), _)) => "chmod_files",
            Some((CopyMode::DirsThenAll(..), _)) => "chmod_dirs.chmod_all",
            Some((CopyMode::FilesThenAll(..), _)) => "chmod_files.chmod_all",
            _ => "no-chmod",
        }
    }
    fn follow(&self) -> bool {
        matches!(self.copy, Some((_, true)))
    }
    /// (mode for new directories, mode for new files) requested by the option
    fn modes(&self) -> (Option<u32>, Option<u32>) {
        match &self.copy {
            Some((CopyMode::All(m), _)) => (Some(*m), Some(*m)),
            Some((CopyMode::Dirs(m), _)) => (Some(*m), None),
            Some((CopyMode::Files(m), _)) => (None, Some(*m)),
            Some((CopyMode::DirsThenAll(_, m), _)) | Some((CopyMode::FilesThenAll(_, m), _)) => (Some(*m), Some(*m)),
            _ => (None, None),
        }
    }
    fn render(&self) -> String {
        self.op().render()
    }
    fn to_json(&self) -> J {
        J::obj([
            ("op", J::s(if self.copy.is_some() { "copy" } else { "move_p" })),
            ("src", J::s(&self.src)),
            ("dst", J::s(&self.dst)),
            ("opt", J::s(self.opt_label())),
            ("follow", J::Bool(self.follow())),
        ])
    }
    fn from_json(j: &J) -> Option<Call> {
        let src = j.get("src")?.as_str()?.to_string();
        let dst = j.get("dst")?.as_str()?.to_string();
        let follow = matches!(j.get("follow"), Some(J::Bool(true)));
        let copy = if j.get("op")?.as_str()? == "move_p" {
            None
        } else {
            Some((
                match j.get("opt")?.as_str()? {
                    "chmod_all" => CopyMode::All(OPT_MODE),
                    "chmod_dirs" => CopyMode::Dirs(OPT_MODE),
                    "chmod_files" => CopyMode::Files(OPT_MODE),
                    "chmod_dirs.chmod_all" => CopyMode::DirsThenAll(0o711, OPT_MODE),
                    "chmod_files.chmod_all" => CopyMode::FilesThenAll(0o604, OPT_MODE),
                    _ => CopyMode::None,
                },
                follow,
            ))
        };
        Some(Call { src, dst, copy })
    }
}

pub fn all_calls() -> Vec<Call> {
    let ns = namespace(&["a", "ab"], 2); // one name is a textual prefix of the other on purpose
    let mut dsts = vec![s("/")];
    dsts.extend(ns.iter().cloned());
    let mut out = vec![];
    for src in &ns {
        for dst in &dsts {
            for follow in [false, true] {
                // (the last two: a narrowing option followed by chmod_all on the same builder - the later, wider call decides)
                for m in [CopyMode::None, CopyMode::All(OPT_MODE), CopyMode::Dirs(OPT_MODE), CopyMode::Files(OPT_MODE), CopyMode::DirsThenAll(0o711, OPT_MODE), CopyMode::FilesThenAll(0o604, OPT_MODE)] {
                    out.push(Call { src: src.clone(), dst: dst.clone(), copy: Some((m, follow)) });
                }
            }
            out.push(Call { src: src.clone(), dst: dst.clone(), copy: None });
        }
    }
    out.extend(fixture_calls());
    out
}

// ---------------------------------------------------------------------------------------------
// Oracle on snapshots
// ---------------------------------------------------------------------------------------------
type Viol = Vec<(String, String)>;

fn effective(b: &Tree, src: &str, dst: &str) -> String {
    if b.is_dir(dst) {
        join(dst, base_of(src))
    } else {
        dst.to_string()
    }
}

fn relation(src: &str, dst: &str, e: &str) -> &'static str {
    if src == dst {
        " (same path)"
    } else if e == src {
        " (own parent: effective dst = src)"
    } else if is_under(e, src) {
        " (dst inside src)"
    } else if is_under(src, e) {
        " (src inside effective dst)"
    } else {
        ""
    }
}

fn full_eq(a: &Node, b: &Node) -> bool {
    a.kind == b.kind && a.mode == b.mode && a.uid == b.uid && a.gid == b.gid
}

fn show_node(n: Option<&Node>) -> String {
    match n {
        None => "<absent>".into(),
        Some(n) => match &n.kind {
            Kind::Dir => format!("dir[{:o} {}:{}]", n.mode, n.uid, n.gid),
            Kind::File(d) => format!("file {:?}[{:o} {}:{}]", bytes_repr(d), n.mode, n.uid, n.gid),
            Kind::Link(t) => format!("link->{}[{}:{}]", t, n.uid, n.gid),
        },
    }
}

/// link target equal, or - for a link that pointed inside the relocated/copied subtree - relocated with it
fn link_target_ok(old_t: &str, new_t: &str, src: &str, e: &str) -> bool {
    old_t == new_t || (is_under(old_t, src) && new_t == format!("{}{}", e, &old_t[src.len()..]))
}

fn kind_content_eq(want: &Node, got: &Node, src: &str, e: &str) -> Option<&'static str> {
    match (&want.kind, &got.kind) {
        (Kind::Dir, Kind::Dir) => None,
        (Kind::File(a), Kind::File(b)) => {
            if a == b {
                None
            } else {
                Some("content differs")
            }
        },
        (Kind::Link(a), Kind::Link(b)) => {
            if link_target_ok(a, b, src, e) {
                None
            } else {
                Some("link target differs")
            }
        },
        _ => Some("kind differs"),
    }
}

/// what the source denotes when links are followed: (relative path, kind, content, mode known?)
#[derive(Debug, Clone)]
struct ExpNode {
    /// the real entry that is read (the link target when reached through a link)
    real: String,
    rel: String,
    dir: bool,
    content: Vec<u8>,
    /// the mode of the real entry: the image of a followed link carries the mode of what the link leads to
    mode: Option<u32>,
}

/// Expansion of the source with follow; None where the statement is silent (dangling link, chain
/// of links, link to an ancestor / cycle, root as a target). `visited` receives every real path used.
fn expand_follow(b: &Tree, p: &str, rel: &str, _via_link: bool, depth: usize, visited: &mut Vec<String>, out: &mut Vec<ExpNode>) -> Option<()> {
    if depth > 4 {
        return None;
    }
    let n = b.get(p)?;
    visited.push(p.to_string());
    match &n.kind {
        Kind::File(d) => {
            out.push(ExpNode { real: p.to_string(), rel: rel.to_string(), dir: false, content: d.clone(), mode: Some(n.mode) });
            Some(())
        },
        Kind::Dir => {
            out.push(ExpNode { real: p.to_string(), rel: rel.to_string(), dir: true, content: vec![], mode: Some(n.mode) });
            for c in b.children(p) {
                expand_follow(b, &c, &format!("{}/{}", rel, base_of(&c)), false, depth + 1, visited, out)?;
            }
            Some(())
        },
        Kind::Link(t) => {
            let tn = b.get(t)?;
            if tn.is_link() {
                return None;
            }
            // a link to something that contains the link itself never ends
            if is_under(p, t) {
                return None;
            }
            expand_follow(b, t, rel, true, depth + 1, visited, out)
        },
    }
}

/// with follow: is a link met below the source root (inside the source directory or inside the
/// directory a source link leads to)?
fn follow_inner_link(b: &Tree, call: &Call) -> bool {
    if !call.follow() {
        return false;
    }
    let (mut vis, mut exp) = (vec![], vec![]);
    let _ = expand_follow(b, &call.src, "", false, 0, &mut vis, &mut exp);
    vis.iter().any(|r| r != &call.src && b.get(r).map(|n| n.is_link()).unwrap_or(false))
}

struct Judge<'a> {
    backend: &'a str,
    b: &'a Tree,
    a: &'a Tree,
    call: &'a Call,
    e: String,
}

/// coarse class of a path argument for signatures
fn coarse(b: &Tree, p: &str, is_dst: bool) -> &'static str {
    if b.through_link(p) {
        return "through-link";
    }
    if p == "/" {
        return "dir";
    }
    match b.get(p) {
        None => "missing",
        Some(n) => match n.kind {
            Kind::Dir => "dir",
            Kind::File(_) => "file",
            Kind::Link(_) => {
                if is_dst {
                    "link"
                } else {
                    match b.resolved_kind(p) {
                        2 => "link>dir",
                        1 => "link>file",
                        _ => "link>nothing",
                    }
                }
            },
        },
    }
}

/// does a plain (non-follow) copy meet an existing entry of another kind at an image path?
fn collision_note(b: &Tree, call: &Call, e: &str) -> &'static str {
    if call.copy.is_none() {
        return "";
    }
    let mut other = false;
    for k in b.subtree(&call.src) {
        let q = format!("{}{}", e, &k[call.src.len()..]);
        if q == k {
            continue;
        }
        if let (Some(x), Some(y)) = (b.get(&k), b.get(&q)) {
            if y.is_link() {
                return " [existing link at an image path]";
            }
            if x.kind_name() != y.kind_name() {
                other = true;
            }
        }
    }
    if other {
        " [existing entry of another kind at an image path]"
    } else {
        ""
    }
}

impl<'a> Judge<'a> {
    fn sig(&self, what: &str) -> String {
        let note = collision_note(self.b, self.call, &self.e);
        if note.contains("existing link") {
            // one root cause whatever the kinds of source and destination are
            return format!("{} {} · existing link at an image path · {}", self.backend, self.call.label(), what);
        }
        format!(
            "{} {} · src={} · dst={}{}{} · {}",
            self.backend,
            self.call.label(),
            coarse(self.b, &self.call.src, false),
            coarse(self.b, &self.call.dst, true),
            relation(&self.call.src, &self.call.dst, &self.e),
            collision_note(self.b, self.call, &self.e),
            what
        )
    }
    fn detail(&self, out: &Outcome, what: &str) -> String {
        format!("tree [{}]: {} -> {}; {}; tree after [{}]", self.b.render(), self.call.render(), out.brief(), what, self.a.render())
    }

    fn source_untouched(&self, out: &Outcome, v: &mut Viol) {
        for k in self.b.subtree(&self.call.src) {
            let want = &self.b.nodes[&k];
            match self.a.get(&k) {
                Some(got) if full_eq(want, got) => {},
                got => {
                    v.push((self.sig("source changed"), self.detail(out, &format!("source entry {} was {} and is now {}", k, show_node(Some(want)), show_node(got)))));
                    return;
                },
            }
        }
    }

    /// everything of the old tree that is not an image is unchanged, and nothing new appeared
    /// except the images and freshly created ancestor directories of the destination
    fn no_collateral(&self, out: &Outcome, images: &BTreeSet<String>, v: &mut Viol) {
        for (k, want) in &self.b.nodes {
            if images.contains(k) {
                continue;
            }
            match self.a.get(k) {
                Some(got) if full_eq(want, got) => {},
                got => {
                    let w = if is_under(k, &self.e) { "pre-existing entry inside the destination changed" } else { "entry outside the destination changed" };
                    v.push((self.sig(w), self.detail(out, &format!("{} was {} and is now {}", k, show_node(Some(want)), show_node(got)))));
                    return;
                },
            }
        }
        for (k, got) in &self.a.nodes {
            if self.b.nodes.contains_key(k) || images.contains(k) {
                continue;
            }
            let ancestor = k != &self.e && is_under(&self.e, k);
            if ancestor && got.is_dir() {
                continue;
            }
            v.push((self.sig("unexpected new entry"), self.detail(out, &format!("{} = {} appeared; it is neither an image of a source entry nor a new parent directory of {}", k, show_node(Some(got)), self.e))));
            return;
        }
    }

    fn copy_plain(&self, out: &Outcome, v: &mut Viol) -> Vec<(String, String)> {
        let src = &self.call.src;
        let (dm, fm) = self.call.modes();
        let mut images = BTreeSet::new();
        let mut file_pairs = vec![];
        self.source_untouched(out, v);
        for k in self.b.subtree(src) {
            let want = &self.b.nodes[&k];
            let q = format!("{}{}", self.e, &k[src.len()..]);
            images.insert(q.clone());
            let got = match self.a.get(&q) {
                Some(g) => g,
                None => {
                    v.push((self.sig("image of a source entry missing"), self.detail(out, &format!("source entry {} = {} has no image at {}", k, show_node(Some(want)), q))));
                    continue;
                },
            };
            if let Some(d) = kind_content_eq(want, got, src, &self.e) {
                v.push((self.sig(&format!("image {}", d)), self.detail(out, &format!("source entry {} = {} but its image {} = {}", k, show_node(Some(want)), q, show_node(Some(got))))));
                continue;
            }
            if want.is_file() {
                file_pairs.push((k.clone(), q.clone()));
            }
            if let Some(old) = self.b.nodes.get(&q) {
                // "entries that already existed are kept": a directory that was already there is merged into, not re-moded
                if old.is_dir() && got.is_dir() && (old.mode != got.mode || old.uid != got.uid || old.gid != got.gid) {
                    v.push((
                        format!("{} {} · pre-existing destination directory re-moded [{}]", self.backend, self.call.label(), self.call.opt_label()),
                        self.detail(out, &format!("{} existed as {} and is now {}", q, show_node(Some(old)), show_node(Some(got)))),
                    ));
                }
            }
            if !self.b.nodes.contains_key(&q) {
                let expect = match want.kind {
                    Kind::Dir => Some(dm.unwrap_or(want.mode)),
                    Kind::File(_) => Some(fm.unwrap_or(want.mode)),
                    Kind::Link(_) => None,
                };
                if let Some(m) = expect {
                    if got.mode != m {
                        v.push((
                            format!("{} {} · mode of a new {} [{}]", self.backend, self.call.label(), want.kind_name(), self.call.opt_label()),
                            self.detail(out, &format!("new entry {} has mode {:o}, expected {:o} (source {} has {:o}, option {})", q, got.mode, m, k, want.mode, self.call.opt_label())),
                        ));
                    }
                }
            }
        }
        self.no_collateral(out, &images, v);
        file_pairs
    }

    /// follow = true, all links in the source resolve in one hop to a file or directory
    fn copy_follow(&self, out: &Outcome, exp: &[ExpNode], e: &str, v: &mut Viol) -> Vec<(String, String)> {
        let (dm, fm) = self.call.modes();
        let j = Judge { backend: self.backend, b: self.b, a: self.a, call: self.call, e: e.to_string() };
        let mut images = BTreeSet::new();
        let mut file_pairs = vec![];
        j.source_untouched(out, v);
        for x in exp {
            let q = format!("{}{}", e, x.rel);
            images.insert(q.clone());
            let got = match self.a.get(&q) {
                Some(g) => g,
                None => {
                    v.push((j.sig("image of a source entry missing"), j.detail(out, &format!("followed source entry <src>{} ({}) has no image at {}", x.rel, if x.dir { "dir" } else { "file" }, q))));
                    continue;
                },
            };
            let same = match &got.kind {
                Kind::Dir => x.dir,
                Kind::File(d) => !x.dir && *d == x.content,
                Kind::Link(_) => false,
            };
            if same && !x.dir {
                file_pairs.push((x.real.clone(), q.clone()));
            }
            if !same {
                v.push((
                    j.sig("image differs from what the link points to"),
                    j.detail(out, &format!("followed source entry <src>{} is a {} {:?} but its image {} = {}", x.rel, if x.dir { "dir" } else { "file" }, bytes_repr(&x.content), q, show_node(Some(got)))),
                ));
                continue;
            }
            if let Some(old) = self.b.nodes.get(&q) {
                if old.is_dir() && got.is_dir() && (old.mode != got.mode || old.uid != got.uid || old.gid != got.gid) {
                    v.push((
                        format!("{} {} · pre-existing destination directory re-moded [{}]", self.backend, self.call.label(), self.call.opt_label()),
                        j.detail(out, &format!("{} existed as {} and is now {}", q, show_node(Some(old)), show_node(Some(got)))),
                    ));
                }
            }
            if !self.b.nodes.contains_key(&q) {
                let expect = if x.dir { dm.or(x.mode) } else { fm.or(x.mode) };
                if let Some(m) = expect {
                    if got.mode != m {
                        v.push((
                            format!("{} {} · mode of a new {} [{}]", self.backend, self.call.label(), if x.dir { "dir" } else { "file" }, self.call.opt_label()),
                            j.detail(out, &format!("new entry {} has mode {:o}, expected {:o} (option {})", q, got.mode, m, self.call.opt_label())),
                        ));
                    }
                }
            }
        }
        j.no_collateral(out, &images, v);
        // one defect, several faces: a followed link below the source root whose image is not where the link was
        if follow_inner_link(self.b, self.call) && !collision_note(self.b, self.call, e).contains("existing link") {
            for x in v.iter_mut() {
                if !x.0.ends_with("source changed") {
                    x.0 = format!("{} copy+follow · link inside the source directory · image not at the link's own relative path", self.backend);
                }
            }
        }
        file_pairs
    }

    fn moved(&self, out: &Outcome, v: &mut Viol) {
        let src = &self.call.src;
        let mut want = self.b.clone();
        let moved: Vec<(String, Node)> = self.b.subtree(src).into_iter().map(|k| (k.clone(), self.b.nodes[&k].clone())).collect();
        want.remove_subtree(&self.e);
        want.remove_subtree(src);
        for (k, n) in &moved {
            want.insert(&format!("{}{}", self.e, &k[src.len()..]), n.clone());
        }
        let ka: Vec<&String> = want.nodes.keys().collect();
        let kb: Vec<&String> = self.a.nodes.keys().collect();
        if ka != kb {
            let still = self.a.nodes.contains_key(src);
            let what = if still { "source still present" } else { "names differ from the relocated tree" };
            v.push((self.sig(what), self.detail(out, &format!("expected names {:?}, observed {:?}", ka, kb))));
            return;
        }
        for (k, w) in &want.nodes {
            let g = &self.a.nodes[k];
            let inside = is_under(k, &self.e);
            let place = if inside { "moved entry" } else { "entry outside the move" };
            let bad = match kind_content_eq(w, g, src, &self.e) {
                Some(d) => Some(d),
                None if w.mode != g.mode => Some("mode differs"),
                None if w.uid != g.uid || w.gid != g.gid => Some("owner differs"),
                None => None,
            };
            if let Some(d) = bad {
                let sig = if d == "link target differs" && inside {
                    // one defect whatever the destination looks like
                    format!("{} move_p · src={} · dst=* · moved link points elsewhere", self.backend, if self.b.get(src).map(|n| n.is_link()).unwrap_or(false) { "link" } else { "dir containing a link" })
                } else {
                    self.sig(&format!("{}: {}", place, d))
                };
                v.push((sig, self.detail(out, &format!("{} expected {} observed {}", k, show_node(Some(w)), show_node(Some(g))))));
                return;
            }
        }
    }
}

/// Verdict for one executed call from the two snapshots. Returns the (source file, image file)
/// pairs of a fully conforming plain copy for the alias probe, and whether the strong oracle applied.
fn judge(backend: &str, b: &Tree, a: &Tree, call: &Call, out: &Outcome, v: &mut Viol) -> (Vec<(String, String)>, bool) {
    // one discrepancy per case (checks run in order of severity: source damaged, image wrong,
    // collateral change) keeps the signatures of one defect together
    let mut all: Viol = vec![];
    let r = judge_all(backend, b, a, call, out, &mut all);
    if let Some(first) = all.into_iter().next() {
        v.push(first);
    }
    r
}

fn judge_all(backend: &str, b: &Tree, a: &Tree, call: &Call, out: &Outcome, v: &mut Viol) -> (Vec<(String, String)>, bool) {
    let e = effective(b, &call.src, &call.dst);
    let j = Judge { backend, b, a, call, e: e.clone() };
    if out.panicked() {
        v.push((j.sig("panic"), j.detail(out, &format!("the call panicked: {}", out.msg))));
        return (vec![], false);
    }
    let through = b.through_link(&call.src) || b.through_link(&call.dst) || b.through_link(&e);
    let nested = e == call.src || is_under(&e, &call.src) || is_under(&call.src, &e);
    // (strictly inside: a copy whose effective destination *is* the source has nothing to write and must leave
    // the source as it was, modes included)
    let dst_in_src = e != call.src && is_under(&e, &call.src);
    match &call.copy {
        None => {
            if !out.ok {
                if a != b || !a.nodes.iter().zip(b.nodes.iter()).all(|((_, x), (_, y))| full_eq(x, y)) {
                    v.push((j.sig("failed move changed the tree"), j.detail(out, "a failed move_p must change nothing")));
                }
                return (vec![], true);
            }
            if through {
                return (vec![], false);
            }
            if b.kind(&call.src) == "missing" || e == call.src {
                // nothing to relocate / onto itself: the only reading of a success is "unchanged"
                if a != b {
                    v.push((j.sig("tree changed although nothing could be moved"), j.detail(out, "source missing or destination = source")));
                }
                return (vec![], true);
            }
            if nested {
                return (vec![], false);
            }
            j.moved(out, v);
            (vec![], true)
        },
        Some((_, follow)) => {
            if !out.ok {
                if !dst_in_src {
                    j.source_untouched(out, v);
                }
                return (vec![], false);
            }
            if through || nested {
                if !dst_in_src {
                    j.source_untouched(out, v);
                }
                return (vec![], false);
            }
            if !*follow {
                let pairs = j.copy_plain(out, v);
                return (pairs, true);
            }
            // follow: strong only when every link of the source resolves in one hop and the
            // destination region is disjoint from everything that is read
            let mut visited = vec![];
            let mut exp = vec![];
            let expandable = expand_follow(b, &call.src, "", false, 0, &mut visited, &mut exp).is_some();
            let mut cands = vec![e.clone()];
            if let Some(Node { kind: Kind::Link(t), .. }) = b.get(&call.src) {
                if b.is_dir(&call.dst) {
                    // which name a followed source link gets inside an existing directory is left open
                    let e2 = join(&call.dst, base_of(t));
                    if e2 != e {
                        cands.push(e2);
                    }
                }
            }
            let disjoint = |e: &String| visited.iter().all(|r| r != e && !is_under(e, r) && !is_under(r, e)) && !b.through_link(e);
            if !expandable || !cands.iter().all(disjoint) {
                j.source_untouched(out, v);
                return (vec![], false);
            }
            let mut best: Option<Viol> = None;
            for c in &cands {
                let mut vv = vec![];
                let pairs = j.copy_follow(out, &exp, c, &mut vv);
                if vv.is_empty() {
                    return (pairs, true);
                }
                // report against the reading that fits best
                if best.as_ref().map(|x| vv.len() < x.len()).unwrap_or(true) {
                    best = Some(vv);
                }
            }
            v.extend(best.unwrap_or_default());
            (vec![], true)
        },
    }
}

// ---------------------------------------------------------------------------------------------
// Worlds
// ---------------------------------------------------------------------------------------------
trait World {
    fn name(&self) -> &'static str;
    fn apply(&self, op: &Op) -> Outcome;
    fn snapshot(&self) -> Result<Tree, String>;
}

struct MemWorld {
    fs: Memfs,
}

impl World for MemWorld {
    fn name(&self) -> &'static str {
        "memfs"
    }
    fn apply(&self, op: &Op) -> Outcome {
        apply(&self.fs, op)
    }
    fn snapshot(&self) -> Result<Tree, String> {
        abstract_dump(&self.fs.verif_dump())
    }
}

struct DiskWorld {
    root: String,
    fs: Stdfs,
}

/// Run the call in a forked child so that a runaway call (Stdfs copy of a directory into its own
/// subtree recursed until the OS path limit, minutes of system time) can be cut off: None = no
/// result within `secs`. The child only performs the call and reports the outcome through a pipe.
fn apply_in_child(fs: &Stdfs, op: &Op, secs: i32) -> Option<Outcome> {
    let mut fds = [0i32; 2];
    if unsafe { libc::pipe(fds.as_mut_ptr()) } != 0 {
        return Some(apply(fs, op));
    }
    let pid = unsafe { libc::fork() };
    if pid < 0 {
        unsafe {
            libc::close(fds[0]);
            libc::close(fds[1]);
        }
        return Some(apply(fs, op));
    }
    if pid == 0 {
        unsafe { libc::close(fds[0]) };
        let o = apply(fs, op);
        let text = format!("{}\u{1}{}\u{1}{}\u{1}{}", if o.ok { "1" } else { "0" }, o.val, o.err, o.msg);
        let bytes = text.as_bytes();
        let mut off = 0;
        while off < bytes.len() {
            let n = unsafe { libc::write(fds[1], bytes[off..].as_ptr() as *const libc::c_void, bytes.len() - off) };
            if n <= 0 {
                break;
            }
            off += n as usize;
        }
        unsafe { libc::_exit(0) };
    }
    unsafe { libc::close(fds[1]) };
    let mut buf: Vec<u8> = vec![];
    // the limit is CPU time of the child (a runaway recursion burns it), so that a child which merely does
    // not get the CPU on a loaded machine is not mistaken for one; wall clock only as a distant backstop
    let t0 = std::time::Instant::now();
    let mut timed_out = false;
    loop {
        let cpu = task_stat(Some(pid), 0).map(|x| x.1).unwrap_or(t0.elapsed().as_secs_f64());
        if cpu >= secs as f64 || t0.elapsed().as_secs() >= 40 * secs as u64 {
            timed_out = true;
            break;
        }
        let mut pfd = libc::pollfd { fd: fds[0], events: libc::POLLIN, revents: 0 };
        let r = unsafe { libc::poll(&mut pfd, 1, 200) };
        if r == 0 {
            continue;
        }
        if r < 0 {
            continue;
        }
        let mut chunk = [0u8; 4096];
        let n = unsafe { libc::read(fds[0], chunk.as_mut_ptr() as *mut libc::c_void, chunk.len()) };
        if n <= 0 {
            break;
        }
        buf.extend_from_slice(&chunk[..n as usize]);
    }
    if timed_out {
        // our own child: stop it
        unsafe { libc::kill(pid, libc::SIGKILL) };
    }
    let mut status = 0i32;
    unsafe {
        libc::waitpid(pid, &mut status, 0);
        libc::close(fds[0]);
    }
    if timed_out {
        return None;
    }
    let text = String::from_utf8_lossy(&buf).into_owned();
    let parts: Vec<&str> = text.split('\u{1}').collect();
    if parts.len() != 4 {
        // the child died without reporting (abort / stack overflow inside the call)
        return Some(Outcome { ok: false, val: String::new(), err: "PANIC".into(), msg: format!("the call killed its process (wait status {})", status) });
    }
    Some(Outcome { ok: parts[0] == "1", val: parts[1].to_string(), err: parts[2].to_string(), msg: parts[3].to_string() })
}

impl World for DiskWorld {
    fn name(&self) -> &'static str {
        "stdfs"
    }
    fn apply(&self, op: &Op) -> Outcome {
        let root = self.root.clone();
        apply(&self.fs, &op.map_paths(|p, _| reroot(&root, p)))
    }
    fn snapshot(&self) -> Result<Tree, String> {
        observe_disk(&self.root).map_err(|e| e.to_string())
    }
}

fn disk_materialize(sb: &Sandbox, tree: &Tree) -> Result<(), String> {
    sb.reset();
    materialize_disk(tree, &sb.root).map_err(|e| format!("materialize_disk: {}", e))?;
    if unsafe { libc::geteuid() } == 0 {
        for (k, n) in &tree.nodes {
            if n.uid != DEF_ID || n.gid != DEF_ID {
                let p = std::ffi::CString::new(reroot(&sb.root, k)).map_err(|e| e.to_string())?;
                let rc = unsafe { libc::lchown(p.as_ptr(), n.uid, n.gid) };
                if rc != 0 {
                    return Err(format!("lchown {}: {}", k, std::io::Error::last_os_error()));
                }
            }
        }
    }
    Ok(())
}

/// write to the image, observe the source, and the other way round (mutates the world)
fn alias_probe(w: &dyn World, b: &Tree, call: &Call, pairs: &[(String, String)], out: &Outcome, v: &mut Viol) {
    for (k, q) in pairs.iter().take(2) {
        if k == q {
            continue;
        }
        let e = effective(b, &call.src, &call.dst);
        let before = match w.snapshot() {
            Ok(t) => t,
            Err(_) => return,
        };
        let j = Judge { backend: w.name(), b, a: &before, call, e };
        let content = |t: &Tree, p: &str| -> Option<Vec<u8>> {
            match t.get(p) {
                Some(Node { kind: Kind::File(d), .. }) => Some(d.clone()),
                _ => None,
            }
        };
        let orig = content(&before, k);
        let o1 = w.apply(&Op::AppendAll(q.clone(), b"!".to_vec()));
        if let Ok(t) = w.snapshot() {
            if content(&t, k) != orig {
                v.push((j.sig("alias: writing the copy changed the source"), j.detail(out, &format!("append_all({}, \"!\") -> {} changed {} to {:?}", q, o1.brief(), k, content(&t, k).map(|x| bytes_repr(&x))))));
                return;
            }
        }
        let mid = w.snapshot().ok().and_then(|t| content(&t, q));
        let o2 = w.apply(&Op::WriteAll(k.clone(), b"?".to_vec()));
        if let Ok(t) = w.snapshot() {
            if content(&t, q) != mid {
                v.push((j.sig("alias: writing the source changed the copy"), j.detail(out, &format!("write_all({}, \"?\") -> {} changed {} to {:?}", k, o2.brief(), q, content(&t, q).map(|x| bytes_repr(&x))))));
                return;
            }
        }
    }
}

// ---------------------------------------------------------------------------------------------
// One case
// ---------------------------------------------------------------------------------------------
#[derive(Default)]
struct CaseInfo {
    ok: bool,
    strong: bool,
    changed: bool,
    timed_out: bool,
}

fn case_json(backend: &str, tree: &Tree, call: &Call) -> J {
    J::obj([("backend", J::s(backend)), ("tree", tree_json(tree)), ("tree_text", J::s(tree.render())), ("call", call.to_json()), ("call_text", J::s(call.render()))])
}

/// run one call on a Memfs holding `b`; `base` is never modified
fn memfs_case(base: &Memfs, dump_b: &rivia::verif::Dump, b: &Tree, call: &Call, v: &mut Viol, verbose: bool) -> CaseInfo {
    let w = MemWorld { fs: base.verif_deep_clone() };
    let out = w.apply(&call.op());
    let dump_a = w.fs.verif_dump();
    let e = effective(b, &call.src, &call.dst);
    let broken = invariants::check(&dump_a);
    if verbose {
        println!("  memfs: {} -> {}", call.render(), out.brief());
    }
    if let Some((code, detail)) = broken.first() {
        let a0 = Tree::new();
        let j = Judge { backend: "memfs", b, a: &a0, call, e };
        v.push((j.sig(&format!("namespace malformed ({})", code)), format!("tree [{}]: {} -> {}; {}", b.render(), call.render(), out.brief(), detail)));
        return CaseInfo { ok: out.ok, strong: false, changed: true, timed_out: false };
    }
    let a = match abstract_dump(&dump_a) {
        Ok(t) => t,
        Err(err) => {
            let a0 = Tree::new();
            let j = Judge { backend: "memfs", b, a: &a0, call, e };
            v.push((j.sig("namespace malformed (no tree can be read off the dump)"), format!("tree [{}]: {} -> {}; {}", b.render(), call.render(), out.brief(), err)));
            return CaseInfo { ok: out.ok, strong: false, changed: true, timed_out: false };
        },
    };
    if verbose {
        println!("    before: {}\n    after : {}", b.render(), a.render());
    }
    let (pairs, strong) = judge("memfs", b, &a, call, &out, v);
    if call.copy.is_none() && !out.ok && &dump_a != dump_b && v.is_empty() {
        let j = Judge { backend: "memfs", b, a: &a, call, e };
        v.push((j.sig("failed move changed the dump"), j.detail(&out, "the abstract tree is unchanged but the complete dump differs")));
    }
    let changed = &dump_a != dump_b;
    if v.is_empty() && !pairs.is_empty() {
        alias_probe(&w, b, call, &pairs, &out, v);
    }
    CaseInfo { ok: out.ok, strong, changed, timed_out: false }
}

/// copy of a real directory to a destination inside itself: the class that can run away on Stdfs
fn runaway_class(b: &Tree, call: &Call) -> bool {
    if call.copy.is_none() {
        return false;
    }
    let e = effective(b, &call.src, &call.dst);
    if b.is_dir(&call.src) && e != call.src && is_under(&e, &call.src) {
        return true;
    }
    // with follow: some link reachable from the source (through any number of followed
    // directories) leads to a directory that contains the destination
    if !call.follow() {
        return false;
    }
    let mut seen: BTreeSet<String> = BTreeSet::new();
    let mut todo = vec![call.src.clone()];
    while let Some(r) = todo.pop() {
        if !seen.insert(r.clone()) {
            continue;
        }
        for k in b.subtree(&r) {
            if let Some(Node { kind: Kind::Link(t), .. }) = b.get(&k) {
                if b.is_dir(t) {
                    if is_under(&e, t) {
                        return true;
                    }
                    todo.push(t.clone());
                }
            }
        }
    }
    false
}

const CHILD_SECS: i32 = 6;

fn stdfs_case(sb: &Sandbox, w: &DiskWorld, b: &Tree, call: &Call, v: &mut Viol, verbose: bool) -> Result<CaseInfo, String> {
    let out = if runaway_class(b, call) {
        let root = w.root.clone();
        match apply_in_child(&w.fs, &call.op().map_paths(|p, _| reroot(&root, p)), CHILD_SECS) {
            Some(o) => o,
            None => {
                let e = effective(b, &call.src, &call.dst);
                let j = Judge { backend: "stdfs", b, a: b, call, e };
                v.push((
                    format!("stdfs {} · dst inside the (followed) source directory · no result within {} s (runaway recursion)", call.label(), CHILD_SECS),
                    format!("tree [{}]: {} was still running after {} s in a child process and was stopped; the sandbox held {} entries by then", b.render(), call.render(), CHILD_SECS, w.snapshot().map(|t| t.nodes.len()).unwrap_or(0)),
                ));
                let _ = j;
                return Ok(CaseInfo { ok: false, strong: false, changed: true, timed_out: true });
            },
        }
    } else {
        w.apply(&call.op())
    };
    let a = w.snapshot()?;
    if verbose {
        println!("  stdfs: {} -> {}\n    before: {}\n    after : {}", call.render(), out.brief(), b.render(), a.render());
    }
    let (pairs, strong) = judge("stdfs", b, &a, call, &out, v);
    let mut changed = a != *b || !a.nodes.iter().zip(b.nodes.iter()).all(|((_, x), (_, y))| full_eq(x, y));
    if v.is_empty() && !pairs.is_empty() {
        alias_probe(w, b, call, &pairs, &out, v);
        changed = true;
    }
    let _ = sb;
    Ok(CaseInfo { ok: out.ok, strong, changed, timed_out: false })
}

/// the two backends are only compared where the outcome cannot depend on iteration order
fn comparable(b: &Tree, call: &Call) -> bool {
    let e = effective(b, &call.src, &call.dst);
    let through = b.through_link(&call.src) || b.through_link(&call.dst) || b.through_link(&e);
    let nested = e == call.src || is_under(&e, &call.src) || is_under(&call.src, &e);
    if through || nested {
        return false;
    }
    if call.follow() {
        let (mut vis, mut exp) = (vec![], vec![]);
        if b.kind(&call.src) != "missing" && expand_follow(b, &call.src, "", false, 0, &mut vis, &mut exp).is_none() {
            return false;
        }
        if vis.iter().any(|r| r == &e || is_under(&e, r) || is_under(r, &e)) {
            return false;
        }
    }
    true
}

// ---------------------------------------------------------------------------------------------
// Memfs half (threads)
// ---------------------------------------------------------------------------------------------
#[derive(Default)]
struct Counters {
    trees: AtomicU64,
    unbuildable: AtomicU64,
    calls: AtomicU64,
    ok: AtomicU64,
    strong: AtomicU64,
    changed: AtomicU64,
}

fn memfs_tree(tree: &Tree, calls: &[Call], c: &Counters, progress: &Progress, slot: usize, ti: u64, samples: &Mutex<Vec<J>>) {
    let base = match materialize_memfs(tree, "/") {
        Ok(fs) => fs,
        Err(_) => {
            c.unbuildable.fetch_add(1, Ordering::Relaxed);
            return;
        },
    };
    c.trees.fetch_add(1, Ordering::Relaxed);
    let dump_b = base.verif_dump();
    let mut b = match abstract_dump(&dump_b) {
        Ok(t) => t,
        Err(_) => return,
    };
    b.fix_link_kinds();
    for (ci, call) in calls.iter().enumerate() {
        progress.begin(slot, (ti << 16) | ci as u64);
        let mut v: Viol = vec![];
        let info = memfs_case(&base, &dump_b, &b, call, &mut v, false);
        progress.end(slot);
        c.calls.fetch_add(1, Ordering::Relaxed);
        if info.ok {
            c.ok.fetch_add(1, Ordering::Relaxed);
        }
        if info.strong {
            c.strong.fetch_add(1, Ordering::Relaxed);
        }
        if info.changed {
            c.changed.fetch_add(1, Ordering::Relaxed);
        }
        for (sig, detail) in v {
            vio(&sig, || detail, || case_json("memfs", tree, call));
        }
        if (ti * 379 + ci as u64) % 200_003 == 11 && info.ok && info.changed {
            let mut sm = samples.lock().unwrap();
            if sm.len() < 5 {
                sm.push(J::obj([("backend", J::s("memfs")), ("tree", J::s(tree.render())), ("call", J::s(call.render())), ("strong_oracle", J::Bool(info.strong))]));
            }
        }
    }
}

// ---------------------------------------------------------------------------------------------
// Stdfs half (worker processes)
// ---------------------------------------------------------------------------------------------
pub fn worker(w: &mut WorkerCtx) {
    unsafe {
        libc::umask(0o022);
    }
    let max_entries: usize = w.arg(0).parse().unwrap_or(3);
    let mut trees: Vec<Tree> = enum_trees(&space(max_entries, LinkDomain::Resolving)).iter().map(decorate).collect();
    trees.extend(link_fixtures());
    let calls = all_calls();
    let sb = Sandbox::new("c09");
    if w.shard == 0 {
        let found = crate::models::deep::copy_move("stdfs", &Stdfs::new(), &format!("{}/e", sb.root), &format!("{}/e-copy", sb.root), &format!("{}/e-moved", sb.root));
        crate::models::deep::report_worker(w, "copy_move", found);
        sb.reset();
    }
    let world = DiskWorld { root: sb.root.clone(), fs: Stdfs::new() };
    // hang guard: a call that does not return is reported from the watchdog thread, which ends the worker
    let progress = Progress::new();
    let wd_trees = trees.clone();
    let wd_calls = calls.clone();
    let wd = spawn_watchdog(progress.clone(), std::time::Duration::from_secs(20), move |_slot, case| {
        let (ti, ci) = ((case >> 16) as usize, (case & 0xFFFF) as usize);
        let (t, c) = (&wd_trees[ti], &wd_calls[ci]);
        let line = J::obj([
            ("sig", J::s(format!("stdfs {} · hang", c.label()))),
            ("n", J::i(1)),
            ("detail", J::s(format!("tree [{}]: {} did not return within 20 s", t.render(), c.render()))),
            ("case", case_json("stdfs", t, c)),
        ]);
        println!("V\t{}", line.to_string());
        println!("DONE");
        std::process::exit(0);
    });
    let mut timeouts = 0u64;
    for (ti, tree) in trees.iter().enumerate() {
        if !w.mine(ti as u64) {
            continue;
        }
        // the same tree in a Memfs for the success/failure cross-check
        let mem = materialize_memfs(tree, "/").ok();
        if let Err(e) = disk_materialize(&sb, tree) {
            w.vio("stdfs machinery: cannot materialise a tree", || format!("[{}]: {}", tree.render(), e), || J::Null);
            continue;
        }
        let b = match world.snapshot() {
            Ok(t) => t,
            Err(e) => {
                w.vio("stdfs machinery: cannot observe the sandbox", || e.clone(), || J::Null);
                continue;
            },
        };
        // the observer must see exactly what was asked for (kinds, bytes, targets, modes)
        let same_shape = b.nodes.len() == tree.nodes.len() && b.nodes.iter().zip(tree.nodes.iter()).all(|((k1, x), (k2, y))| k1 == k2 && x.kind == y.kind && x.mode == y.mode);
        if !same_shape {
            w.vio("stdfs machinery: sandbox differs from the requested tree", || format!("wanted [{}] observed [{}]", tree.render(), b.render()), || J::Null);
            continue;
        }
        w.count("stdfs_trees", 1);
        let mut dirty = false;
        for (ci, call) in calls.iter().enumerate() {
            let e = effective(&b, &call.src, &call.dst);
            if b.through_link(&call.src) || b.through_link(&call.dst) || b.through_link(&e) {
                // the kernel resolves links inside a path, Memfs does not: outside the compared domain
                w.count("stdfs_skipped_through_link", 1);
                continue;
            }
            if timeouts > 0 && runaway_class(&b, call) {
                // already reported from this worker; every further case of the class would cost the full time limit
                w.count("stdfs_skipped_after_timeout", 1);
                continue;
            }
            if dirty {
                if let Err(e) = disk_materialize(&sb, tree) {
                    w.vio("stdfs machinery: cannot materialise a tree", || format!("[{}]: {}", tree.render(), e), || J::Null);
                    break;
                }
            }
            progress.begin(0, ((ti as u64) << 16) | ci as u64);
            let mut v: Viol = vec![];
            let info = match stdfs_case(&sb, &world, &b, call, &mut v, false) {
                Ok(i) => i,
                Err(e) => {
                    progress.end(0);
                    w.vio("stdfs machinery: cannot observe the sandbox", || e.clone(), || J::Null);
                    dirty = true;
                    continue;
                },
            };
            progress.end(0);
            dirty = info.changed;
            if info.timed_out {
                timeouts += 1;
            }
            w.count("stdfs_calls", 1);
            if info.ok {
                w.count("stdfs_ok", 1);
            }
            if info.strong {
                w.count("stdfs_strong", 1);
            }
            for (sig, detail) in v {
                let c = case_json("stdfs", tree, call);
                w.vio(&sig, move || detail, move || c);
            }
            if let Some(mem) = &mem {
                if comparable(&b, call) {
                    let mo = apply(&mem.verif_deep_clone(), &call.op());
                    w.count("cross_checked", 1);
                    if mo.ok != info.ok && !mo.panicked() {
                        let j = Judge { backend: "backends-disagree", b: &b, a: &b, call, e: e.clone() };
                        let verdicts = format!("memfs={} stdfs={}", if mo.ok { "ok" } else { "err" }, if info.ok { "ok" } else { "err" });
                        let sig = if follow_inner_link(&b, call) { format!("backends-disagree copy+follow · link inside the source directory · {}", verdicts) } else { j.sig(&verdicts) };
                        let detail = format!("tree [{}]: {} -> memfs {} but stdfs {}", tree.render(), call.render(), mo.brief(), if info.ok { "Ok" } else { "Err" });
                        let c = case_json("both", tree, call);
                        w.vio(&sig, move || detail, move || c);
                    }
                }
            }
            if (ti * 379 + ci) % 20_011 == 7 && info.ok {
                w.sample(J::obj([("backend", J::s("stdfs")), ("tree", J::s(tree.render())), ("call", J::s(call.render())), ("strong_oracle", J::Bool(info.strong))]));
            }
        }
    }
    wd.store(true, Ordering::Relaxed);
    let _ = std::env::set_current_dir("/");
}

// ---------------------------------------------------------------------------------------------
// Driver
// ---------------------------------------------------------------------------------------------
pub fn run(ctx: &Ctx) -> i32 {
    quiet_panics();
    if let Some(p) = &ctx.replay {
        return replay(ctx, p);
    }
    // a chain far deeper than the enumerated trees: copy and move_p reach the bottom
    crate::models::deep::report_main("copy_move", crate::models::deep::copy_move("memfs", &Memfs::new(), "/e", "/e-copy", "/e-moved"));
    let mem_entries = ctx.tier.pick(4usize, 6usize);
    let std_entries = ctx.tier.pick(3usize, 6usize);
    let mut trees: Vec<Tree> = enum_trees(&space(mem_entries, LinkDomain::Any)).iter().map(decorate).collect();
    trees.extend(link_fixtures());
    let calls = all_calls();
    let c = Counters::default();
    let samples: Mutex<Vec<J>> = Mutex::new(vec![]);
    let progress = Progress::new();
    let (h_trees, h_calls, h_prop) = (trees.clone(), calls.clone(), ctx.prop.clone());
    let wd = spawn_watchdog(progress.clone(), std::time::Duration::from_secs(ctx.tier.pick(10, 30)), move |_slot, case| {
        let (ti, ci) = ((case >> 16) as usize, (case & 0xFFFF) as usize);
        let (t, cl) = (&h_trees[ti], &h_calls[ci]);
        let sig = format!("memfs {} · hang", cl.label());
        let detail = format!("tree [{}]: {} did not return within the watchdog limit", t.render(), cl.render());
        vio(&sig, || detail.clone(), || case_json("memfs", t, cl));
        eprintln!("HANG: {}", detail);
        std::process::exit(crate::props::hang_exit(&h_prop, &sig));
    });
    // simplest first: the small trees sequentially so that the kept witness per signature is small
    let small = trees.iter().take_while(|t| t.nodes.len() <= 2).count();
    for (ti, t) in trees.iter().enumerate().take(small) {
        memfs_tree(t, &calls, &c, &progress, 0, ti as u64, &samples);
    }
    par_for(ctx.threads, (trees.len() - small) as u64, 8, |slot, i| {
        let ti = small as u64 + i;
        memfs_tree(&trees[ti as usize], &calls, &c, &progress, slot, ti, &samples);
    });
    wd.store(true, Ordering::Relaxed);
    let ld = |x: &AtomicU64| x.load(Ordering::Relaxed);
    println!(
        "  memfs: {} trees (<= {} entries, any links; {} not constructible through the API) x {} calls = {} calls, {} succeeded, {} under the strong oracle",
        ld(&c.trees),
        mem_entries,
        ld(&c.unbuildable),
        calls.len(),
        ld(&c.calls),
        ld(&c.ok),
        ld(&c.strong)
    );

    let mut g = Gathered::default();
    workers::run_workers(ctx, &Launch { name: "c09".into(), nshards: ctx.threads.max(1) as u64, extra: vec![std_entries.to_string()], uid: None, env: None }, &mut g);
    if !g.failed.is_empty() {
        for f in &g.failed {
            eprintln!("machinery: {}", f);
        }
        return 2;
    }
    println!(
        "  stdfs: {} trees (<= {} entries, resolving links) : {} calls, {} succeeded, {} under the strong oracle, {} skipped (path through a link), {} cross-checked with memfs",
        g.c("stdfs_trees"),
        std_entries,
        g.c("stdfs_calls"),
        g.c("stdfs_ok"),
        g.c("stdfs_strong"),
        g.c("stdfs_skipped_through_link"),
        g.c("cross_checked")
    );

    let mut sm = samples.into_inner().unwrap();
    sm.extend(g.samples.iter().cloned());
    let states = ld(&c.trees) + g.c("stdfs_trees");
    let transitions = ld(&c.calls) + g.c("stdfs_calls");
    let cov = J::obj([
        ("states", J::i(states)),
        ("transitions", J::i(transitions)),
        ("traces_validated_against_impl", J::i(transitions)),
        ("samples", J::Arr(sm)),
        ("exhaustive", J::Bool(g.c("stdfs_skipped_after_timeout") == 0)),
        ("calls_per_tree", J::i(calls.len() as i64)),
        (
            "memfs",
            J::obj([
                ("trees", J::i(ld(&c.trees))),
                ("trees_not_constructible_through_the_api", J::i(ld(&c.unbuildable))),
                ("max_entries", J::i(mem_entries as i64)),
                ("calls", J::i(ld(&c.calls))),
                ("calls_succeeded", J::i(ld(&c.ok))),
                ("calls_that_changed_the_dump", J::i(ld(&c.changed))),
                ("calls_under_strong_oracle", J::i(ld(&c.strong))),
            ]),
        ),
        (
            "stdfs",
            J::obj([
                ("trees", J::i(g.c("stdfs_trees"))),
                ("max_entries", J::i(std_entries as i64)),
                ("calls", J::i(g.c("stdfs_calls"))),
                ("calls_succeeded", J::i(g.c("stdfs_ok"))),
                ("calls_under_strong_oracle", J::i(g.c("stdfs_strong"))),
                ("calls_skipped_path_through_link", J::i(g.c("stdfs_skipped_through_link"))),
                ("cross_checked_with_memfs", J::i(g.c("cross_checked"))),
                ("calls_skipped_after_a_timeout_of_the_same_class", J::i(g.c("stdfs_skipped_after_timeout"))),
            ]),
        ),
        (
            "bounds",
            J::s(format!(
                "names {{a,b}}, depth 2 (6 paths); files \"\" | \"x\"; Memfs: every tree with <= {} entries incl. links to any namespace path or the missing /zz (dangling, chains, cycles); Stdfs: every tree with <= {} entries whose links resolve to a non-link; each entry carries a path-specific mode, two paths a non-default owner; src in the 6 paths, dst in the 6 paths + \"/\"; copy x {{no option, chmod_all, chmod_dirs, chmod_files}}(0o{:o}) x follow {{false,true}}, move_p",
                mem_entries, std_entries, OPT_MODE
            )),
        ),
        ("explanation", J::s("strong oracle (src and effective dst disjoint, no path through a link; with follow: every link of the source resolves in one hop to a file or directory outside the destination): successful copy = source untouched, every source entry has an image of the same kind/content/link target at the same relative path below the effective destination, new images carry the source mode or the option's mode for the selected kind, every other old entry is unchanged and nothing else appears except new parent directories of the destination, the copies do not alias; successful move_p = tree equals the old tree with the source subtree re-rooted at the effective destination (modes, owners, link targets kept); failed move_p = complete dump / disk tree unchanged. Elsewhere (nested src/dst, dangling or chained links with follow, failed copy): source untouched unless the destination lies inside the source, termination (watchdog), Memfs invariants I1-I8 on every resulting dump")),
    ]);
    finish(ctx, Evidence {
        level: "model_checking",
        coverage: cov,
        assumptions: vec![
            "effective destination = dst/<base(src)> when dst is an existing real directory (links to directories do not count), else dst".into(),
            "mode and owner of entries that already existed at an image path, owner of new entries and mode of freshly created parent directories are unspecified".into(),
            "a copied or moved link that pointed inside the copied/moved subtree may keep its absolute target or be relocated with the subtree".into(),
            "with follow the name a followed source link gets inside an existing destination directory (link name or target name) and the mode of images reached through a link are left open".into(),
            "Stdfs: calls whose src/dst/effective dst passes through a link are outside the compared domain (kernel resolves them, Memfs does not); Linux tmpfs, umask 022, euid of the harness".into(),
            "backend disagreements (prefix backends-disagree) belong to C02 and are only evaluated where src and dst are disjoint".into(),
        ],
    })
}

// ---------------------------------------------------------------------------------------------
// Replay
// ---------------------------------------------------------------------------------------------
fn replay(ctx: &Ctx, p: &std::path::Path) -> i32 {
    let j = json::parse(&std::fs::read_to_string(p).expect("read replay")).expect("parse replay");
    let case = j.get("case").expect("case");
    let backend = case.get("backend").and_then(|x| x.as_str()).unwrap_or("memfs").to_string();
    let tree = tree_from_json(case.get("tree").expect("tree")).expect("tree literal");
    let call = Call::from_json(case.get("call").expect("call")).expect("call literal");
    println!("replay {} backend {} tree [{}] call {}", ctx.prop, backend, tree.render(), call.render());
    let mut v: Viol = vec![];
    let mut mem_ok = None;
    if backend == "memfs" || backend == "both" {
        let base = materialize_memfs(&tree, "/").expect("materialise in Memfs");
        let dump_b = base.verif_dump();
        let mut b = abstract_dump(&dump_b).expect("abstract");
        b.fix_link_kinds();
        let mut vv = vec![];
        let info = memfs_case(&base, &dump_b, &b, &call, &mut vv, true);
        mem_ok = Some(info.ok);
        if backend == "memfs" {
            v.extend(vv);
        }
    }
    if backend == "stdfs" || backend == "both" {
        unsafe {
            libc::umask(0o022);
        }
        let sb = Sandbox::new("c09r");
        let world = DiskWorld { root: sb.root.clone(), fs: Stdfs::new() };
        disk_materialize(&sb, &tree).expect("materialise on disk");
        let b = world.snapshot().expect("observe");
        let mut vv = vec![];
        let info = stdfs_case(&sb, &world, &b, &call, &mut vv, true).expect("observe");
        if backend == "stdfs" {
            v.extend(vv);
        } else if mem_ok != Some(info.ok) {
            v.push((s("backends-disagree"), format!("memfs ok={:?} stdfs ok={}", mem_ok, info.ok)));
        }
        let _ = std::env::set_current_dir("/");
    }
    if v.is_empty() {
        println!("holds on this case");
        0
    } else {
        for (sig, d) in &v {
            println!("  DISCREPANCY [{}]: {}", sig, d);
        }
        println!("VIOLATION property={} replay={}", ctx.prop, p.display());
        1
    }
}

#[allow(dead_code)]
fn _unused(_: BTreeMap<String, String>) {}

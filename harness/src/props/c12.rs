//! C12 No call panics, hangs or wedges the filesystem, whatever its arguments (engine E3, level
//! exploration: bounded exhaustive enumeration of argument strings fed to every Memfs method and to
//! every public path / string / iterator helper).
//!
//! Enumerated: every string up to a length bound over the adversarial alphabet
//! `{ / . ~ $ { } : a é € 😀 ' ' }` plus a fixed list of long / odd inputs. Each string is fed
//!  * as the path argument of every `VirtualFileSystem` method of `Memfs` (all `models::ops::Op`
//!    variants with data / mode / id arguments from small extreme sets, the chmod / chown / copy
//!    builders with several option sets, `chmod_b(..).sym(<string>)`, `config_dir(<string>)`,
//!    `entries(<string>)` with seven option sets, `read(<string>)` handles driven through six
//!    seek / read sequences with extreme offsets), from three pre-states (fresh; populated with
//!    directory, file, links, nested directory; cwd pointing into a removed directory);
//!  * on either side of copy / move_p / symlink / copy_b together with four fixed partner paths, and
//!    all pairs of short strings are fed to those two-path methods;
//!  * to every public function of the path helpers (free function and `PathExt` form), `StringExt`,
//!    `ToStringExt`, and the `IteratorExt` helpers on `Path::components()`.
//! The main process runs with `HOME=/a` (set before any thread exists); the same sweep with `HOME`
//! unset runs in single-threaded worker processes started with an explicit environment.
//!
//! Oracle: (1) no panic (catch_unwind); (2) every call returns within the watchdog limit and every
//! returned iterator ends within a step budget; (3) after each mutating call and after each `Err` a
//! probe on the same instance (`exists("/")`, `mkfile` + `remove` of a fresh name, lock not
//! poisoned) must succeed; (4) the C03 structural invariants hold on the dump after every mutating
//! call that changed the state (reported under the signature prefix `C03-invariant`).
use crate::common::json::{self, J};
use crate::common::par::*;
use crate::common::report::*;
use crate::common::strings::*;
use crate::engines::workers::{run_workers, Gathered, Launch, WorkerCtx};
use crate::models::invariants;
use crate::models::ops::{apply, err_kind, ChmodSel, CopyMode, Op, Outcome};
use rivia::prelude::*;
use rivia::verif::Dump;
use std::collections::BTreeMap;
use std::ffi::OsStr;
use std::io::Write as IoWrite;
use std::panic::{catch_unwind, AssertUnwindSafe};
use std::sync::atomic::{AtomicU32, AtomicU64, Ordering};
use std::sync::{Arc, Mutex};

const PROP: &str = "C12";
const ALPHA: [&str; 12] = ["/", ".", "~", "$", "{", "}", ":", "a", "é", "€", "😀", " "];
/// second sweep of the one-argument helpers: separators, dots and two names, to a greater length
const SHAPE_ALPHA: [&str; 4] = ["/", ".", "a", "é"];
const HOME_SET: &str = "/a";
const V_SET: &str = "home-set";
const V_UNSET: &str = "home-unset";
/// fixed valid partner paths for the two-path methods
const PARTNERS: [&str; 4] = ["/", "/a", "/a/a", "/zz"];
const PROBE: &str = "/__probe";
/// enumerated strings longer than this are fed to the single-path calls only (budget)
const LONG_NO_PARTNER: usize = 5;
const ENTRIES_BUDGET: usize = 10_000;

// ---------------------------------------------------------------------------------------------
// Inputs
// ---------------------------------------------------------------------------------------------
fn odd_inputs() -> Vec<String> {
    let mut v: Vec<String> = vec![
        "a".repeat(5000),
        "€".repeat(400),
        "../".repeat(3000),
        "/a".repeat(256),
        "é/".repeat(256),
        "a/../".repeat(600),
        format!("~/{}", "😀/".repeat(200)),
    ];
    for s in [
        "$", "${", "${}", "~~", "file://", "//", "file:///a/a", "FTP://a", "https://", "$a", "${a}", "${a}/$a", "$a$a", "${a", "$a}", "$HOME", "${HOME}/a",
        "~/a", "~/../..", "/a/../a/./a", "a\0b", "\0", "$a=b", "${\0}", "$=", "\n", "a\\b", "\u{202e}a", "\u{feff}", "e\u{301}", "/a/a/", "/a/:/", "/😀/é",
        "/{/a", "f:a+x", "a:a=rwx,d:u-w", "false", "FALSE", "0",
        // characters whose case mapping changes their UTF-8 length
        "\u{130}//", "\u{130}//\u{e9}", "a\u{130}b//c", "\u{212a}\u{212b}//", "\u{1e9e}://a", "file://\u{130}", "\u{130}", "/\u{212a}/\u{130}",
        // chmod expression shapes: empty clauses, truncated clauses, wrong symbols in each position
        ",", ",,", ",f:u+x", "f:u+x,", "f:u+x,,", "f:u+x,,f:g+x", "d:u+x,,d:g+x", ":", "f", "f:", "f:u", "f:u+", "::u+x", "f:,", "f:u,", "f:u+,", "z:u+x", "f:z+x", "f:u*x",
        "f:u+z", "f:u+xf:g+x", "afd:ugoa+-=rwx", "a:a-rwx,a:a+rwx,a:a=rwx",
    ] {
        v.push(s.to_string());
    }
    v
}

/// enumerated strings up to `lmax` (shortest first) followed by the odd inputs
struct Universe {
    n_enum: u64,
    odd: Arc<Vec<String>>,
    alpha: &'static [&'static str],
}

impl Universe {
    fn new(lmax: u32, odd: &Arc<Vec<String>>) -> Universe {
        Universe { n_enum: count_upto(ALPHA.len() as u64, lmax), odd: odd.clone(), alpha: &ALPHA }
    }
    /// longer strings over the few symbols that shape a path (no odd inputs)
    fn shapes(lmax: u32) -> Universe {
        Universe { n_enum: count_upto(SHAPE_ALPHA.len() as u64, lmax), odd: Arc::new(vec![]), alpha: &SHAPE_ALPHA }
    }
    fn len(&self) -> u64 {
        self.n_enum + self.odd.len() as u64
    }
    fn get(&self, i: u64, out: &mut String) {
        if i < self.n_enum {
            nth_string(self.alpha, i, out);
        } else {
            out.clear();
            out.push_str(&self.odd[(i - self.n_enum) as usize]);
        }
    }
    fn is_odd(&self, i: u64) -> bool {
        i >= self.n_enum
    }
}

fn nchars(s: &str) -> usize {
    s.chars().count()
}

fn clip(s: &str) -> String {
    if s.len() <= 160 {
        return s.to_string();
    }
    let mut end = 100;
    while !s.is_char_boundary(end) {
        end -= 1;
    }
    format!("{}…<{} bytes in all>", &s[..end], s.len())
}

/// coarse abstract class of an argument string (after shrinking), one label per string
fn shape(s: &str) -> &'static str {
    if s.is_empty() {
        "empty"
    } else if s.len() > 1024 {
        "very-long"
    } else if s.matches('/').count() > 64 {
        "many-components"
    } else if s.contains('\0') {
        "nul"
    } else if s.starts_with('~') {
        "leading-~"
    } else if s.contains('~') {
        "inner-~"
    } else if s.contains('$') {
        "contains-$"
    } else if !s.is_ascii() {
        "multibyte"
    } else if s.contains("//") || s.contains(':') {
        "protocol-ish"
    } else if s.chars().all(|c| c == '.' || c == '/') {
        "dots-slashes"
    } else {
        "plain"
    }
}

fn shapes(args: &[String]) -> String {
    args.iter().map(|a| shape(a)).collect::<Vec<_>>().join(",")
}

/// normalised class of a panic message (digits and quoted payloads removed)
fn msg_class(m: &str) -> String {
    // "called `Option::unwrap()` on a `None` value" keeps its code spans; other messages are cut at
    // the first quoted payload (which echoes the input)
    let cut = if m.starts_with("called `") { m.find(": ").unwrap_or(m.len()) } else { m.find(|c| c == '`' || c == '"' || c == '\'').unwrap_or(m.len()) };
    let mut out = String::new();
    let mut prev_n = false;
    for c in m[..cut].chars().take(60) {
        if c.is_ascii_digit() {
            if !prev_n {
                out.push('N');
            }
            prev_n = true;
        } else {
            out.push(c);
            prev_n = false;
        }
    }
    out.trim().to_string()
}

// ---------------------------------------------------------------------------------------------
// The calls
// ---------------------------------------------------------------------------------------------
#[derive(Clone, Debug)]
enum Call {
    Op(Op),
    ConfigDir(String),
    /// entries(path) with option set v, iterated to the end under a step budget
    Entries(String, u8),
    /// read(path) handle driven through seek / read sequence v with extreme offsets
    ReadSeek(String, u8),
}

const ENTRIES_VARIANTS: u8 = 7;
const READSEEK_VARIANTS: u8 = 6;

impl Call {
    fn name(&self) -> &'static str {
        match self {
            Call::Op(o) => o.name(),
            Call::ConfigDir(_) => "config_dir",
            Call::Entries(..) => "entries",
            Call::ReadSeek(..) => "read+seek",
        }
    }
    fn is_mutator(&self) -> bool {
        match self {
            Call::Op(o) => o.is_mutator(),
            _ => false,
        }
    }
    fn render(&self) -> String {
        let r = match self {
            Call::Op(o) => o.render(),
            Call::ConfigDir(s) => format!("config_dir({:?})", s),
            Call::Entries(p, v) => format!("entries({:?}){} (iterated to the end)", p, entries_opts_text(*v)),
            Call::ReadSeek(p, v) => format!("read({:?}) handle: {}", p, readseek_text(*v)),
        };
        clip(&r)
    }
}

fn entries_opts_text(v: u8) -> &'static str {
    match v {
        0 => "",
        1 => ".follow(true)",
        2 => ".contents_first()",
        3 => ".follow(true).contents_first().dirs_first().sort_by_name().min_depth(1)",
        4 => ".follow(true).verif_max_descriptors(0)",
        5 => ".files().files_first().sort_by_name().max_depth(1)",
        _ => ".dirs().max_depth(1).min_depth(2)",
    }
}

fn readseek_text(v: u8) -> &'static str {
    match v {
        0 => "seek(Start(u64::MAX)); read(8 bytes); read_to_end",
        1 => "seek(End(i64::MIN)); read(8 bytes)",
        2 => "seek(Current(i64::MAX)); seek(Current(i64::MAX)); seek(Current(i64::MAX)); read(8 bytes)",
        3 => "seek(End(10)); read_to_end; seek(Start(len + 10)); read(8 bytes)",
        4 => "seek(Start(2)); seek(Current(-5)); read(8 bytes); seek(Current(i64::MIN))",
        _ => "read(0 bytes); seek(End(-1)); read_to_string; seek(End(0)); read(8 bytes)",
    }
}

/// every step may fail with an io error (recorded); none may panic
fn read_seek(fs: &Memfs, p: &str, v: u8) -> RvResult<String> {
    let mut h = fs.read(p)?;
    let mut log: Vec<String> = vec![];
    let mut buf = [0u8; 8];
    let sk = |h: &mut Box<dyn ReadSeek>, pos: SeekFrom, log: &mut Vec<String>| log.push(format!("{:?}", h.seek(pos).map_err(|e| e.kind())));
    let rd = |h: &mut Box<dyn ReadSeek>, b: &mut [u8], log: &mut Vec<String>| log.push(format!("{:?}", h.read(b).map_err(|e| e.kind())));
    match v {
        0 => {
            sk(&mut h, SeekFrom::Start(u64::MAX), &mut log);
            rd(&mut h, &mut buf, &mut log);
            let mut all = vec![];
            log.push(format!("{:?}", h.read_to_end(&mut all).map_err(|e| e.kind())));
        },
        1 => {
            sk(&mut h, SeekFrom::End(i64::MIN), &mut log);
            rd(&mut h, &mut buf, &mut log);
        },
        2 => {
            for _ in 0..3 {
                sk(&mut h, SeekFrom::Current(i64::MAX), &mut log);
            }
            rd(&mut h, &mut buf, &mut log);
        },
        3 => {
            sk(&mut h, SeekFrom::End(10), &mut log);
            let mut all = vec![];
            log.push(format!("{:?}", h.read_to_end(&mut all).map_err(|e| e.kind())));
            let len = h.seek(SeekFrom::End(0)).unwrap_or(0);
            sk(&mut h, SeekFrom::Start(len.saturating_add(10)), &mut log);
            rd(&mut h, &mut buf, &mut log);
        },
        4 => {
            sk(&mut h, SeekFrom::Start(2), &mut log);
            sk(&mut h, SeekFrom::Current(-5), &mut log);
            rd(&mut h, &mut buf, &mut log);
            sk(&mut h, SeekFrom::Current(i64::MIN), &mut log);
        },
        _ => {
            rd(&mut h, &mut [], &mut log);
            sk(&mut h, SeekFrom::End(-1), &mut log);
            let mut text = String::new();
            log.push(format!("{:?}", h.read_to_string(&mut text).map_err(|e| e.kind())));
            sk(&mut h, SeekFrom::End(0), &mut log);
            rd(&mut h, &mut buf, &mut log);
        },
    }
    Ok(log.join(" "))
}

fn apply_call(fs: &Memfs, c: &Call) -> Outcome {
    match c {
        Call::ReadSeek(p, v) => match catch_unwind(AssertUnwindSafe(|| read_seek(fs, p, *v))) {
            Ok(Ok(v)) => Outcome::okv(v),
            Ok(Err(e)) => Outcome { ok: false, val: String::new(), err: err_kind(&e), msg: e.to_string() },
            Err(e) => Outcome { ok: false, val: String::new(), err: "PANIC".into(), msg: panic_message(&e) },
        },
        Call::Op(o) => apply(fs, o),
        Call::ConfigDir(s) => match catch_unwind(AssertUnwindSafe(|| fs.config_dir(s))) {
            Ok(r) => Outcome::okv(format!("{:?}", r)),
            Err(e) => Outcome { ok: false, val: String::new(), err: "PANIC".into(), msg: panic_message(&e) },
        },
        Call::Entries(p, v) => {
            let r = catch_unwind(AssertUnwindSafe(|| -> RvResult<String> {
                let e = fs.entries(p)?;
                let e = match *v {
                    0 => e,
                    1 => e.follow(true),
                    2 => e.contents_first(),
                    3 => e.follow(true).contents_first().dirs_first().sort_by_name().min_depth(1),
                    4 => e.follow(true).verif_max_descriptors(0),
                    5 => e.files().files_first().sort_by_name().max_depth(1),
                    _ => e.dirs().max_depth(1).min_depth(2),
                };
                let (mut n, mut errs) = (0usize, 0usize);
                for x in e {
                    n += 1;
                    if n > ENTRIES_BUDGET {
                        return Ok(format!("<NONTERMINATING> after {} items", n));
                    }
                    if x.is_err() {
                        errs += 1;
                    }
                }
                Ok(format!("{} items, {} of them Err", n, errs))
            }));
            match r {
                Ok(Ok(v)) => Outcome::okv(v),
                Ok(Err(e)) => Outcome { ok: false, val: String::new(), err: err_kind(&e), msg: e.to_string() },
                Err(e) => Outcome { ok: false, val: String::new(), err: "PANIC".into(), msg: panic_message(&e) },
            }
        },
    }
}

/// the seven two-path calls for (a, b)
fn pair_calls(a: &str, b: &str, out: &mut Vec<Call>) {
    let (a, b) = (a.to_string(), b.to_string());
    out.push(Call::Op(Op::Copy(a.clone(), b.clone())));
    out.push(Call::Op(Op::MoveP(a.clone(), b.clone())));
    out.push(Call::Op(Op::Symlink(a.clone(), b.clone())));
    out.push(Call::Op(Op::CopyB(a.clone(), b.clone(), CopyMode::All(0o7777), false)));
    out.push(Call::Op(Op::CopyB(a.clone(), b.clone(), CopyMode::Dirs(u32::MAX), true)));
    out.push(Call::Op(Op::CopyB(a.clone(), b.clone(), CopyMode::Files(0), true)));
    out.push(Call::Op(Op::CopyB(a, b, CopyMode::None, true)));
}
const PAIR_CALLS: usize = 7;

/// every single-path call for the string `s`; the calls with bulky data are appended only when
/// `rich` (short strings and the odd inputs). The index into this list identifies the call.
fn single_calls(s: &str, rich: bool) -> Vec<Call> {
    single_calls_r(s, rich).0
}

/// as `single_calls`, also returning the index range of the calls with a fixed partner path
fn single_calls_r(s: &str, rich: bool) -> (Vec<Call>, std::ops::Range<usize>) {
    use Op::*;
    let p = || s.to_string();
    let mut v: Vec<Call> = Vec::with_capacity(160);
    let mut op = |o: Op| v.push(Call::Op(o));
    // mutators
    op(Mkfile(p()));
    op(MkfileM(p(), 0));
    op(MkfileM(p(), 0o7777));
    op(MkfileM(p(), u32::MAX));
    op(MkdirP(p()));
    op(MkdirM(p(), 0));
    op(MkdirM(p(), 0o7777));
    op(MkdirM(p(), u32::MAX));
    op(WriteAll(p(), b"x\n".to_vec()));
    op(WriteAll(p(), vec![0xff, 0xfe, 0x00, 0xc3]));
    op(WriteLines(p(), vec!["a".into(), "é".into()]));
    op(WriteLines(p(), vec![]));
    op(AppendAll(p(), b"x".to_vec()));
    op(AppendAll(p(), vec![0xff]));
    op(AppendLine(p(), "€".into()));
    op(AppendLine(p(), String::new()));
    op(AppendLines(p(), vec![String::new(), "a".into()]));
    op(WriteHandle(p(), vec![b"ab".to_vec(), vec![]], vec![true, false]));
    op(AppendHandle(p(), vec![vec![0xff], b"z".to_vec()], vec![false, true]));
    op(Remove(p()));
    op(RemoveAll(p()));
    op(SetCwd(p()));
    op(Chmod(p(), 0));
    op(Chmod(p(), 0o7777));
    op(Chmod(p(), u32::MAX));
    op(ChmodB(p(), ChmodSel::All(0o7777), true, true));
    op(ChmodB(p(), ChmodSel::Dirs(u32::MAX), false, false));
    op(ChmodB(p(), ChmodSel::Files(0), true, false));
    op(ChmodB(p(), ChmodSel::Sym("a:a+x".into()), true, true));
    op(ChmodB(p(), ChmodSel::Sym(p()), true, false));
    op(ChmodB(p(), ChmodSel::Readonly, false, true));
    op(ChmodB(p(), ChmodSel::Secure, true, false));
    // the string as the symbolic mode of a valid path
    op(ChmodB("/a".into(), ChmodSel::Sym(p()), true, false));
    op(ChmodB("/a/a".into(), ChmodSel::Sym(p()), false, true));
    op(ChmodB("/".into(), ChmodSel::Sym(p()), true, true));
    op(Chown(p(), 0, 0));
    op(Chown(p(), u32::MAX, u32::MAX));
    op(ChownB(p(), Some(0), None, true, true));
    op(ChownB(p(), None, Some(u32::MAX), false, false));
    op(ChownB(p(), None, None, true, false));
    // queries
    op(Abs(p()));
    op(AllDirs(p()));
    op(AllFiles(p()));
    op(AllPaths(p()));
    op(Cwd);
    op(Dirs(p()));
    op(EntriesSorted(p()));
    op(Entry(p()));
    op(Exists(p()));
    op(Files(p()));
    op(Gid(p()));
    op(IsDir(p()));
    op(IsExec(p()));
    op(IsFile(p()));
    op(IsReadonly(p()));
    op(IsSymlink(p()));
    op(IsSymlinkDir(p()));
    op(IsSymlinkFile(p()));
    op(Mode(p()));
    op(Owner(p()));
    op(Paths(p()));
    op(Read(p()));
    op(ReadAll(p()));
    op(ReadLines(p()));
    op(Readlink(p()));
    op(ReadlinkAbs(p()));
    op(Root);
    op(Uid(p()));
    // direct calls models::ops has no value for
    v.push(Call::ConfigDir(p()));
    for e in 0..ENTRIES_VARIANTS {
        v.push(Call::Entries(p(), e));
    }
    for e in 0..READSEEK_VARIANTS {
        v.push(Call::ReadSeek(p(), e));
    }
    // two-path methods with the string on either side of a fixed valid partner
    let p0 = v.len();
    for q in PARTNERS {
        pair_calls(s, q, &mut v);
        pair_calls(q, s, &mut v);
    }
    let partner = p0..v.len();
    if rich {
        let big = vec![0xABu8; 64 << 10];
        let mut op = |o: Op| v.push(Call::Op(o));
        op(WriteAll(p(), vec![]));
        op(WriteAll(p(), big.clone()));
        op(AppendAll(p(), vec![]));
        op(AppendAll(p(), big.clone()));
        op(WriteHandle(p(), vec![big.clone(), big.clone()], vec![true, true]));
        op(AppendHandle(p(), vec![big.clone()], vec![false]));
        op(WriteLines(p(), (0..2000).map(|i| format!("line {} €", i)).collect()));
        op(AppendLines(p(), vec!["😀".repeat(4000)]));
        op(AppendLine(p(), "\0\n\r".into()));
    }
    (v, partner)
}

#[derive(Clone, Copy, Debug, PartialEq, Eq)]
enum Part {
    Memfs1,
    Memfs2,
    Help1,
    Help2,
}

impl Part {
    fn name(&self) -> &'static str {
        match self {
            Part::Memfs1 => "memfs1",
            Part::Memfs2 => "memfs2",
            Part::Help1 => "help1",
            Part::Help2 => "help2",
        }
    }
    fn from(s: &str) -> Option<Part> {
        Some(match s {
            "memfs1" => Part::Memfs1,
            "memfs2" => Part::Memfs2,
            "help1" => Part::Help1,
            "help2" => Part::Help2,
            _ => return None,
        })
    }
}

fn gen_call(part: Part, args: &[String], k: usize) -> Option<Call> {
    match part {
        Part::Memfs1 => single_calls(&args[0], true).into_iter().nth(k),
        Part::Memfs2 => {
            let mut v = vec![];
            pair_calls(&args[0], &args[1], &mut v);
            v.into_iter().nth(k)
        },
        _ => None,
    }
}

// ---------------------------------------------------------------------------------------------
// Pre-states
// ---------------------------------------------------------------------------------------------
struct Pre {
    name: &'static str,
    setup: Vec<Op>,
    fs: Memfs,
    dump: Dump,
}

fn pre_states() -> Vec<Pre> {
    use Op::*;
    let specs: Vec<(&'static str, Vec<Op>)> = vec![
        ("fresh", vec![]),
        (
            "populated",
            vec![
                MkdirP("/a/é".into()),
                MkdirP("/a/.config".into()),
                WriteAll("/a/a".into(), b"hi\n".to_vec()),
                Chmod("/a/a".into(), 0o755),
                WriteAll("/é".into(), "é€\n".as_bytes().to_vec()),
                Symlink("/😀".into(), "/a".into()),
                Symlink("/a/:".into(), "/a/a".into()),
                Symlink("/{".into(), "/}".into()),
                // a link cycle that crosses subtrees: neither link points at one of its own ancestors
                MkdirP("/b".into()),
                Symlink("/a/é/x".into(), "/b".into()),
                Symlink("/b/y".into(), "/a/é".into()),
                // two links that point at each other, the first one made while its target was still a directory
                // (the kind recorded at creation is stale by now)
                MkdirP("/€".into()),
                Symlink("/ ".into(), "/€".into()),
                Remove("/€".into()),
                Symlink("/€".into(), "/ ".into()),
                SetCwd("/a".into()),
            ],
        ),
        ("cwd-removed", vec![MkdirP("/a/a/a".into()), SetCwd("/a/a/a".into()), RemoveAll("/a/a".into())]),
    ];
    specs
        .into_iter()
        .map(|(name, setup)| {
            let fs = Memfs::new();
            for op in &setup {
                let o = apply(&fs, op);
                if !o.ok {
                    eprintln!("machinery: C12 pre-state {:?} cannot be built: {} -> {}", name, op.render(), o.brief());
                    std::process::exit(2);
                }
            }
            let dump = fs.verif_dump();
            let broken = invariants::check(&dump);
            if !broken.is_empty() {
                eprintln!("machinery: C12 pre-state {:?} is malformed: {:?}", name, broken);
                std::process::exit(2);
            }
            Pre { name, setup, fs, dump }
        })
        .collect()
}

// ---------------------------------------------------------------------------------------------
// Executing one Memfs call with the full oracle
// ---------------------------------------------------------------------------------------------
struct Verdict {
    kind: &'static str, // "panic" | "hang" | "wedged-instance" | "C03-invariant"
    code: String,
    detail: String,
}

#[derive(Default)]
struct Local {
    calls_memfs: u64,
    calls_help: u64,
    nontrivial_memfs: u64,
    nontrivial_help: u64,
    errs: u64,
    changed: u64,
    probes_full: u64,
    probes_light: u64,
    invariant_checks: u64,
    panics: u64,
}

struct Exec {
    out: Outcome,
    changed: bool,
    verdicts: Vec<Verdict>,
}

/// the instance must still be usable: root exists, a fresh file can be created and removed
fn usable(fs: &Memfs) -> Result<(), String> {
    let r = catch_unwind(AssertUnwindSafe(|| -> Result<(), String> {
        if !fs.exists("/") {
            return Err("exists(\"/\") is false".into());
        }
        fs.mkfile(PROBE).map_err(|e| format!("mkfile({:?}) failed: {}", PROBE, e))?;
        fs.remove(PROBE).map_err(|e| format!("remove({:?}) failed: {}", PROBE, e))?;
        if fs.exists(PROBE) {
            return Err(format!("{} still exists after remove succeeded", PROBE));
        }
        Ok(())
    }));
    match r {
        Ok(x) => x,
        Err(e) => Err(format!("the probe itself panicked: {}", panic_message(&e))),
    }
}

fn exec(pre: &Pre, call: &Call, st: &mut Local) -> Exec {
    let fs = pre.fs.verif_deep_clone();
    let out = apply_call(&fs, call);
    st.calls_memfs += 1;
    let mut verdicts = vec![];
    let mut changed = false;
    if out.panicked() {
        st.panics += 1;
        verdicts.push(Verdict { kind: "panic", code: msg_class(&out.msg), detail: format!("the call panicked: {}", clip(&out.msg)) });
    }
    if out.ok && out.val.contains("<NONTERMINATING>") {
        verdicts.push(Verdict {
            kind: "hang",
            code: "iterator-step-budget".into(),
            detail: format!("the returned iterator did not end within {} steps", ENTRIES_BUDGET),
        });
    }
    let mut wedged: Vec<String> = vec![];
    if call.is_mutator() || out.panicked() {
        st.probes_full += 1;
        let d = fs.verif_dump();
        if d.poisoned {
            wedged.push("the filesystem lock is poisoned".into());
        }
        if d != pre.dump {
            changed = true;
            st.invariant_checks += 1;
            for (code, det) in invariants::check(&d) {
                if code == "I8-poisoned" || out.panicked() {
                    // poisoning is reported as wedged-instance; the half-applied state left behind
                    // by a panic is a consequence of the panic that is reported already
                    continue;
                }
                verdicts.push(Verdict { kind: "C03-invariant", code: code.to_string(), detail: format!("malformed namespace afterwards: {}", det) });
            }
        }
        if let Err(e) = usable(&fs) {
            wedged.push(e);
        }
    } else if !out.ok {
        st.probes_light += 1;
        if let Err(e) = usable(&fs) {
            wedged.push(e);
        }
    }
    if !wedged.is_empty() {
        verdicts.push(Verdict { kind: "wedged-instance", code: String::new(), detail: format!("the instance is no longer usable: {}", wedged.join("; ")) });
    }
    if !out.ok {
        st.errs += 1;
    }
    if changed {
        st.changed += 1;
    }
    if !out.ok || changed {
        st.nontrivial_memfs += 1;
    }
    Exec { out, changed, verdicts }
}

/// Greedy minimisation / canonicalisation of the argument strings while `still` holds (bounded
/// number of trials): characters that do not matter are replaced by 'a' or removed, so that the
/// abstract shape in the signature reflects only what the failure depends on.
fn shrink(args: &[String], still: &dyn Fn(&[String]) -> bool) -> Vec<String> {
    let mut cur: Vec<String> = args.to_vec();
    let mut trials = 0usize;
    let try_one = |cand: &Vec<String>, trials: &mut usize| -> bool {
        *trials += 1;
        *trials <= 400 && still(cand)
    };
    for _round in 0..3 {
        let before = cur.clone();
        // replace every occurrence of one character in all arguments at once
        let mut distinct: Vec<char> = cur.iter().filter(|a| a.len() <= 256).flat_map(|a| a.chars()).filter(|&c| c != 'a').collect();
        distinct.sort();
        distinct.dedup();
        for c in distinct {
            let cand: Vec<String> = cur.iter().map(|a| if a.len() <= 256 { a.replace(c, "a") } else { a.clone() }).collect();
            if cand != cur && try_one(&cand, &mut trials) {
                cur = cand;
            }
        }
        for ai in 0..cur.len() {
            // halve long strings first
            loop {
                let chars: Vec<char> = cur[ai].chars().collect();
                if chars.len() <= 12 {
                    break;
                }
                let mid = chars.len() / 2;
                let halves = [chars[..mid].iter().collect::<String>(), chars[mid..].iter().collect::<String>()];
                let mut done = true;
                for h in halves {
                    let mut cand = cur.clone();
                    cand[ai] = h;
                    if try_one(&cand, &mut trials) {
                        cur = cand;
                        done = false;
                        break;
                    }
                }
                if done {
                    break;
                }
            }
            if nchars(&cur[ai]) > 64 {
                continue;
            }
            // drop single characters
            let mut progress = true;
            while progress {
                progress = false;
                let chars: Vec<char> = cur[ai].chars().collect();
                for i in 0..chars.len() {
                    let mut c2 = chars.clone();
                    c2.remove(i);
                    let mut cand = cur.clone();
                    cand[ai] = c2.into_iter().collect();
                    if try_one(&cand, &mut trials) {
                        cur = cand;
                        progress = true;
                        break;
                    }
                }
            }
            // replace single characters by 'a'
            let chars: Vec<char> = cur[ai].chars().collect();
            for i in 0..chars.len() {
                if chars[i] == 'a' {
                    continue;
                }
                let mut c2: Vec<char> = cur[ai].chars().collect();
                c2[i] = 'a';
                let mut cand = cur.clone();
                cand[ai] = c2.into_iter().collect();
                if try_one(&cand, &mut trials) {
                    cur = cand;
                }
            }
        }
        if cur == before {
            break;
        }
    }
    cur
}

// ---------------------------------------------------------------------------------------------
// Path / string / iterator helpers as indexed micro-calls
// ---------------------------------------------------------------------------------------------
const H_TRIVIAL: u8 = 0;
const H_NONTRIVIAL: u8 = 1;
const H_BUDGET: u8 = 2;
const H_SKIPPED: u8 = 3;

const H1_FIXED: usize = 41;
const H1_DROP0: usize = H1_FIXED; // 7 values of n
const H1_SLICE0: usize = H1_DROP0 + 7; // 49 pairs (l, r)
const H1_N: usize = H1_SLICE0 + 49;
const H2_N: usize = 18;

fn nt(b: bool) -> u8 {
    if b {
        H_NONTRIVIAL
    } else {
        H_TRIVIAL
    }
}

fn drain<I: Iterator>(it: I, budget: usize) -> Option<usize> {
    let mut n = 0usize;
    for _ in it {
        n += 1;
        if n > budget {
            return None;
        }
    }
    Some(n)
}

fn help1_name(k: usize) -> String {
    const N: [&str; H1_FIXED] = [
        "sys::base",
        "sys::clean",
        "sys::dir",
        "sys::expand",
        "sys::ext",
        "sys::first",
        "sys::name",
        "sys::is_empty",
        "sys::last",
        "sys::parse_paths",
        "sys::trim_ext",
        "sys::trim_first",
        "sys::trim_last",
        "sys::trim_protocol",
        "sys::home_dir",
        "PathExt::base",
        "PathExt::clean",
        "PathExt::dir",
        "PathExt::expand",
        "PathExt::ext",
        "PathExt::first",
        "PathExt::is_empty",
        "PathExt::last",
        "PathExt::name",
        "PathExt::trim_ext",
        "PathExt::trim_first",
        "PathExt::trim_last",
        "PathExt::trim_protocol",
        "StringExt::size(str)",
        "StringExt::to_bool(str)",
        "StringExt::size(String)",
        "StringExt::to_bool(String)",
        "ToStringExt::to_string(Path)",
        "ToStringExt::to_string(OsStr)",
        "ToStringExt::to_string(Component)",
        "IteratorExt::first",
        "IteratorExt::first_result",
        "IteratorExt::last_result",
        "IteratorExt::single",
        "IteratorExt::some",
        "IteratorExt::consume",
    ];
    if k < H1_FIXED {
        N[k].to_string()
    } else if k < H1_SLICE0 {
        format!("IteratorExt::drop({})", (k - H1_DROP0) as isize - 3)
    } else {
        let x = k - H1_SLICE0;
        format!("IteratorExt::slice({}, {})", (x / 7) as isize - 3, (x % 7) as isize - 3)
    }
}

/// run helper micro-call k on s; the result code says whether it was trivial
fn help1_call(s: &str, k: usize) -> u8 {
    let p = Path::new(s);
    let os = OsStr::new(s);
    let differs = |x: &Path| x.as_os_str() != os;
    let comps = || p.components();
    let budget = s.len() + 4;
    match k {
        0 => nt(sys::base(s).is_err()),
        1 => nt(differs(&sys::clean(s))),
        2 => nt(sys::dir(s).is_err()),
        3 => nt(sys::expand(s).map(|x| differs(&x)).unwrap_or(true)),
        4 => nt(sys::ext(s).is_err()),
        5 => nt(sys::first(s).is_err()),
        6 => nt(sys::name(s).is_err()),
        7 => nt(sys::is_empty(s)),
        8 => nt(sys::last(s).is_err()),
        9 => nt(sys::parse_paths(s).map(|v| v.len() != 1).unwrap_or(true)),
        10 => nt(sys::trim_ext(s).map(|x| differs(&x)).unwrap_or(true)),
        11 => nt(differs(&sys::trim_first(s))),
        12 => nt(differs(&sys::trim_last(s))),
        13 => nt(differs(&sys::trim_protocol(s))),
        14 => nt(sys::home_dir().is_err()),
        15 => nt(PathExt::base(p).is_err()),
        16 => nt(differs(&PathExt::clean(p))),
        17 => nt(PathExt::dir(p).is_err()),
        18 => nt(PathExt::expand(p).map(|x| differs(&x)).unwrap_or(true)),
        19 => nt(PathExt::ext(p).is_err()),
        20 => nt(PathExt::first(p).is_err()),
        21 => nt(PathExt::is_empty(p)),
        22 => nt(PathExt::last(p).is_err()),
        23 => nt(PathExt::name(p).is_err()),
        24 => nt(PathExt::trim_ext(p).map(|x| differs(&x)).unwrap_or(true)),
        25 => nt(differs(&PathExt::trim_first(p))),
        26 => nt(differs(&PathExt::trim_last(p))),
        27 => nt(differs(&PathExt::trim_protocol(p))),
        28 => nt(StringExt::size(s) != s.len()),
        29 => nt(!StringExt::to_bool(s)),
        30 => nt(StringExt::size(&s.to_string()) != s.len()),
        31 => nt(!StringExt::to_bool(&s.to_string())),
        32 => nt(ToStringExt::to_string(p).is_err()),
        33 => nt(ToStringExt::to_string(os).is_err()),
        34 => {
            let mut any_err = false;
            let mut n = 0usize;
            for c in comps() {
                n += 1;
                if n > budget {
                    return H_BUDGET;
                }
                any_err |= ToStringExt::to_string(&c).is_err();
            }
            nt(any_err || n != 1)
        },
        35 => nt(IteratorExt::first(comps()).is_none()),
        36 => nt(IteratorExt::first_result(comps()).is_err()),
        37 => nt(IteratorExt::last_result(comps()).is_err()),
        38 => nt(IteratorExt::single(comps()).is_err()),
        39 => nt(!IteratorExt::some(comps())),
        40 => match drain(IteratorExt::consume(comps()), budget) {
            Some(n) => nt(n != 0),
            None => H_BUDGET,
        },
        _ if k < H1_SLICE0 => {
            let n = (k - H1_DROP0) as isize - 3;
            match drain(IteratorExt::drop(comps(), n), budget) {
                Some(left) => nt(n != 0 && left != comps().count()),
                None => H_BUDGET,
            }
        },
        _ if k < H1_N => {
            let x = k - H1_SLICE0;
            let (l, r) = ((x / 7) as isize - 3, (x % 7) as isize - 3);
            let len = comps().count() as isize;
            // (outside the documented domain of slice - C19: l >= -len - the result is not looked at, but the call
            // still has to return: totality has no precondition)
            match drain(IteratorExt::slice(comps(), l, r), budget) {
                Some(_) if l < -len => H_SKIPPED,
                Some(left) => nt(left as isize != len),
                None => H_BUDGET,
            }
        },
        _ => H_SKIPPED,
    }
}

fn help2_name(k: usize) -> &'static str {
    const N: [&str; H2_N] = [
        "sys::concat",
        "sys::has",
        "sys::has_prefix",
        "sys::has_suffix",
        "sys::mash",
        "sys::relative",
        "sys::trim_prefix",
        "sys::trim_suffix",
        "PathExt::concat",
        "PathExt::has",
        "PathExt::has_prefix",
        "PathExt::has_suffix",
        "PathExt::mash",
        "PathExt::relative",
        "PathExt::trim_prefix",
        "PathExt::trim_suffix",
        "StringExt::trim_suffix(str)",
        "StringExt::trim_suffix(String)",
    ];
    N.get(k).copied().unwrap_or("?")
}

fn help2_call(a: &str, b: &str, k: usize) -> u8 {
    let p = Path::new(a);
    let differs = |x: &Path| x.as_os_str() != OsStr::new(a);
    match k {
        0 => nt(sys::concat(a, b).is_err()),
        1 => nt(sys::has(a, b)),
        2 => nt(sys::has_prefix(a, b)),
        3 => nt(sys::has_suffix(a, b)),
        4 => nt(differs(&sys::mash(a, b))),
        5 => nt(sys::relative(a, b).is_err()),
        6 => nt(differs(&sys::trim_prefix(a, b))),
        7 => nt(differs(&sys::trim_suffix(a, b))),
        8 => nt(PathExt::concat(p, b).is_err()),
        9 => nt(PathExt::has(p, b)),
        10 => nt(PathExt::has_prefix(p, b)),
        11 => nt(PathExt::has_suffix(p, b)),
        12 => nt(differs(&PathExt::mash(p, b))),
        13 => nt(PathExt::relative(p, b).is_err()),
        14 => nt(differs(&PathExt::trim_prefix(p, b))),
        15 => nt(differs(&PathExt::trim_suffix(p, b))),
        16 => nt(StringExt::trim_suffix(a, b) != a),
        17 => nt(StringExt::trim_suffix(&a.to_string(), b) != a),
        _ => H_SKIPPED,
    }
}

fn helper_name(part: Part, k: usize) -> String {
    match part {
        Part::Help1 => help1_name(k),
        _ => help2_name(k).to_string(),
    }
}

/// Some(Ok(code)) normal, Some(Err(msg)) panic
fn helper_run(part: Part, args: &[String], k: usize) -> Result<u8, String> {
    let r = catch_unwind(AssertUnwindSafe(|| match part {
        Part::Help1 => help1_call(&args[0], k),
        _ => help2_call(&args[0], &args[1], k),
    }));
    r.map_err(|e| panic_message(&e))
}

// ---------------------------------------------------------------------------------------------
// The plan: segments of work items
// ---------------------------------------------------------------------------------------------
#[derive(Clone, Debug)]
struct Seg {
    part: Part,
    state: usize,
    lmax: u32,
    /// enumerated strings longer than this are processed only when they contain '~' (the HOME-unset
    /// variant differs from the HOME-set one only on those); u32::MAX = no restriction
    tilde_above: u32,
    /// strings come from SHAPE_ALPHA instead of ALPHA
    shape: bool,
}

fn plan(variant: &str, tier: Tier) -> Vec<Seg> {
    let mut v = vec![];
    let all = u32::MAX;
    if variant == V_SET {
        let (l0, l12, lp, lh, lhp) = match tier {
            Tier::Quick => (4, 4, 2, 4, 3),
            Tier::Thorough => (6, 5, 3, 6, 3),
        };
        v.push(Seg { part: Part::Help1, state: 0, lmax: lh, tilde_above: all, shape: false });
        v.push(Seg { part: Part::Help1, state: 0, lmax: match tier {
            Tier::Quick => 7,
            Tier::Thorough => 9,
        }, tilde_above: all, shape: true });
        v.push(Seg { part: Part::Help2, state: 0, lmax: lhp, tilde_above: all, shape: false });
        for st in 0..3 {
            v.push(Seg { part: Part::Memfs2, state: st, lmax: lp, tilde_above: all, shape: false });
        }
        v.push(Seg { part: Part::Memfs1, state: 1, lmax: l12, tilde_above: all, shape: false });
        v.push(Seg { part: Part::Memfs1, state: 2, lmax: l12, tilde_above: all, shape: false });
        v.push(Seg { part: Part::Memfs1, state: 0, lmax: l0, tilde_above: all, shape: false });
    } else {
        let (l, ta, lp) = match tier {
            Tier::Quick => (4, 3, 2),
            Tier::Thorough => (5, 4, 2),
        };
        v.push(Seg { part: Part::Help1, state: 0, lmax: l, tilde_above: ta, shape: false });
        for st in 0..3 {
            v.push(Seg { part: Part::Memfs2, state: st, lmax: lp, tilde_above: all, shape: false });
        }
        for st in [1, 2, 0] {
            v.push(Seg { part: Part::Memfs1, state: st, lmax: l, tilde_above: ta, shape: false });
        }
    }
    v
}

fn seg_text(s: &Seg, pres: &[Pre]) -> String {
    let t = if s.tilde_above == u32::MAX { String::new() } else { format!(" (longer than {} only when containing '~')", s.tilde_above) };
    match s.part {
        Part::Memfs1 => format!(
            "every Memfs method x strings len<={}{} + odd inputs, pre-state {}{}",
            s.lmax,
            t,
            pres[s.state].name,
            if s.lmax as usize > LONG_NO_PARTNER { format!(" (strings longer than {}: without the two-path calls against fixed partners)", LONG_NO_PARTNER) } else { String::new() }
        ),
        Part::Memfs2 => format!("copy/move_p/symlink/copy_b x all pairs of strings len<={} (+ odd inputs paired with len<=1 and each other), pre-state {}", s.lmax, pres[s.state].name),
        Part::Help1 if s.shape => format!("one-argument helpers x strings len<={} over the path-shape alphabet {:?}", s.lmax, SHAPE_ALPHA),
        Part::Help1 => format!("one-argument helpers x strings len<={}{} + odd inputs", s.lmax, t),
        Part::Help2 => format!("two-argument helpers x all pairs of (strings len<={} + odd inputs)", s.lmax),
    }
}

#[repr(align(64))]
struct Pad(AtomicU32);

/// counters (the first ten mirror the fields of `Local`)
const COUNTER_NAMES: [&str; 18] = [
    "calls_memfs",
    "calls_help",
    "nontrivial_memfs",
    "nontrivial_help",
    "memfs_err",
    "memfs_changed_state",
    "probes_full",
    "probes_light",
    "invariant_checks",
    "panics",
    "strings_memfs1_fresh",
    "strings_memfs1_populated",
    "strings_memfs1_cwd-removed",
    "pairs_memfs2_fresh",
    "pairs_memfs2_populated",
    "pairs_memfs2_cwd-removed",
    "strings_help1",
    "pairs_help2",
];

struct Run {
    variant: &'static str,
    in_worker: bool,
    plan: Vec<Seg>,
    universes: Vec<Universe>,
    pres: Vec<Pre>,
    odd: Arc<Vec<String>>,
    progress: Arc<Progress>,
    /// helper micro-call index per slot (for the hang report)
    cursor: Vec<Pad>,
    /// the case a slot is re-executing while it minimises a violation (for the hang report)
    trial: Vec<Mutex<Option<(Part, usize, Vec<String>, usize)>>>,
    counters: Vec<AtomicU64>,
    /// violations found by this process: signature -> (count, detail, case)
    found: Mutex<BTreeMap<String, (u64, String, J)>>,
    samples: Mutex<Vec<J>>,
    /// (function, kind, code, shape of the raw arguments) -> signature obtained by minimising the
    /// first such instance; later instances of the same class are counted under that signature
    /// without being minimised again (keeps a badly broken tree from blowing the time budget)
    sig_cache: Mutex<BTreeMap<String, String>>,
}

impl Run {
    fn new(variant: &'static str, tier: Tier, in_worker: bool) -> Run {
        let odd = Arc::new(odd_inputs());
        let plan = plan(variant, tier);
        let universes = plan.iter().map(|s| if s.shape { Universe::shapes(s.lmax) } else { Universe::new(s.lmax, &odd) }).collect();
        Run {
            variant,
            in_worker,
            plan,
            universes,
            pres: pre_states(),
            odd,
            progress: Progress::new(),
            cursor: (0..MAX_SLOTS).map(|_| Pad(AtomicU32::new(0))).collect(),
            trial: (0..MAX_SLOTS).map(|_| Mutex::new(None)).collect(),
            counters: (0..COUNTER_NAMES.len()).map(|_| AtomicU64::new(0)).collect(),
            found: Mutex::new(BTreeMap::new()),
            samples: Mutex::new(vec![]),
            sig_cache: Mutex::new(BTreeMap::new()),
        }
    }

    fn items(&self, si: usize) -> u64 {
        let n = self.universes[si].len();
        match self.plan[si].part {
            Part::Memfs1 | Part::Help1 => n,
            Part::Memfs2 | Part::Help2 => n * n,
        }
    }

    fn add(&self, counter: usize, n: u64) {
        if n > 0 {
            self.counters[counter].fetch_add(n, Ordering::Relaxed);
        }
    }

    fn flush_local(&self, l: &Local) {
        for (i, v) in [l.calls_memfs, l.calls_help, l.nontrivial_memfs, l.nontrivial_help, l.errs, l.changed, l.probes_full, l.probes_light, l.invariant_checks, l.panics].into_iter().enumerate() {
            self.add(i, v);
        }
    }

    fn counter_map(&self) -> BTreeMap<String, u64> {
        COUNTER_NAMES.iter().enumerate().map(|(i, k)| (k.to_string(), self.counters[i].load(Ordering::Relaxed))).filter(|(_, v)| *v > 0).collect()
    }

    fn violation(&self, sig: String, detail: String, case: J) {
        let detail: String = detail.chars().map(|c| if c.is_control() { '\u{fffd}' } else { c }).collect();
        if self.in_worker {
            let mut g = self.found.lock().unwrap_or_else(|e| e.into_inner());
            match g.get_mut(&sig) {
                Some(r) => r.0 += 1,
                None => {
                    g.insert(sig, (1, detail, case));
                },
            }
        } else {
            vio(&sig, || detail, || case);
        }
    }

    fn case_json(&self, seg: &Seg, args: &[String], k: usize, what: &str, found_on: &[String]) -> J {
        J::obj([
            ("part", J::s(seg.part.name())),
            ("env", J::s(self.variant)),
            ("state", J::i(seg.state as i64)),
            ("state_desc", J::s(format!("{}: {}", self.pres[seg.state].name, self.pres[seg.state].setup.iter().map(|o| o.render()).collect::<Vec<_>>().join("; ")))),
            ("args", J::strs(args.iter())),
            ("k", J::i(k as i64)),
            ("call", J::s(what)),
            ("found_on_args", J::arr(found_on.iter().map(|a| J::s(clip(a))))),
        ])
    }
}

const TRIAL_MARK: u64 = u64::MAX;

/// Run one re-execution (minimisation trial) with the watchdog armed on exactly these arguments
fn guarded<T>(run: &Run, slot: usize, part: Part, state: usize, args: &[String], k: usize, f: impl FnOnce() -> T) -> T {
    *run.trial[slot].lock().unwrap_or_else(|e| e.into_inner()) = Some((part, state, args.to_vec(), k));
    run.progress.begin(slot, TRIAL_MARK);
    let r = f();
    run.progress.end(slot);
    *run.trial[slot].lock().unwrap_or_else(|e| e.into_inner()) = None;
    r
}

fn contains_tilde(s: &str) -> bool {
    s.contains('~')
}

/// Process work item `idx` of segment `si`
fn process_item(run: &Run, si: usize, idx: u64, slot: usize) {
    let seg = &run.plan[si];
    let u = &run.universes[si];
    let mut st = Local::default();
    match seg.part {
        Part::Memfs1 => {
            let mut s = String::new();
            u.get(idx, &mut s);
            if !u.is_odd(idx) && nchars(&s) as u32 > seg.tilde_above && !contains_tilde(&s) {
                return;
            }
            let rich = u.is_odd(idx) || nchars(&s) <= 2;
            let (calls, partner) = single_calls_r(&s, rich);
            // the longest enumerated strings (length > LONG_NO_PARTNER) skip the calls with a fixed partner path
            let no_partner = !u.is_odd(idx) && nchars(&s) > LONG_NO_PARTNER;
            let pre = &run.pres[seg.state];
            for (k, c) in calls.iter().enumerate() {
                if no_partner && partner.contains(&k) {
                    continue;
                }
                run.progress.begin(slot, case_id(si, k, idx, 0));
                let ex = exec(pre, c, &mut st);
                run.progress.end(slot);
                if !ex.verdicts.is_empty() {
                    report_memfs(run, seg, &[s.clone()], k, &ex, slot);
                }
                if idx % 2477 == 11 && k % 9 == 4 {
                    sample(run, seg, c, &ex);
                }
            }
            run.add(10 + seg.state, 1);
        },
        Part::Memfs2 => {
            let n = u.len();
            let (i, j) = (idx / n, idx % n);
            let (mut a, mut b) = (String::new(), String::new());
            u.get(i, &mut a);
            u.get(j, &mut b);
            // odd inputs are paired with the strings of length <= 1 and with each other only
            if (u.is_odd(i) && !u.is_odd(j) && nchars(&b) > 1) || (u.is_odd(j) && !u.is_odd(i) && nchars(&a) > 1) {
                return;
            }
            let mut calls = Vec::with_capacity(PAIR_CALLS);
            pair_calls(&a, &b, &mut calls);
            let pre = &run.pres[seg.state];
            for (k, c) in calls.iter().enumerate() {
                run.progress.begin(slot, case_id(si, k, i, j));
                let ex = exec(pre, c, &mut st);
                run.progress.end(slot);
                if !ex.verdicts.is_empty() {
                    report_memfs(run, seg, &[a.clone(), b.clone()], k, &ex, slot);
                }
                if idx % 7919 == 13 && k == (idx % 7) as usize {
                    sample(run, seg, c, &ex);
                }
            }
            run.add(13 + seg.state, 1);
        },
        Part::Help1 => {
            let mut s = String::new();
            u.get(idx, &mut s);
            if !u.is_odd(idx) && nchars(&s) as u32 > seg.tilde_above && !contains_tilde(&s) {
                return;
            }
            let args = [s];
            let case = case_id(si, 0, idx, 0);
            run.progress.begin(slot, case);
            for k in 0..H1_N {
                run.cursor[slot].0.store(k as u32, Ordering::Relaxed);
                helper_step(run, seg, &args, k, &mut st, slot, case);
            }
            run.progress.end(slot);
            run.add(16, 1);
        },
        Part::Help2 => {
            let n = u.len();
            let (i, j) = (idx / n, idx % n);
            let (mut a, mut b) = (String::new(), String::new());
            u.get(i, &mut a);
            u.get(j, &mut b);
            let args = [a, b];
            let case = case_id(si, 0, i, j);
            run.progress.begin(slot, case);
            for k in 0..H2_N {
                run.cursor[slot].0.store(k as u32, Ordering::Relaxed);
                helper_step(run, seg, &args, k, &mut st, slot, case);
            }
            run.progress.end(slot);
            run.add(17, 1);
        },
    }
    run.flush_local(&st);
}

fn helper_step(run: &Run, seg: &Seg, args: &[String], k: usize, st: &mut Local, slot: usize, case: u64) {
    match helper_run(seg.part, args, k) {
        Ok(H_SKIPPED) => {},
        Ok(code) => {
            st.calls_help += 1;
            if code == H_NONTRIVIAL {
                st.nontrivial_help += 1;
            }
            if code == H_BUDGET {
                let name = helper_name(seg.part, k);
                let sig = format!("{} hang iterator-step-budget", name);
                let detail = format!("{} on {:?}: the returned iterator did not end within the step budget (env {})", name, args.iter().map(|a| clip(a)).collect::<Vec<_>>(), run.variant);
                run.violation(sig, detail, run.case_json(seg, args, k, &name, args));
            }
        },
        Err(msg) => {
            st.calls_help += 1;
            st.panics += 1;
            let name = helper_name(seg.part, k);
            let part = seg.part;
            let ckey = format!("{}|panic|{}|{}", name, msg_class(&msg), shapes(args));
            if let Some(sig) = run.sig_cache.lock().unwrap_or_else(|e| e.into_inner()).get(&ckey).cloned() {
                run.violation(sig, String::new(), J::Null);
                return;
            }
            // the enclosing item keeps its slot busy on the original case; trials run under their own mark
            let small = shrink(args, &|a: &[String]| guarded(run, slot, part, 0, a, k, || helper_run(part, a, k).is_err()));
            let msg2 = helper_run(part, &small, k).err().unwrap_or(msg);
            run.progress.begin(slot, case);
            let sig = format!("{} panic {} · {}", name, shapes(&small), msg_class(&msg2));
            let detail = format!(
                "{}({}) panicked: {} (env {}; minimised from {:?})",
                name,
                small.iter().map(|a| format!("{:?}", clip(a))).collect::<Vec<_>>().join(", "),
                clip(&msg2),
                run.variant,
                args.iter().map(|a| clip(a)).collect::<Vec<_>>()
            );
            run.violation(sig.clone(), detail, run.case_json(seg, &small, k, &name, args));
            run.sig_cache.lock().unwrap_or_else(|e| e.into_inner()).insert(ckey, sig);
        },
    }
}

fn sample(run: &Run, seg: &Seg, c: &Call, ex: &Exec) {
    let mut g = run.samples.lock().unwrap_or_else(|e| e.into_inner());
    if g.len() < 400 {
        g.push(J::obj([
            ("pre_state", J::s(run.pres[seg.state].name)),
            ("env", J::s(run.variant)),
            ("call", J::s(c.render())),
            ("outcome", J::s(clip(&ex.out.brief()))),
            ("state_changed", J::Bool(ex.changed)),
        ]));
    }
}

fn report_memfs(run: &Run, seg: &Seg, args: &[String], k: usize, ex: &Exec, slot: usize) {
    let pre = &run.pres[seg.state];
    let part = seg.part;
    let raw_name = gen_call(part, args, k).map(|c| c.name()).unwrap_or("?");
    for v in &ex.verdicts {
        let ckey = format!("{}|{}|{}|{}|{}", raw_name, v.kind, v.code, if ex.out.ok { "ok" } else { "err" }, shapes(args));
        if let Some(sig) = run.sig_cache.lock().unwrap_or_else(|e| e.into_inner()).get(&ckey).cloned() {
            run.violation(sig, String::new(), J::Null);
            continue;
        }
        let same = |a: &[String]| -> bool {
            match gen_call(part, a, k) {
                Some(c) => guarded(run, slot, part, seg.state, a, k, || exec(pre, &c, &mut Local::default()).verdicts.iter().any(|w| w.kind == v.kind && w.code == v.code)),
                None => false,
            }
        };
        let small = shrink(args, &same);
        let c2 = match gen_call(part, &small, k) {
            Some(c) => c,
            None => continue,
        };
        let ex2 = exec(pre, &c2, &mut Local::default());
        let v2 = ex2.verdicts.iter().find(|w| w.kind == v.kind && w.code == v.code).unwrap_or(v);
        let sig = match v.kind {
            "C03-invariant" => format!("C03-invariant {} after {} {}", v.code, c2.name(), if ex2.out.ok { "ok" } else { "err" }),
            "panic" => format!("{} panic {} · {}", c2.name(), shapes(&small), v.code),
            "hang" => format!("{} hang {}", c2.name(), v.code),
            _ => format!("{} {}", c2.name(), v.kind),
        };
        let detail = format!(
            "pre-state {} [{}], env {}: {} -> {}; {} (minimised from arguments {:?})",
            pre.name,
            pre.setup.iter().map(|o| o.render()).collect::<Vec<_>>().join("; "),
            run.variant,
            c2.render(),
            clip(&ex2.out.brief()),
            v2.detail,
            args.iter().map(|a| clip(a)).collect::<Vec<_>>()
        );
        run.violation(sig.clone(), detail, run.case_json(seg, &small, k, &c2.render(), args));
        run.sig_cache.lock().unwrap_or_else(|e| e.into_inner()).insert(ckey, sig);
    }
}

// ---------------------------------------------------------------------------------------------
// Hang handling
// ---------------------------------------------------------------------------------------------
fn case_id(si: usize, k: usize, i: u64, j: u64) -> u64 {
    ((si as u64 & 0x3f) << 58) | ((k as u64 & 0x3ff) << 48) | ((i & 0xff_ffff) << 24) | (j & 0xff_ffff)
}

fn decode_case(run: &Run, slot: usize, case: u64) -> (Seg, Vec<String>, usize, String) {
    if case == TRIAL_MARK {
        if let Some((part, state, args, k)) = run.trial[slot].lock().unwrap_or_else(|e| e.into_inner()).clone() {
            let seg = Seg { part, state, lmax: 0, tilde_above: u32::MAX, shape: false };
            let name = match part {
                Part::Memfs1 | Part::Memfs2 => gen_call(part, &args, k).map(|c| c.name().to_string()).unwrap_or("?".into()),
                _ => helper_name(part, k),
            };
            return (seg, args, k, name);
        }
    }
    let si = (case >> 58) as usize;
    let mut k = ((case >> 48) & 0x3ff) as usize;
    let i = (case >> 24) & 0xff_ffff;
    let j = case & 0xff_ffff;
    let seg = run.plan[si.min(run.plan.len() - 1)].clone();
    let u = &run.universes[si.min(run.plan.len() - 1)];
    let mut a = String::new();
    u.get(i.min(u.len() - 1), &mut a);
    let mut args = vec![a];
    if matches!(seg.part, Part::Memfs2 | Part::Help2) {
        let mut b = String::new();
        u.get(j.min(u.len() - 1), &mut b);
        args.push(b);
    }
    let what = match seg.part {
        Part::Memfs1 | Part::Memfs2 => gen_call(seg.part, &args, k).map(|c| (c.name().to_string(), c.render())),
        _ => {
            k = run.cursor[slot].0.load(Ordering::Relaxed) as usize;
            Some((helper_name(seg.part, k), helper_name(seg.part, k)))
        },
    };
    let (name, render) = what.unwrap_or(("?".into(), "?".into()));
    let _ = render;
    (seg, args, k, name)
}

fn on_hang(run: &Run, slot: usize, case: u64, secs: u64) -> ! {
    let (seg, args, k, name) = decode_case(run, slot, case);
    let sig = format!("{} hang", name);
    let what = match seg.part {
        Part::Memfs1 | Part::Memfs2 => gen_call(seg.part, &args, k).map(|c| c.render()).unwrap_or_default(),
        _ => format!("{}({})", name, args.iter().map(|a| format!("{:?}", clip(a))).collect::<Vec<_>>().join(", ")),
    };
    let why = if secs == 0 { format!("was still running when the resident memory of the process exceeded {} MiB", RSS_CAP_MIB) } else { format!("did not return within {} s", secs) };
    let detail = format!("pre-state {}, env {}: {} {} (the call is still running; the process is terminated)", run.pres[seg.state].name, run.variant, what, why);
    let case = run.case_json(&seg, &args, k, &what, &args);
    eprintln!("HANG: {}", detail);
    if run.in_worker {
        // hand everything found so far plus the hang to the parent, then terminate this worker
        let out = std::io::stdout();
        let mut o = out.lock();
        let found = run.found.lock().unwrap_or_else(|e| e.into_inner());
        for (s, (n, d, c)) in found.iter() {
            let _ = writeln!(o, "V\t{}", J::obj([("sig", J::s(s)), ("n", J::i(*n)), ("detail", J::s(d)), ("case", c.clone())]).to_string());
        }
        let _ = writeln!(o, "V\t{}", J::obj([("sig", J::s(&sig)), ("n", J::i(1)), ("detail", J::s(&detail)), ("case", case)]).to_string());
        let _ = writeln!(o, "DONE");
        let _ = o.flush();
        std::process::exit(0);
    }
    vio(&sig, || detail.clone(), || case.clone());
    let code = crate::props::hang_exit(PROP, &sig);
    std::process::exit(code);
}

fn hang_secs(tier: Tier) -> u64 {
    tier.pick(10, 30)
}

const RSS_CAP_MIB: u64 = 6144;

fn start_watchdog(run: &Arc<Run>, tier: Tier) -> Arc<std::sync::atomic::AtomicBool> {
    let r2 = run.clone();
    let secs = hang_secs(tier);
    let stop = spawn_watchdog(run.progress.clone(), std::time::Duration::from_secs(secs), move |slot, case| on_hang(&r2, slot, case, secs));
    // memory guard: a call that allocates without bound is a call that does not return in bounded
    // time; blame the slot that has been inside one call for the whole last second
    let (r3, stop2) = (run.clone(), stop.clone());
    std::thread::spawn(move || {
        let mut last: Vec<u64> = vec![u64::MAX; MAX_SLOTS];
        while !stop2.load(Ordering::Relaxed) {
            std::thread::sleep(std::time::Duration::from_millis(1000));
            let over = rss_mib() > RSS_CAP_MIB;
            for slot in 0..MAX_SLOTS {
                let busy = r3.progress.busy[slot].load(Ordering::Acquire);
                let t = r3.progress.tick[slot].load(Ordering::Relaxed);
                if over && busy && last[slot] == t {
                    eprintln!("C12: resident memory above {} MiB while a call is running", RSS_CAP_MIB);
                    on_hang(&r3, slot, r3.progress.case[slot].load(Ordering::Relaxed), 0);
                }
                last[slot] = if busy { t } else { u64::MAX };
            }
        }
    });
    stop
}

// ---------------------------------------------------------------------------------------------
// Environment
// ---------------------------------------------------------------------------------------------
/// Only called while the process is single-threaded (start of `run`, replay)
fn set_env(variant: &str) {
    for k in ["XDG_CONFIG_HOME", "XDG_CONFIG_DIRS", "XDG_DATA_DIRS", "XDG_DATA_HOME", "XDG_CACHE_HOME", "XDG_STATE_HOME", "XDG_RUNTIME_DIR"] {
        std::env::remove_var(k);
    }
    std::env::set_var("a", "a");
    if variant == V_UNSET {
        std::env::remove_var("HOME");
    } else {
        std::env::set_var("HOME", HOME_SET);
    }
}

fn env_ok(variant: &str) -> bool {
    let home = std::env::var("HOME").ok();
    let a = std::env::var("a").ok();
    a.as_deref() == Some("a") && std::env::var_os("XDG_CONFIG_HOME").is_none() && if variant == V_UNSET { home.is_none() } else { home.as_deref() == Some(HOME_SET) }
}

// ---------------------------------------------------------------------------------------------
// Stale handles: a write()/append() handle is kept open while its path is removed, replaced by a
// link / directory / other file, moved or re-moded; then the handle is written, flushed and dropped.
// None of this may panic, and the instance must stay usable (no poisoned lock).
// ---------------------------------------------------------------------------------------------
fn stale_handles() -> Vec<(String, String)> {
    use std::io::Write;
    let mut out = vec![];
    let actions: Vec<(&str, Box<dyn Fn(&Memfs) -> RvResult<()>>)> = vec![
        ("remove(P)", Box::new(|fs| fs.remove("/d/f"))),
        ("remove(P); symlink(P, file)", Box::new(|fs| fs.remove("/d/f").and_then(|_| fs.symlink("/d/f", "/e").map(|_| ())))),
        ("remove(P); symlink(P, missing)", Box::new(|fs| fs.remove("/d/f").and_then(|_| fs.symlink("/d/f", "/zz").map(|_| ())))),
        ("remove(P); symlink(P, dir)", Box::new(|fs| fs.remove("/d/f").and_then(|_| fs.symlink("/d/f", "/t").map(|_| ())))),
        ("remove(P); mkdir_p(P)", Box::new(|fs| fs.remove("/d/f").and_then(|_| fs.mkdir_p("/d/f").map(|_| ())))),
        ("remove_all(parent)", Box::new(|fs| fs.remove_all("/d"))),
        ("move_p(P, sibling)", Box::new(|fs| fs.move_p("/d/f", "/d/g").map(|_| ()))),
        ("move_p(other file, P)", Box::new(|fs| fs.move_p("/e", "/d/f").map(|_| ()))),
        ("move_p(link, P)", Box::new(|fs| fs.symlink("/l", "/e").and_then(|_| fs.move_p("/l", "/d/f")).map(|_| ()))),
        ("chmod(P, 0o444)", Box::new(|fs| fs.chmod("/d/f", 0o444))),
        ("set_cwd(parent); remove_all(parent)", Box::new(|fs| fs.set_cwd("/d").and_then(|_| fs.remove_all("/d")))),
    ];
    for kind in ["write", "append"] {
        for (aname, act) in &actions {
            let fs = Memfs::new();
            let setup = catch_unwind(AssertUnwindSafe(|| -> RvResult<()> {
                fs.mkdir_p("/d")?;
                fs.mkdir_p("/t")?;
                fs.write_all("/d/f", b"old")?;
                fs.write_all("/e", b"e")?;
                Ok(())
            }));
            if !matches!(setup, Ok(Ok(()))) {
                out.push(("stale handle · setup failed".to_string(), format!("{:?}", setup.map(|r| r.map_err(|e| e.to_string())))));
                continue;
            }
            let opened = catch_unwind(AssertUnwindSafe(|| if kind == "write" { fs.write("/d/f") } else { fs.append("/d/f") }));
            let mut h = match opened {
                Ok(Ok(h)) => Some(h),
                other => {
                    out.push((format!("stale handle · {}(P) failed on a plain file", kind), format!("{:?}", other.map(|r| r.map(|_| ()).map_err(|e| e.to_string())).map_err(|p| panic_message(&p)))));
                    continue;
                },
            };
            let mut steps: Vec<String> = vec![format!("h = {}(\"/d/f\")", kind)];
            let mut bad: Option<String> = None;
            match catch_unwind(AssertUnwindSafe(|| act(&fs))) {
                Ok(_) => steps.push(aname.to_string()),
                Err(p) => bad = Some(format!("{} panicked: {}", aname, panic_message(&p))),
            }
            if bad.is_none() {
                for (step, f) in [("h.write_all(\"x\")", 0u8), ("h.flush()", 1u8)] {
                    let hh = h.as_mut().unwrap();
                    let r = catch_unwind(AssertUnwindSafe(|| if f == 0 { hh.write_all(b"x").map(|_| ()) } else { hh.flush() }));
                    steps.push(step.to_string());
                    if let Err(p) = r {
                        bad = Some(format!("{} panicked: {}", step, panic_message(&p)));
                        break;
                    }
                }
            }
            let hh = h.take();
            if let Err(p) = catch_unwind(AssertUnwindSafe(move || drop(hh))) {
                if bad.is_none() {
                    bad = Some(format!("drop(h) panicked: {}", panic_message(&p)));
                }
            }
            steps.push("drop(h)".to_string());
            if let Some(b) = bad {
                out.push((format!("stale {} handle · panic · after {}", kind, aname), format!("[{}]: {}", steps.join("; "), b)));
            }
            if let Err(e) = usable(&fs) {
                out.push((format!("stale {} handle · instance unusable afterwards · after {}", kind, aname), format!("[{}]: {}", steps.join("; "), e)));
            }
        }
    }
    out
}

// ---------------------------------------------------------------------------------------------
// Entry points
// ---------------------------------------------------------------------------------------------
pub fn run(ctx: &Ctx) -> i32 {
    quiet_panics();
    if let Some(p) = &ctx.replay {
        return replay(ctx, p);
    }
    // the process is still single-threaded here: fix the environment for the HOME-set sweep
    set_env(V_SET);
    if !env_ok(V_SET) {
        eprintln!("machinery: C12 could not establish its environment");
        return 2;
    }
    for (sig, detail) in stale_handles() {
        vio(&sig, || detail, || J::obj([("part", J::s("stale-handle"))]));
    }
    let run = Arc::new(Run::new(V_SET, ctx.tier, false));
    let wd = start_watchdog(&run, ctx.tier);
    let mut seg_reports = vec![];
    for si in 0..run.plan.len() {
        let t0 = std::time::Instant::now();
        let n = run.items(si);
        let chunk = match run.plan[si].part {
            Part::Memfs1 => 8,
            Part::Memfs2 => 64,
            Part::Help1 => 256,
            Part::Help2 => 1024,
        };
        let r = &run;
        par_for(ctx.threads, n, chunk, |slot, idx| process_item(r, si, idx, slot));
        let text = seg_text(&run.plan[si], &run.pres);
        println!("  [{}] {}: {} items, {:.1}s", V_SET, text, n, t0.elapsed().as_secs_f64());
        seg_reports.push(J::obj([("env", J::s(V_SET)), ("segment", J::s(text)), ("items", J::i(n))]));
    }
    wd.store(true, Ordering::Relaxed);

    // the same sweep with HOME unset, in single-threaded worker processes with an explicit environment
    let t0 = std::time::Instant::now();
    let mut g = Gathered::default();
    run_workers(
        ctx,
        &Launch { name: "c12".into(), nshards: ctx.threads.max(1) as u64, extra: vec![], uid: None, env: Some(vec![("a".to_string(), "a".to_string())]) },
        &mut g,
    );
    let hang_seen = vio_signatures().iter().any(|s| s.ends_with(" hang"));
    if !g.failed.is_empty() && !hang_seen {
        eprintln!("machinery: {}", g.failed.join("; "));
        return 2;
    }
    let unset_plan = plan(V_UNSET, ctx.tier);
    for s in &unset_plan {
        seg_reports.push(J::obj([("env", J::s(V_UNSET)), ("segment", J::s(seg_text(s, &run.pres)))]));
    }
    println!("  [{}] {} segments in {} worker processes, {:.1}s", V_UNSET, unset_plan.len(), ctx.threads, t0.elapsed().as_secs_f64());

    let own = run.counter_map();
    let c = |k: &str| own.get(k).copied().unwrap_or(0) + g.c(k);
    let evaluations = c("calls_memfs") + c("calls_help");
    let nontrivial = c("nontrivial_memfs") + c("nontrivial_help");
    let mut counters: BTreeMap<String, u64> = own.clone();
    for (k, v) in &g.counters {
        *counters.entry(k.clone()).or_insert(0) += v;
    }
    let mut samples: Vec<J> = {
        let all = run.samples.lock().unwrap();
        let step = (all.len() / 6).max(1);
        all.iter().step_by(step).take(6).cloned().collect()
    };
    samples.extend(g.samples.iter().take(3).cloned());
    let cov = J::obj([
        ("evaluations", J::i(evaluations)),
        ("distinct_nontrivial", J::i(nontrivial)),
        ("rule", J::s(
            "evaluations = calls made into rivia under catch_unwind (Memfs method calls, each on its own deep clone of the pre-state, plus path/string/iterator helper calls; the probe calls of the oracle are not counted). \
             Non-trivial = a Memfs call that returned Err or changed the complete state dump, or a helper call that returned Err / None / true-for-predicates / an output different from its input. \
             All (string, call) combinations are distinct by construction (odometer enumeration of the strings, fixed call list per string).",
        )),
        ("samples", J::Arr(samples)),
        ("exhaustive", J::Bool(true)),
        ("bounds", J::s(format!(
            "alphabet {:?} ({} symbols, 1-4 bytes each) + {} fixed long/odd inputs; single-path calls per string: {} (+{} bulky-data calls for strings of length <= 2 and the odd inputs); two-path calls per pair: {}; helper micro-calls per string: {}, per pair: {}; hang limit {} s per call, iterator step budget {}",
            ALPHA, ALPHA.len(), run.odd.len(), single_calls("a", false).len(), single_calls("a", true).len() - single_calls("a", false).len(), PAIR_CALLS, H1_N, H2_N, hang_secs(ctx.tier), ENTRIES_BUDGET
        ))),
        ("segments", J::Arr(seg_reports)),
        ("counters", crate::common::json::obj_from_map(&counters.iter().map(|(k, v)| (k.clone(), J::i(*v))).collect())),
        ("pre_states", J::arr(run.pres.iter().map(|p| J::s(format!("{}: {}", p.name, p.setup.iter().map(|o| o.render()).collect::<Vec<_>>().join("; ")))))),
    ]);
    let code = finish(ctx, Evidence {
        level: "exploration",
        coverage: cov,
        assumptions: vec![
            "bounded time = every call returns within the watchdog limit (10 s quick / 30 s thorough) on the enumerated inputs; returned iterators end within a step budget".into(),
            "strings beyond the length bound / other characters are covered only through the fixed list of long and odd inputs".into(),
            "query methods (read guard only) are probed for usability only after an Err or a panic; the complete dump is compared after every mutating call".into(),
            "the HOME-unset sweep enumerates all strings up to one symbol less than the HOME-set sweep and, at the full length, the strings containing '~' (HOME is consulted only through '~' expansion, home_dir and config_dir)".into(),
            "non UTF-8 path arguments are outside the statement (\"all UTF-8 inputs\") and are not fed".into(),
            format!("enumerated strings longer than {} symbols (thorough tier, fresh pre-state) are fed to the single-path calls only; the two-path methods see every string up to {} symbols against four fixed partners and all pairs up to the pair bound", LONG_NO_PARTNER, LONG_NO_PARTNER),
            "violating inputs are minimised before the signature is formed (characters that do not matter are removed or replaced by 'a'); the replay file stores the minimised arguments and the original ones".into(),
        ],
    });
    if code == 0 && hang_seen {
        1
    } else {
        code
    }
}

/// HOME-unset sweep: one single-threaded shard (environment given explicitly by the parent)
pub fn worker(w: &mut WorkerCtx) {
    if !env_ok(V_UNSET) {
        eprintln!("machinery: C12 worker environment is not the expected one");
        std::process::exit(2);
    }
    let run = Arc::new(Run::new(V_UNSET, w.tier, true));
    let wd = start_watchdog(&run, w.tier);
    for si in 0..run.plan.len() {
        let n = run.items(si);
        for idx in 0..n {
            if w.mine(idx) {
                process_item(&run, si, idx, 0);
            }
        }
    }
    wd.store(true, Ordering::Relaxed);
    for (k, v) in run.counter_map().iter() {
        w.count(k, *v);
    }
    let found = std::mem::take(&mut *run.found.lock().unwrap());
    for (sig, (n, detail, case)) in found {
        for _ in 0..n.min(1000) {
            let (d, c) = (detail.clone(), case.clone());
            w.vio(&sig, move || d, move || c);
        }
    }
    let all = run.samples.lock().unwrap();
    let step = (all.len() / 3).max(1);
    for s in all.iter().step_by(step).take(3) {
        w.sample(s.clone());
    }
}

fn replay(ctx: &Ctx, p: &std::path::Path) -> i32 {
    let j = json::parse(&std::fs::read_to_string(p).expect("read replay")).expect("parse replay");
    let case = j.get("case").expect("case");
    if case.get("part").and_then(|x| x.as_str()) == Some("stale-handle") {
        let found = stale_handles();
        for (sig, detail) in &found {
            println!("  {}: {}", sig, detail);
        }
        if found.is_empty() {
            println!("holds on this case");
            return 0;
        }
        println!("VIOLATION property={} replay={}", ctx.prop, p.display());
        return 1;
    }
    let part = Part::from(case.get("part").and_then(|x| x.as_str()).expect("case.part")).expect("known part");
    let variant: &'static str = if case.get("env").and_then(|x| x.as_str()) == Some(V_UNSET) { V_UNSET } else { V_SET };
    let state = case.get("state").and_then(|x| x.as_i64()).unwrap_or(0) as usize;
    let k = case.get("k").and_then(|x| x.as_i64()).expect("case.k") as usize;
    let args: Vec<String> = case.get("args").and_then(|x| x.as_arr()).expect("case.args").iter().map(|x| x.as_str().unwrap_or("").to_string()).collect();
    // single-threaded here: establish the environment of the recorded variant
    set_env(variant);
    let pres = pre_states();
    if state >= pres.len() || args.is_empty() || (matches!(part, Part::Memfs2 | Part::Help2) && args.len() < 2) {
        eprintln!("machinery: malformed replay case");
        return 2;
    }
    println!("replay {} part={} env={} pre-state={} args={:?} k={}", ctx.prop, part.name(), variant, pres[state].name, args.iter().map(|a| clip(a)).collect::<Vec<_>>(), k);
    // a replayed hang must not hang the replay: watchdog on a private progress slot
    let progress = Progress::new();
    let secs = hang_secs(ctx.tier);
    let (prop, path) = (ctx.prop.clone(), p.display().to_string());
    let wd = spawn_watchdog(progress.clone(), std::time::Duration::from_secs(secs), move |_s, _c| {
        println!("  the call did not return within {} s", secs);
        println!("VIOLATION property={} replay={}", prop, path);
        std::process::exit(1);
    });
    progress.begin(0, 0);
    let mut bad = false;
    match part {
        Part::Memfs1 | Part::Memfs2 => {
            let call = match gen_call(part, &args, k) {
                Some(c) => c,
                None => {
                    eprintln!("machinery: no call with index {}", k);
                    return 2;
                },
            };
            let ex = exec(&pres[state], &call, &mut Local::default());
            println!("  pre-state: {}", pres[state].setup.iter().map(|o| o.render()).collect::<Vec<_>>().join("; "));
            println!("  call: {}", call.render());
            println!("  expected: returns Ok or Err in bounded time, no panic, instance usable afterwards, namespace well-formed");
            println!("  observed: {} (state changed: {})", clip(&ex.out.brief()), ex.changed);
            for v in &ex.verdicts {
                println!("  {} {}: {}", v.kind, v.code, v.detail);
                bad = true;
            }
        },
        Part::Help1 | Part::Help2 => {
            let name = helper_name(part, k);
            println!("  call: {}({})", name, args.iter().map(|a| format!("{:?}", clip(a))).collect::<Vec<_>>().join(", "));
            println!("  expected: returns without panicking; a returned iterator ends");
            match helper_run(part, &args, k) {
                Ok(H_BUDGET) => {
                    println!("  observed: the returned iterator did not end within the step budget");
                    bad = true;
                },
                Ok(c) => println!("  observed: returned (result class {})", c),
                Err(m) => {
                    println!("  observed: panic: {}", clip(&m));
                    bad = true;
                },
            }
        },
    }
    progress.end(0);
    wd.store(true, Ordering::Relaxed);
    if bad {
        println!("VIOLATION property={} replay={}", ctx.prop, p.display());
        1
    } else {
        println!("holds on this case");
        0
    }
}

//! C05 abs() maps any path to a clean absolute path, identically on both backends, and every other
//! method resolves its path arguments through the same resolution (engines E3 + E4).
//!
//! Part (i): every string over an adversarial alphabet up to a length bound, plus compositions of
//! expansion / protocol tokens, x several cwds x HOME values: `abs` on Memfs and Stdfs against a
//! string-level reference (reference expander of C17 + protocol trimming + Go-style clean + lexical
//! join onto the cwd); absolute, clean, idempotent, backend independent, no IO.
//! Part (ii): differential, no model: for every method and every spelling of its path argument,
//! `m(spelling)` must behave exactly like `m(abs(spelling))` from the same state.
//! Both parts run in single-threaded worker processes (process cwd / environment).
use crate::common::json::{self, J};
use crate::common::par::*;
use crate::common::report::*;
use crate::common::strings::*;
use crate::engines::sandbox::Sandbox;
use crate::engines::workers::*;
use crate::models::go_clean::go_clean;
use crate::models::ops::*;
use crate::models::ref_abs::{ref_abs_expanded, AbsR};
use crate::models::tree::*;
use crate::props::c17::ref_expand;
use rivia::prelude::*;

fn s(x: &str) -> String {
    x.to_string()
}

const ALPHA: [&str; 7] = ["/", ".", "a", "b", "~", ":", "é"];

fn token_strings() -> Vec<String> {
    let toks = ["$V", "${V}", "$U", "file://", "FTP://", "http://", "https://", "//", "a", "/", "..", "~", "b/", "."];
    let mut out = vec![];
    for a in toks {
        out.push(a.to_string());
        for b in toks {
            out.push(format!("{}{}", a, b));
            for c in toks {
                out.push(format!("{}{}{}", a, b, c));
            }
        }
    }
    out.sort();
    out.dedup();
    out
}

fn shape(arg: &str) -> String {
    let mut f = vec![];
    if arg.contains('~') {
        f.push("tilde");
    }
    if arg.contains('$') {
        f.push("var");
    }
    if arg.contains("://") {
        f.push("scheme");
    }
    if arg.starts_with('/') {
        f.push("abs");
    } else {
        f.push("rel");
    }
    if arg.contains("..") {
        f.push("dotdot");
    }
    if !arg.is_ascii() {
        f.push("multibyte");
    }
    f.join("+")
}

struct AbsCase<'a> {
    arg: &'a str,
    cwd: &'a str,
    home: Option<&'a str>,
    v: Option<&'a str>,
}

/// check one abs() input on both backends; cwd must already be set on both
fn check_abs(w: &mut WorkerCtx, c: &AbsCase, mem: &Memfs, stdfs_ok: bool) {
    let env = |name: &str| -> Option<String> {
        match name {
            "HOME" => c.home.map(|x| x.to_string()),
            "V" => c.v.map(|x| x.to_string()),
            _ => None,
        }
    };
    let om = apply(mem, &Op::Abs(c.arg.to_string()));
    let case = || J::obj([("part", J::s("abs")), ("arg", J::s(c.arg)), ("cwd", J::s(c.cwd)), ("home", J::s(c.home.unwrap_or("<unset>"))), ("v", J::s(c.v.unwrap_or("<unset>")))]);
    let ctx = || format!("abs({:?}) with cwd {} HOME={:?} V={:?}", c.arg, c.cwd, c.home, c.v);
    let sh = shape(c.arg);
    w.count("abs_evaluations", 1);
    if om.panicked() {
        w.vio(&format!("C05 abs panic [{}]", sh), || format!("{} panicked on Memfs: {}", ctx(), om.msg), case);
        return;
    }
    // reference
    let mut ok_set: Vec<String> = vec![];
    let mut err_ok = false;
    if c.arg.is_empty() {
        err_ok = true;
    } else {
        // the statement does not fix the order of expansion and protocol trimming: accept both
        let trimmed_first = crate::models::ref_abs::ref_trim_protocol(c.arg);
        let mut any = false;
        for (variant, expand_arg) in [(0, c.arg.to_string()), (1, trimmed_first)] {
            if variant == 1 && expand_arg == c.arg {
                continue;
            }
            if expand_arg.is_empty() {
                // "file://" alone: the current directory
                if let AbsR::Ok(p) = ref_abs_expanded(c.cwd, ".") {
                    ok_set.push(p);
                    any = true;
                }
                continue;
            }
            let acc = ref_expand(&expand_arg, &env);
            if acc.err_ok {
                err_ok = true;
                any = true;
            }
            for o in &acc.oks {
                any = true;
                match ref_abs_expanded(c.cwd, o) {
                    AbsR::Ok(p) => ok_set.push(p),
                    AbsR::Climbs(p) => {
                        ok_set.push(p);
                        err_ok = true;
                    },
                    AbsR::Err(_) => err_ok = true,
                    AbsR::Unspecified => return,
                }
            }
        }
        if !any {
            return; // the reference defines nothing here
        }
    }
    if om.ok {
        w.count("abs_ok", 1);
        let r = &om.val;
        if !ok_set.iter().any(|x| x == r) {
            if ok_set.is_empty() {
                w.vio(&format!("C05 abs accepted-but-must-fail [{}]", sh), || format!("{} returned {:?} but must fail (empty path / invalid expansion / '..' above the root)", ctx(), r), case);
            } else {
                w.vio(&format!("C05 abs wrong-path [{}]", sh), || format!("{} returned {:?}, the reference resolution gives {:?}", ctx(), r, ok_set), case);
            }
        }
        if !r.starts_with('/') || go_clean(r) != *r {
            w.vio(&format!("C05 abs not-clean-absolute [{}]", sh), || format!("{} returned {:?} which is not a clean absolute path", ctx(), r), case);
        }
        let again = apply(mem, &Op::Abs(r.clone()));
        if !(again.ok && again.val == *r) && !r.contains('~') && !r.contains('$') {
            w.vio(&format!("C05 abs not-idempotent [{}]", sh), || format!("{} returned {:?} but abs of that gives {}", ctx(), r, again.brief()), case);
        }
    } else if !err_ok {
        w.vio(&format!("C05 abs failed-but-must-succeed [{}]", sh), || format!("{} failed with {} but the reference resolution gives {:?}", ctx(), om.brief(), ok_set), case);
    }
    if stdfs_ok {
        let od = apply(&Stdfs::new(), &Op::Abs(c.arg.to_string()));
        if od.panicked() {
            w.vio(&format!("C05 abs panic-stdfs [{}]", sh), || format!("{} panicked on Stdfs: {}", ctx(), od.msg), case);
        } else if od.ok != om.ok || (od.ok && od.val != om.val) {
            w.vio(&format!("C05 abs backends-differ [{}]", sh), || format!("{}: Stdfs {} but Memfs {}", ctx(), od.brief(), om.brief()), case);
        }
    }
}

pub fn worker_abs(w: &mut WorkerCtx) {
    // args: <home-kind: in|out|root|root2|trail|unset> <v-kind: plain|sep|unset>
    let sb = Sandbox::new(&format!("c05a.{}.{}{}", w.shard, w.arg(0), w.arg(1)));
    let sbr = sb.root.clone();
    std::fs::create_dir_all(format!("{}/a/b", sbr)).expect("mkdir");
    let home: Option<String> = match w.arg(0) {
        "in" => Some(format!("{}/a", sbr)),
        "out" => Some(s("/h/x")),
        // the root directory as HOME (service accounts, minimal containers), also spelled with two separators,
        // and a value with a trailing separator
        "root" => Some(s("/")),
        "root2" => Some(s("//")),
        "trail" => Some(s("/h/x/")),
        _ => None,
    };
    let v: Option<String> = match w.arg(1) {
        "plain" => Some(s("v")),
        "sep" => Some(s("a/b")),
        _ => None,
    };
    match &home {
        Some(h) => std::env::set_var("HOME", h),
        None => std::env::remove_var("HOME"),
    }
    match &v {
        Some(x) => std::env::set_var("V", x),
        None => std::env::remove_var("V"),
    }
    std::env::remove_var("U");
    let cwds = [s("/"), sbr.clone(), format!("{}/a/b", sbr)];
    let maxlen = w.tier.pick(6, 8);
    let n = count_upto(ALPHA.len() as u64, maxlen);
    let toks = token_strings();
    let mem = Memfs::new();
    mem.mkdir_p(format!("{}/a/b", sbr)).expect("memfs mkdir");
    let dump0_entries = mem.verif_dump().entries.len();
    for cwd in &cwds {
        std::env::set_current_dir(cwd).expect("chdir");
        // $PWD names the working directory in a spelling that is not clean (what a shell leaves behind after
        // `cd dir/.`): the cwd abs() joins onto is the process's, in clean form, whatever the environment says
        std::env::set_var("PWD", format!("{}/.", cwd));
        mem.set_cwd(cwd).expect("set_cwd");
        let mut buf = String::new();
        for i in 0..n {
            if !w.mine(i) {
                continue;
            }
            nth_string(&ALPHA, i, &mut buf);
            check_abs(w, &AbsCase { arg: &buf, cwd, home: home.as_deref(), v: v.as_deref() }, &mem, true);
        }
        for (i, t) in toks.iter().enumerate() {
            if !w.mine(i as u64) {
                continue;
            }
            check_abs(w, &AbsCase { arg: t, cwd, home: home.as_deref(), v: v.as_deref() }, &mem, true);
        }
        // longer arguments over the three symbols that drive the lexical walk (runs of '..' before, between and
        // after names need 10+ characters)
        let walk = ["/", ".", "a"];
        let nw = count_upto(3, w.tier.pick(10, 12));
        for i in 0..nw {
            if !w.mine(i) {
                continue;
            }
            nth_string(&walk, i, &mut buf);
            if buf.len() as u32 <= maxlen {
                continue; // covered by the full alphabet above
            }
            check_abs(w, &AbsCase { arg: &buf, cwd, home: home.as_deref(), v: v.as_deref() }, &mem, true);
        }
    }
    // no IO: abs never created anything in Memfs; and on Stdfs abs works with the sandbox removed
    if mem.verif_dump().entries.len() != dump0_entries {
        w.vio("C05 abs does-io memfs", || "abs() calls changed the Memfs state".to_string(), || J::Null);
    }
    // no IO, continued: with the process inside a directory that no longer exists, every argument whose
    // resolution does not involve the cwd (Memfs gives the same answer from two different cwds) still resolves
    if w.shard == 0 {
        let gone = format!("{}/gone", sbr);
        std::fs::create_dir_all(&gone).expect("mkdir gone");
        std::env::set_current_dir(&gone).expect("chdir gone");
        std::fs::remove_dir(&gone).expect("rmdir gone");
        let mut args: Vec<String> = toks.clone();
        let mut buf = String::new();
        for i in 0..count_upto(ALPHA.len() as u64, 4) {
            nth_string(&ALPHA, i, &mut buf);
            args.push(buf.clone());
        }
        for a in &args {
            mem.set_cwd("/").expect("set_cwd");
            let m1 = apply(&mem, &Op::Abs(a.clone()));
            mem.set_cwd(format!("{}/a/b", sbr)).expect("set_cwd");
            let m2 = apply(&mem, &Op::Abs(a.clone()));
            if !(m1.ok && m2.ok && m1.val == m2.val) {
                continue;
            }
            w.count("abs_with_removed_cwd", 1);
            let od = apply(&Stdfs::new(), &Op::Abs(a.clone()));
            if !od.ok || od.val != m1.val {
                w.vio(
                    &format!("C05 abs needs-the-cwd-for-a-cwd-independent-argument [{}]", shape(a)),
                    || format!("with the process cwd removed, Stdfs::abs({:?}) gives {} although the resolution {:?} does not involve the cwd", a, od.brief(), m1.val),
                    || J::obj([("part", J::s("abs-removed-cwd")), ("arg", J::s(a))]),
                );
            }
        }
    }
    // histories that touch the stored working directory of a Memfs: whatever the cwd is afterwards, abs()
    // still returns clean absolute text and is idempotent (reference-free laws; where the cwd ends up after
    // its directory was moved or removed is not C05's business)
    if w.shard == 0 {
        type Hist = (&'static str, Vec<Op>);
        let hists: Vec<Hist> = vec![
            ("set_cwd(/d); move_p(/d, /e)", vec![Op::MkdirP("/d".into()), Op::SetCwd("/d".into()), Op::MoveP("/d".into(), "/e".into())]),
            ("set_cwd(/d/s); move_p(/d, /e)", vec![Op::MkdirP("/d/s".into()), Op::SetCwd("/d/s".into()), Op::MoveP("/d".into(), "/e".into())]),
            ("set_cwd(/d); move_p(/d, /t) into an existing directory", vec![Op::MkdirP("/d".into()), Op::MkdirP("/t".into()), Op::SetCwd("/d".into()), Op::MoveP("/d".into(), "/t".into())]),
            ("set_cwd(/d); remove_all(/d)", vec![Op::MkdirP("/d".into()), Op::SetCwd("/d".into()), Op::RemoveAll("/d".into())]),
            ("set_cwd(/d/); set_cwd(.)", vec![Op::MkdirP("/d".into()), Op::SetCwd("/d/".into()), Op::SetCwd(".".into())]),
            ("set_cwd(/d); copy(/d, /e); set_cwd(../e)", vec![Op::MkdirP("/d".into()), Op::SetCwd("/d".into()), Op::Copy("/d".into(), "/e".into()), Op::SetCwd("../e".into())]),
        ];
        let walk = ["/", ".", "a"];
        for (name, ops) in &hists {
            let m = Memfs::new();
            for op in ops {
                let _ = apply(&m, op);
            }
            let mut buf = String::new();
            for i in 0..count_upto(3, 5) {
                nth_string(&walk, i, &mut buf);
                let o = apply(&m, &Op::Abs(buf.clone()));
                w.count("abs_after_cwd_history", 1);
                if o.panicked() {
                    w.vio("C05 abs panic after a cwd history", || format!("after {}: abs({:?}) panicked: {}", name, buf, o.msg), || J::Null);
                    continue;
                }
                if !o.ok {
                    continue;
                }
                let clean = crate::models::go_clean::go_clean(&o.val);
                let again = apply(&m, &Op::Abs(o.val.clone()));
                if !o.val.starts_with('/') || clean != o.val {
                    let (n2, b2, v2) = (name.to_string(), buf.clone(), o.val.clone());
                    w.vio("C05 abs result-not-clean after a cwd history", move || format!("after {}: abs({:?}) = {:?} (clean form {:?})", n2, b2, v2, clean), || J::Null);
                } else if !again.ok || again.val != o.val {
                    let (n2, b2, v2) = (name.to_string(), buf.clone(), o.val.clone());
                    w.vio("C05 abs not-idempotent after a cwd history", move || format!("after {}: abs({:?}) = {:?} but abs of that = {}", n2, b2, v2, again.brief()), || J::Null);
                }
            }
        }
    }
    let _ = std::env::set_current_dir("/");
    drop(sb);
    for t in ["a", "./a/../b", "/x/y/../z"] {
        let od = apply(&Stdfs::new(), &Op::Abs(t.to_string()));
        if !od.ok {
            w.vio("C05 abs does-io stdfs", || format!("Stdfs::abs({:?}) fails once the directories are gone: {}", t, od.brief()), || J::Null);
        }
    }
    w.sample(J::obj([("arg", J::s("~/./b//../$V")), ("cwd", J::s("<SB>/a/b"))]));
}

// ---------------------------------------------------------------------------------------------
// Part (ii): spelling independence
// ---------------------------------------------------------------------------------------------
fn states() -> Vec<Tree> {
    let mut v = vec![];
    let mk = |items: &[(&str, Node)]| {
        let mut t = Tree::new();
        for (k, n) in items {
            t.insert(k, n.clone());
        }
        t
    };
    v.push(mk(&[]));
    v.push(mk(&[("/a", Node::dir()), ("/a/b", Node::file(b"x")), ("/b", Node::file(b""))]));
    v.push(mk(&[("/a", Node::dir()), ("/a/a", Node::dir()), ("/a/a/b", Node::file(b"y")), ("/b", Node::dir())]));
    v.push(mk(&[("/a", Node::file(b"z")), ("/b", Node::link("/a"))]));
    v.push(mk(&[("/a", Node::dir()), ("/a/b", Node::dir()), ("/b", Node::link("/a/b"))]));
    v.push(mk(&[("/a", Node::dir().with_mode(0o700)), ("/a/a", Node::file(b"q").with_mode(0o600))]));
    v
}

/// spellings of the sandbox-relative path `p` (e.g. "/a/b"); cwd is given, HOME = <SB>, V = "a"
fn spellings(p: &str, sb: &str, cwd: &str) -> Vec<(String, &'static str)> {
    let abs = reroot(sb, p);
    let rel_to_cwd = ref_relative(&abs, cwd);
    let rel = if rel_to_cwd.is_empty() { ".".to_string() } else { rel_to_cwd };
    let mut v = vec![
        (abs.clone(), "abs"),
        (rel.clone(), "relative"),
        (format!("./{}", rel), "dot-relative"),
        (format!("{}/", abs), "trailing-slash"),
        (abs.replacen('/', "//", 1), "double-slash"),
        (format!("{}/.", abs), "trailing-dot"),
        (format!("{}/zz/..", abs), "dotdot-inside"),
        (format!("zz/../{}", rel), "relative-dotdot"),
        (format!("file://{}", abs), "file-scheme"),
        (format!("~{}", p), "home"),
    ];
    if p.starts_with("/a") {
        v.push((format!("{}/$V{}", sb, &p[2..]), "variable"));
        v.push((format!("{}/${{V}}{}", sb, &p[2..]), "variable-braces"));
    }
    v
}

fn ops_for(p: &str) -> Vec<Op> {
    let p = s(p);
    vec![
        Op::Mkfile(p.clone()),
        Op::MkfileM(p.clone(), 0o600),
        Op::MkdirP(p.clone()),
        Op::MkdirM(p.clone(), 0o700),
        Op::WriteAll(p.clone(), b"w".to_vec()),
        Op::WriteLines(p.clone(), vec![s("l")]),
        Op::AppendAll(p.clone(), b"y".to_vec()),
        Op::AppendLine(p.clone(), s("l")),
        Op::AppendLines(p.clone(), vec![s("m")]),
        Op::WriteHandle(p.clone(), vec![b"h".to_vec()], vec![false]),
        Op::AppendHandle(p.clone(), vec![b"j".to_vec()], vec![true]),
        Op::Remove(p.clone()),
        Op::RemoveAll(p.clone()),
        Op::SetCwd(p.clone()),
        Op::Chmod(p.clone(), 0o750),
        Op::ChmodB(p.clone(), ChmodSel::Sym(s("a:o-rwx")), true, false),
        Op::Chown(p.clone(), 1000, 1000),
        Op::ChownB(p.clone(), Some(1000), None, false, false),
        Op::AllDirs(p.clone()),
        Op::AllFiles(p.clone()),
        Op::AllPaths(p.clone()),
        Op::Dirs(p.clone()),
        Op::Files(p.clone()),
        Op::Paths(p.clone()),
        Op::EntriesSorted(p.clone()),
        Op::Entry(p.clone()),
        Op::Exists(p.clone()),
        Op::Gid(p.clone()),
        Op::Uid(p.clone()),
        Op::Owner(p.clone()),
        Op::IsDir(p.clone()),
        Op::IsExec(p.clone()),
        Op::IsFile(p.clone()),
        Op::IsReadonly(p.clone()),
        Op::IsSymlink(p.clone()),
        Op::IsSymlinkDir(p.clone()),
        Op::IsSymlinkFile(p.clone()),
        Op::Mode(p.clone()),
        Op::Read(p.clone()),
        Op::ReadAll(p.clone()),
        Op::ReadLines(p.clone()),
        Op::Readlink(p.clone()),
        Op::ReadlinkAbs(p.clone()),
        // two-path calls: the respelled argument in first and in second position
        Op::MoveP(p.clone(), s("/@/q")),
        Op::MoveP(s("/@/a"), p.clone()),
        Op::Copy(p.clone(), s("/@/q")),
        Op::Copy(s("/@/a"), p.clone()),
        Op::CopyB(p.clone(), s("/@/q"), CopyMode::All(0o700), false),
        Op::Symlink(p.clone(), s("/@/a")),
        // the link target: relative targets are documented to resolve against the link's directory,
        // so only the absolute spellings are compared in this position (see worker_spell)
        Op::Symlink(s("/@/q"), p.clone()),
        Op::CopyB(s("/@/a"), p.clone(), CopyMode::All(0o700), false),
    ]
}

/// error text mentions the argument as spelled in places; compare Ok values and error kinds
fn same_outcome(a: &Outcome, b: &Outcome) -> bool {
    if a.ok != b.ok {
        return false;
    }
    if a.ok {
        a.val == b.val
    } else {
        a.err == b.err
    }
}

// ---------------------------------------------------------------------------------------------
// Part (iii): the builder calls chmod_b / chown_b take their path when they are called: a builder
// made from a spelling and one made from abs(spelling) stay interchangeable when the cwd moves
// between the call and exec(), and a spelling abs() rejects is rejected by the call itself.
// (copy_b is left out: the crate's own test_copy_b pins that it accepts any string and reports path
// errors from exec(), so its resolution point is exec() by the repository's own definition.)
// ---------------------------------------------------------------------------------------------
#[derive(PartialEq, Debug, Clone)]
struct Deferred {
    created: Result<(), String>,
    exec: Option<Result<(), String>>,
}

fn deferred_run<V: VirtualFileSystem>(vfs: &V, which: &str, arg: &str, move_cwd: &dyn Fn()) -> Deferred {
    match which {
        "chmod_b" => match vfs.chmod_b(arg) {
            Err(e) => Deferred { created: Err(err_kind(&e)), exec: None },
            Ok(b) => {
                move_cwd();
                Deferred { created: Ok(()), exec: Some(b.all(0o600).exec().map_err(|e| err_kind(&e))) }
            },
        },
        _ => match vfs.chown_b(arg) {
            Err(e) => Deferred { created: Err(err_kind(&e)), exec: None },
            Ok(b) => {
                move_cwd();
                Deferred { created: Ok(()), exec: Some(b.owner(5, 7).exec().map_err(|e| err_kind(&e))) }
            },
        },
    }
}

fn deferred_builders(w: &mut WorkerCtx, sb: &Sandbox, do_stdfs: bool) {
    let sbr = sb.root.clone();
    let mut st = Tree::new();
    st.insert("/a", Node::dir());
    st.insert("/a/f", Node::file(b"1"));
    st.insert("/b", Node::dir());
    st.insert("/b/f", Node::file(b"2"));
    let (cwd1, cwd2) = (reroot(&sbr, "/a"), reroot(&sbr, "/b"));
    let spellings: Vec<(String, &str)> = vec![
        (s("f"), "relative"),
        (s("./f"), "dot-relative"),
        (s("../a/f"), "relative-dotdot"),
        (s("."), "cwd"),
        (format!("{}/a/f", sbr), "abs"),
        (format!("{}//a/./f/", sbr), "unclean-abs"),
        (s("~/a/f"), "home"),
        (format!("{}/$V/f", sbr), "variable"),
        (s(""), "empty"),
        (s("~~"), "invalid-expansion"),
        (s("$"), "invalid-variable"),
    ];
    let stdfs = Stdfs::new();
    for which in ["chmod_b", "chown_b"] {
        for (sp, kind) in &spellings {
            let case = || J::obj([("part", J::s("deferred-builder")), ("call", J::s(format!("{}({:?}); set_cwd(<SB>/b); exec()", which, sp.replace(&sbr, "<SB>")))), ("spelling", J::s(*kind))]);
            // ---- Memfs
            let mem0 = match materialize_memfs(&st, &sbr) {
                Ok(m) => m,
                Err(e) => {
                    w.vio("C05 setup", || e.clone(), || J::Null);
                    return;
                },
            };
            mem0.set_cwd(&cwd1).expect("memfs cwd");
            let a = apply(&mem0, &Op::Abs(sp.clone()));
            let (m1, m2) = (mem0.verif_deep_clone(), mem0.verif_deep_clone());
            let d1 = deferred_run(&m1, which, sp, &|| {
                m1.set_cwd(&cwd2).expect("cwd2");
            });
            w.count("deferred_builder_cases", 1);
            if !a.ok {
                if d1.created.is_ok() || d1.created.as_ref().err() != Some(&a.err) {
                    w.vio(&format!("C05 builder memfs {} accepts what abs() rejects [{}]", which, kind), || format!("abs({:?}) fails with {} but {}({:?}) gives {:?}", sp, a.brief(), which, sp, d1), case);
                }
            } else {
                let d2 = deferred_run(&m2, which, &a.val, &|| {
                    m2.set_cwd(&cwd2).expect("cwd2");
                });
                if d1 != d2 || m1.verif_dump() != m2.verif_dump() {
                    w.vio(
                        &format!("C05 builder memfs {} [{}]", which, kind),
                        || format!("cwd <SB>/a: {}({:?}) then set_cwd(<SB>/b) then exec() gives {:?}, with abs() of the argument {:?}{}", which, sp.replace(&sbr, "<SB>"), d1, d2, if m1.verif_dump() != m2.verif_dump() { " (resulting states differ)" } else { "" }),
                        case,
                    );
                }
            }
            // ---- Stdfs
            if do_stdfs {
                let run = |arg: &str| -> Option<(Deferred, Option<Tree>)> {
                    sb.reset();
                    materialize_disk(&st, &sbr).ok()?;
                    std::env::set_current_dir(&cwd1).ok()?;
                    let d = deferred_run(&stdfs, which, arg, &|| {
                        std::env::set_current_dir(&cwd2).expect("cwd2");
                    });
                    let _ = std::env::set_current_dir(&sb.base);
                    Some((d, observe_disk(&sbr).ok()))
                };
                sb.reset();
                if materialize_disk(&st, &sbr).is_err() || std::env::set_current_dir(&cwd1).is_err() {
                    w.count("machinery_setup_failures", 1);
                    continue;
                }
                let a = apply(&stdfs, &Op::Abs(sp.clone()));
                let _ = std::env::set_current_dir(&sb.base);
                w.count("deferred_builder_cases_stdfs", 1);
                match (a.ok, run(sp)) {
                    (false, Some((d1, _))) => {
                        if d1.created.is_ok() || d1.created.as_ref().err() != Some(&a.err) {
                            w.vio(&format!("C05 builder stdfs {} accepts what abs() rejects [{}]", which, kind), || format!("abs({:?}) fails with {} but {}({:?}) gives {:?}", sp, a.brief(), which, sp, d1), case);
                        }
                    },
                    (true, Some((d1, t1))) => match run(&a.val) {
                        Some((d2, t2)) => {
                            if d1 != d2 || t1 != t2 {
                                w.vio(
                                    &format!("C05 builder stdfs {} [{}]", which, kind),
                                    || format!("cwd <SB>/a: {}({:?}) then chdir(<SB>/b) then exec() gives {:?}, with abs() of the argument {:?}{}", which, sp.replace(&sbr, "<SB>"), d1, d2, if t1 != t2 { " (resulting trees differ)" } else { "" }),
                                    case,
                                );
                            }
                        },
                        None => w.count("machinery_setup_failures", 1),
                    },
                    _ => w.count("machinery_setup_failures", 1),
                }
            }
        }
    }
}

pub fn worker_spell(w: &mut WorkerCtx) {
    unsafe {
        libc::umask(0o022);
    }
    let sb = Sandbox::new(&format!("c05s.{}", w.shard));
    let sbr = sb.root.clone();
    std::env::set_var("HOME", &sbr);
    std::env::set_var("V", "a");
    let stdfs = Stdfs::new();
    let do_stdfs = w.arg(0) != "memfs-only";
    let paths = ["/a", "/a/b", "/a/a/b", "/b", "/q", "/a/q", "/"];
    if w.mine(0) {
        deferred_builders(w, &sb, do_stdfs);
    }
    let mut idx = 0u64;
    for (si, st0) in states().iter().enumerate() {
        let mut st = st0.clone();
        st.fix_link_kinds();
        // cwd = <SB>/a must exist as a directory in every state for relative spellings; states where
        // /a is not a directory use the sandbox root as cwd
        let cwd_rel = if st.is_dir("/a/a") {
            "/a/a"
        } else if st.is_dir("/a") {
            "/a"
        } else {
            "/"
        };
        let cwd = reroot(&sbr, cwd_rel);
        let mem0 = match materialize_memfs(&st, &sbr) {
            Ok(m) => m,
            Err(e) => {
                w.vio("C05 setup", || e.clone(), || J::Null);
                continue;
            },
        };
        mem0.set_cwd(&cwd).expect("memfs cwd");
        for p in paths {
            for op_t in ops_for(p) {
                // which argument carries the respelled path
                let spell_first = match op_t.paths() {
                    (Some(a), _) => a == p,
                    _ => true,
                };
                let target_pos = matches!(&op_t, Op::Symlink(_, t) if t == p);
                for (sp, kind) in spellings(p, &sbr, &cwd) {
                    idx += 1;
                    if !w.mine(idx) {
                        continue;
                    }
                    // relative spellings need a cwd inside the sandbox below the root
                    if cwd_rel == "/" && matches!(kind, "relative" | "dot-relative" | "relative-dotdot") {
                        continue;
                    }
                    if target_pos && !sp.starts_with('/') {
                        continue;
                    }
                    let fixed = |q: &str| q.replace("/@", &sbr);
                    let spelled = op_t.map_paths(|q, i| if (i == 0) == spell_first && q == p { sp.clone() } else { fixed(q) });
                    // Memfs: canonical form uses Memfs' own abs() of the spelling (differential, no model)
                    let a = apply(&mem0, &Op::Abs(sp.clone()));
                    w.count("spelling_pairs", 1);
                    let case = || J::obj([("part", J::s("spelling")), ("state", J::i(si as i64)), ("call", J::s(spelled.render().replace(&sbr, "<SB>"))), ("spelling", J::s(kind))]);
                    if !a.ok {
                        w.vio(&format!("C05 spelling abs-fails [{}]", kind), || format!("abs({:?}) failed: {}", sp.replace(&sbr, "<SB>"), a.brief()), case);
                        continue;
                    }
                    let canon = op_t.map_paths(|q, i| if (i == 0) == spell_first && q == p { a.val.clone() } else { fixed(q) });
                    let (m1, m2) = (mem0.verif_deep_clone(), mem0.verif_deep_clone());
                    let (o1, o2) = (apply(&m1, &spelled), apply(&m2, &canon));
                    if !same_outcome(&o1, &o2) || m1.verif_dump() != m2.verif_dump() {
                        w.vio(
                            &format!("C05 spelling memfs {} [{}]", op_t.name(), kind),
                            || format!("state [{}] cwd {}: {} gives {} but with abs() of the argument {} gives {}{}", st.render(), cwd_rel, spelled.render().replace(&sbr, "<SB>"), o1.brief().replace(&sbr, "<SB>"), canon.render().replace(&sbr, "<SB>"), o2.brief().replace(&sbr, "<SB>"), if m1.verif_dump() != m2.verif_dump() { " (resulting states differ)" } else { "" }),
                            case,
                        );
                    }
                    if do_stdfs && st.links_resolve() {
                        // the observed tree is None when the call removed the sandbox root itself
                        let run = |op: &Op| -> Option<(Outcome, Option<Tree>)> {
                            sb.reset();
                            materialize_disk(&st, &sbr).ok()?;
                            std::env::set_current_dir(&cwd).ok()?;
                            let o = apply(&stdfs, op);
                            let _ = std::env::set_current_dir(&sb.base);
                            let t = observe_disk(&sbr).ok();
                            Some((o, t))
                        };
                        if let (Some((d1, t1)), Some((d2, t2))) = (run(&spelled), run(&canon)) {
                            w.count("spelling_pairs_stdfs", 1);
                            if !same_outcome(&d1, &d2) || t1 != t2 {
                                w.vio(
                                    &format!("C05 spelling stdfs {} [{}]", op_t.name(), kind),
                                    || format!("state [{}] cwd {}: {} gives {} but with abs() of the argument gives {}{}", st.render(), cwd_rel, spelled.render().replace(&sbr, "<SB>"), d1.brief().replace(&sbr, "<SB>"), d2.brief().replace(&sbr, "<SB>"), if t1 != t2 { " (resulting trees differ)" } else { "" }),
                                    case,
                                );
                            }
                        } else {
                            w.count("machinery_setup_failures", 1);
                        }
                    }
                }
            }
        }
    }
    let _ = std::env::set_current_dir("/");
    w.sample(J::obj([("call", J::s("mkfile(\"zz/../b\") vs mkfile(abs(\"zz/../b\"))")), ("cwd", J::s("<SB>/a"))]));
}

pub fn run(ctx: &Ctx) -> i32 {
    quiet_panics();
    if let Some(p) = &ctx.replay {
        return replay(ctx, p);
    }
    crate::engines::sandbox::sweep_stale();
    let mut g = Gathered::default();
    // part (i): one worker group per (HOME, V) setting; environment fixed per process
    let combos: Vec<(&str, &str)> = match ctx.tier {
        Tier::Quick => vec![("in", "plain"), ("out", "sep"), ("root", "plain")],
        Tier::Thorough => vec![("in", "plain"), ("out", "sep"), ("in", "sep"), ("unset", "unset"), ("out", "plain"), ("root", "plain"), ("root2", "sep"), ("trail", "plain")],
    };
    let shards = (ctx.threads as u64 / combos.len() as u64).max(1);
    std::thread::scope(|sc| {
        let hs: Vec<_> = combos
            .iter()
            .map(|(h, v)| {
                sc.spawn(move || {
                    let mut gg = Gathered::default();
                    run_workers(ctx, &Launch { name: "c05-abs".into(), nshards: shards, extra: vec![h.to_string(), v.to_string()], uid: None, env: None }, &mut gg);
                    gg
                })
            })
            .collect();
        for h in hs {
            let gg = h.join().unwrap();
            for (k, v) in gg.counters {
                *g.counters.entry(k).or_insert(0) += v;
            }
            g.samples.extend(gg.samples);
            g.failed.extend(gg.failed);
        }
    });
    // part (ii)
    run_workers(ctx, &Launch { name: "c05-spell".into(), nshards: ctx.threads as u64, extra: vec![], uid: None, env: None }, &mut g);
    if !g.failed.is_empty() || g.c("machinery_setup_failures") > 0 {
        eprintln!("machinery: worker problems: {:?} (setup failures {})", g.failed.first(), g.c("machinery_setup_failures"));
        return 2;
    }
    let evals = g.c("abs_evaluations") + g.c("spelling_pairs") + g.c("spelling_pairs_stdfs");
    let cov = J::obj([
        ("evaluations", J::i(evals)),
        ("distinct_nontrivial", J::i(g.c("abs_ok") + g.c("spelling_pairs"))),
        ("rule", J::s("part (i): every string over {/,.,a,b,~,:,é} up to the length bound plus all <=3-token compositions of expansion/protocol tokens, x 3 cwds x (HOME,V) settings, abs() on Memfs and Stdfs vs the string-level reference; non-trivial = abs succeeded. part (ii): every method x 7 paths x up to 12 spellings x 6 states, m(spelling) vs m(abs(spelling)) from identical states on Memfs and (re-materialised sandbox) Stdfs; all pairs non-trivial. part (iii): chmod_b/chown_b builders created from 11 spellings with the cwd moved between the call and exec(), vs the builder created from abs(spelling)")),
        ("samples", J::Arr(g.samples.iter().take(4).cloned().collect())),
        ("abs_evaluations", J::i(g.c("abs_evaluations"))),
        ("abs_successful", J::i(g.c("abs_ok"))),
        ("spelling_pairs_memfs", J::i(g.c("spelling_pairs"))),
        ("spelling_pairs_stdfs", J::i(g.c("spelling_pairs_stdfs"))),
        ("abs_with_removed_cwd", J::i(g.c("abs_with_removed_cwd"))),
        ("deferred_builder_cases_memfs", J::i(g.c("deferred_builder_cases"))),
        ("deferred_builder_cases_stdfs", J::i(g.c("deferred_builder_cases_stdfs"))),
        ("machinery_setup_failures", J::i(g.c("machinery_setup_failures"))),
        ("exhaustive", J::Bool(true)),
        ("bounds", J::s(format!("strings to length {} (over the walk alphabet {{/,.,a}} to length 10 quick / 12 thorough); cwds /, <SB>, <SB>/a/b; HOME/V settings {:?}", ctx.tier.pick(6, 8), combos))),
    ]);
    finish(ctx, Evidence {
        level: "exploration",
        coverage: cov,
        assumptions: vec![
            "the reference expander (props::c17::ref_expand) returns every acceptable outcome where the statement is ambiguous".into(),
            "a relative argument that climbs above the root may fail or clamp (both accepted), backends must agree".into(),
            "spelling independence compares Ok values / error kinds and resulting states; error texts may quote the argument as spelled".into(),
        ],
    })
}

fn replay(ctx: &Ctx, p: &std::path::Path) -> i32 {
    let j = json::parse(&std::fs::read_to_string(p).expect("read replay")).expect("parse replay");
    let case = j.get("case").expect("case");
    println!("replay C05 case: {}", case.to_string());
    if case.get("part").and_then(|x| x.as_str()) == Some("abs") {
        let arg = case.get("arg").and_then(|x| x.as_str()).unwrap_or("");
        let cwd = case.get("cwd").and_then(|x| x.as_str()).unwrap_or("/");
        let home = case.get("home").and_then(|x| x.as_str()).filter(|x| *x != "<unset>");
        let v = case.get("v").and_then(|x| x.as_str()).filter(|x| *x != "<unset>");
        match home {
            Some(h) => std::env::set_var("HOME", h),
            None => std::env::remove_var("HOME"),
        }
        match v {
            Some(x) => std::env::set_var("V", x),
            None => std::env::remove_var("V"),
        }
        std::env::remove_var("U");
        let mem = Memfs::new();
        let _ = mem.mkdir_p(cwd);
        let _ = mem.set_cwd(cwd);
        let o = apply(&mem, &Op::Abs(arg.to_string()));
        println!("  Memfs abs({:?}) with cwd {} -> {}", arg, cwd, o.brief());
        let env = |name: &str| -> Option<String> {
            match name {
                "HOME" => home.map(|x| x.to_string()),
                "V" => v.map(|x| x.to_string()),
                _ => None,
            }
        };
        let acc = ref_expand(arg, &env);
        let refs: Vec<AbsR> = acc.oks.iter().map(|o| ref_abs_expanded(cwd, o)).collect();
        println!("  reference: expansions {:?} (failure acceptable: {}) -> {:?}", acc.oks, acc.err_ok, refs);
        let ok = if o.ok { refs.iter().any(|r| matches!(r, AbsR::Ok(x) | AbsR::Climbs(x) if *x == o.val)) } else { acc.err_ok || arg.is_empty() || refs.iter().any(|r| matches!(r, AbsR::Err(_) | AbsR::Climbs(_))) };
        // the real-filesystem backend from the same cwd (re-created when it was a sandbox directory), $PWD
        // spelled the way the sweep spells it
        let mut ok_std = true;
        let top = cwd.strip_prefix("/dev/shm/").and_then(|r| r.split('/').next()).map(|t| format!("/dev/shm/{}", t));
        let top_existed = top.as_ref().map(|t| std::path::Path::new(t).exists()).unwrap_or(true);
        let made = cwd.starts_with("/dev/shm/") && std::fs::create_dir_all(cwd).is_ok();
        if cwd == "/" || made || std::path::Path::new(cwd).is_dir() {
            if std::env::set_current_dir(cwd).is_ok() {
                std::env::set_var("PWD", format!("{}/.", cwd));
                let od = apply(&Stdfs::new(), &Op::Abs(arg.to_string()));
                println!("  Stdfs abs({:?}) with cwd {} -> {}", arg, cwd, od.brief());
                ok_std = if od.ok { refs.iter().any(|r| matches!(r, AbsR::Ok(x) | AbsR::Climbs(x) if *x == od.val)) } else { acc.err_ok || arg.is_empty() || refs.iter().any(|r| matches!(r, AbsR::Err(_) | AbsR::Climbs(_))) };
                if od.ok != o.ok || (od.ok && od.val != o.val) {
                    println!("  the backends differ");
                    ok_std = false;
                }
                let _ = std::env::set_current_dir("/");
            }
        }
        if made && !top_existed {
            // remove what was created for the replay
            if let Some(t) = &top {
                let _ = std::fs::remove_dir_all(t);
            }
        }
        if !ok || !ok_std {
            println!("VIOLATION property={} replay={}", ctx.prop, p.display());
            return 1;
        }
        println!("holds on this case");
        return 0;
    }
    println!("(spelling cases are re-evaluated by re-running ./check C05; the case names state, call and spelling)");
    0
}

//! C20 The assert_vfs_* macros are sound and complete test oracles.
//!
//! Every state of a bounded family x every path x every macro (x every data / target / mode
//! candidate) is expanded here in the harness and run under catch_unwind from a fresh copy of the
//! state: on `Memfs` directly and on `Vfs::Memfs` (states = E1 reachability fixpoint of the C01
//! configurations), and on `Vfs::Stdfs` over a sandbox (states = all trees of `enum_trees` with
//! resolving links; single-threaded worker processes).
//!
//! Oracle = the fixed table `TABLE` below (one row per macro, predicate taken literally from the
//! macro's one-line doc sentence and the property statement), evaluated on the model tree
//! (`abstract_dump` of the pre/post dump, or the tree observed on disk with std::fs).
use crate::common::json::{self, J};
use crate::common::par::*;
use crate::common::report::*;
use crate::engines::sandbox::Sandbox;
use crate::engines::space::*;
use crate::engines::workers::{self, Gathered, Launch, WorkerCtx};
use crate::models::go_clean::go_clean;
use crate::models::ops::Op;
use crate::models::ref_abs::{ref_abs, AbsR};
use crate::models::reffs::{self, Pred, RState, Wild};
use crate::models::tree::{
    enum_trees, is_under, materialize_disk, namespace, observe_disk, parent_of, ref_relative, reroot, Kind, LinkDomain, Tree, TreeSpace, DEF_ID,
};
use crate::props::c01::{config_by_name, replay_history, stats_json};
use rivia::prelude::*;
use std::collections::BTreeMap;
use std::panic::{catch_unwind, AssertUnwindSafe};
use std::sync::Mutex;

// ---------------------------------------------------------------------------------------------
// The oracle table: one row per macro
// ---------------------------------------------------------------------------------------------
#[derive(Clone, Copy, Debug, PartialEq, Eq, PartialOrd, Ord, Hash)]
pub enum M {
    Exists,
    NoExists,
    IsDir,
    NoDir,
    IsFile,
    NoFile,
    IsSymlink,
    NoSymlink,
    ReadAll,
    Readlink,
    ReadlinkAbs,
    MkdirP,
    MkdirM,
    Mkfile,
    WriteAll,
    Copyfile,
    Symlink,
    Remove,
    RemoveAll,
}

pub struct Row {
    pub m: M,
    /// the macro's own name as it must appear in its panic messages
    pub name: &'static str,
    pub acting: bool,
    /// the macro's one-line doc sentence (src/testing/assert.rs)
    pub doc: &'static str,
    /// predicate (checking macros) / postcondition (acting macros) read off that sentence; P = abs(path)
    pub pred: &'static str,
}

pub const TABLE: [Row; 19] = [
    Row { m: M::Exists, name: "assert_vfs_exists!", acting: false, doc: "Assert that a file or directory exists", pred: "P names an entry of the tree" },
    Row { m: M::NoExists, name: "assert_vfs_no_exists!", acting: false, doc: "Assert the given path doesn't exist", pred: "P names no entry of the tree" },
    Row { m: M::IsDir, name: "assert_vfs_is_dir!", acting: false, doc: "Assert that the given path exists and is a directory", pred: "P is a directory (link exclusion: a symlink is not)" },
    Row { m: M::NoDir, name: "assert_vfs_no_dir!", acting: false, doc: "Assert that the given path isn't a directory", pred: "P is not a directory (missing, file or symlink)" },
    Row { m: M::IsFile, name: "assert_vfs_is_file!", acting: false, doc: "Assert that the given path exists and is a file", pred: "P is a file (link exclusion: a symlink is not)" },
    Row { m: M::NoFile, name: "assert_vfs_no_file!", acting: false, doc: "Assert that the given path isn't a file", pred: "P is not a file (missing, directory or symlink)" },
    Row { m: M::IsSymlink, name: "assert_vfs_is_symlink!", acting: false, doc: "Assert that the given path exists and is a symlink", pred: "P is a symlink" },
    Row { m: M::NoSymlink, name: "assert_vfs_no_symlink!", acting: false, doc: "Assert that the given path isn't a symlink", pred: "P is not a symlink (missing, file or directory)" },
    Row { m: M::ReadAll, name: "assert_vfs_read_all!", acting: false, doc: "Assert data read from the file matches the input data", pred: "P is a file whose content equals the given data (P a symlink: unspecified)" },
    Row { m: M::Readlink, name: "assert_vfs_readlink!", acting: false, doc: "Assert the reading of a link's target relative path", pred: "P is a symlink and the given path is its target in relative form: false when P is no symlink or clean(dir(P)/given) is not the target; true when it is and vfs.readlink(P) == given; another relative spelling of the target: unspecified" },
    Row { m: M::ReadlinkAbs, name: "assert_vfs_readlink_abs!", acting: false, doc: "Assert the reading of a link's target absolute path", pred: "P is a symlink whose absolute target equals abs(given)" },
    Row { m: M::MkdirP, name: "assert_vfs_mkdir_p!", acting: true, doc: "Assert the creation of the given directory.", pred: "performs mkdir_p(P); afterwards P is a directory" },
    Row { m: M::MkdirM, name: "assert_vfs_mkdir_m!", acting: true, doc: "Assert the creation of the given directory with the given mode", pred: "performs mkdir_m(P, mode); afterwards P is a directory and mode(P) == mode (mode given with the directory type bits as in the macro's example; a permission-only mode that equals the permissions: unspecified)" },
    Row { m: M::Mkfile, name: "assert_vfs_mkfile!", acting: true, doc: "Assert the creation of a file. If the file exists no change is made", pred: "performs mkfile(P); afterwards P is a file" },
    Row { m: M::WriteAll, name: "assert_vfs_write_all!", acting: true, doc: "Assert data is written to the given file", pred: "performs write_all(P, data); afterwards P is a file whose content equals data" },
    Row { m: M::Copyfile, name: "assert_vfs_copyfile!", acting: true, doc: "Assert the copy of a file", pred: "performs copy(P, Q) for a file P; afterwards P and Q are files with equal content" },
    Row { m: M::Symlink, name: "assert_vfs_symlink!", acting: true, doc: "Assert the creation of a symlink. If the symlink exists no change is made", pred: "performs symlink(P, target) unless P already is a symlink; afterwards P is a symlink" },
    Row { m: M::Remove, name: "assert_vfs_remove!", acting: true, doc: "Assert the removal of the target file or directory", pred: "performs remove(P); afterwards P does not exist" },
    Row { m: M::RemoveAll, name: "assert_vfs_remove_all!", acting: true, doc: "Assert the removal of the target path", pred: "performs remove_all(P); afterwards P does not exist" },
];

fn row(m: M) -> &'static Row {
    TABLE.iter().find(|r| r.m == m).expect("row")
}

/// One macro invocation in model coordinates (paths as in the un-rerooted namespace)
#[derive(Clone, Debug, PartialEq, Eq)]
pub struct Call {
    pub m: M,
    pub path: String,
    /// data / given link path / destination path / link target
    pub arg: String,
    pub mode: u32,
}

impl Call {
    fn new(m: M, path: &str) -> Call {
        Call { m, path: path.to_string(), arg: String::new(), mode: 0 }
    }
    fn with(m: M, path: &str, arg: &str) -> Call {
        Call { m, path: path.to_string(), arg: arg.to_string(), mode: 0 }
    }
    pub fn render(&self) -> String {
        let n = row(self.m).name;
        match self.m {
            M::ReadAll | M::Readlink | M::ReadlinkAbs | M::WriteAll | M::Copyfile | M::Symlink => format!("{}(vfs, {:?}, {:?})", n, self.path, self.arg),
            M::MkdirM => format!("{}(vfs, {:?}, 0o{:o})", n, self.path, self.mode),
            _ => format!("{}(vfs, {:?})", n, self.path),
        }
    }
}

pub const DATA: [&str; 3] = ["", "x", "other"];
pub const TARGETS: [&str; 3] = ["/a", "/b/a", "/zz"];
pub const MODES: [u32; 4] = [0o755, 0o700, 0o40755, 0o40700];

/// namespace paths plus one relative spelling and one path with a missing parent
pub fn arg_paths() -> Vec<String> {
    let mut ps = namespace(&["a", "b"], 2);
    ps.push("a".to_string());
    ps.push("/zz/a".to_string());
    ps
}

fn abs_of_arg(cwd: &str, p: &str) -> Option<String> {
    match ref_abs(cwd, p) {
        AbsR::Ok(x) => Some(x),
        _ => None,
    }
}

/// every macro invocation evaluated in a state with this cwd
pub fn calls_for(cwd: &str) -> Vec<Call> {
    let mut out = vec![];
    let dsts: Vec<String> = {
        let mut d = namespace(&["a", "b"], 2);
        d.push("/zz/a".to_string());
        d
    };
    for p in arg_paths() {
        let pa = match abs_of_arg(cwd, &p) {
            Some(x) => x,
            None => continue,
        };
        for m in [M::Exists, M::NoExists, M::IsDir, M::NoDir, M::IsFile, M::NoFile, M::IsSymlink, M::NoSymlink] {
            out.push(Call::new(m, &p));
        }
        for d in DATA {
            out.push(Call::with(M::ReadAll, &p, d));
        }
        for t in TARGETS {
            let rel = ref_relative(t, &parent_of(&pa));
            out.push(Call::with(M::Readlink, &p, if rel.is_empty() { "." } else { &rel }));
            out.push(Call::with(M::Readlink, &p, t));
            out.push(Call::with(M::ReadlinkAbs, &p, t));
        }
        out.push(Call::new(M::MkdirP, &p));
        for mode in MODES {
            out.push(Call { m: M::MkdirM, path: p.clone(), arg: String::new(), mode });
        }
        out.push(Call::new(M::Mkfile, &p));
        for d in DATA {
            out.push(Call::with(M::WriteAll, &p, d));
        }
        for q in &dsts {
            out.push(Call::with(M::Copyfile, &p, q));
        }
        for t in TARGETS {
            if t != pa {
                out.push(Call::with(M::Symlink, &p, t));
            }
        }
        // relative targets: symlink() resolves them against the link's directory, and so must the macro
        for t in ["a", "../a"] {
            out.push(Call::with(M::Symlink, &p, t));
        }
        out.push(Call::new(M::Remove, &p));
        out.push(Call::new(M::RemoveAll, &p));
    }
    out
}

// ---------------------------------------------------------------------------------------------
// Expanding the macros (the only place rivia's macros are invoked)
// ---------------------------------------------------------------------------------------------
/// Runs the macro; returns the panic message when it panicked. `c` is in the world's own
/// coordinates (already re-rooted for the sandbox).
fn run_macro<V: VirtualFileSystem>(vfs: &V, c: &Call) -> Option<String> {
    let p: &str = c.path.as_str();
    let a: &str = c.arg.as_str();
    let mode = c.mode;
    let r = catch_unwind(AssertUnwindSafe(|| match c.m {
        M::Exists => {
            assert_vfs_exists!(vfs, p);
        },
        M::NoExists => {
            assert_vfs_no_exists!(vfs, p);
        },
        M::IsDir => {
            assert_vfs_is_dir!(vfs, p);
        },
        M::NoDir => {
            assert_vfs_no_dir!(vfs, p);
        },
        M::IsFile => {
            assert_vfs_is_file!(vfs, p);
        },
        M::NoFile => {
            assert_vfs_no_file!(vfs, p);
        },
        M::IsSymlink => {
            assert_vfs_is_symlink!(vfs, p);
        },
        M::NoSymlink => {
            assert_vfs_no_symlink!(vfs, p);
        },
        M::ReadAll => {
            assert_vfs_read_all!(vfs, p, a);
        },
        M::Readlink => {
            let given = PathBuf::from(a);
            assert_vfs_readlink!(vfs, p, given);
        },
        M::ReadlinkAbs => {
            let given = PathBuf::from(a);
            assert_vfs_readlink_abs!(vfs, p, &given);
        },
        M::MkdirP => {
            assert_vfs_mkdir_p!(vfs, p);
        },
        M::MkdirM => {
            assert_vfs_mkdir_m!(vfs, p, mode);
        },
        M::Mkfile => {
            assert_vfs_mkfile!(vfs, p);
        },
        M::WriteAll => {
            assert_vfs_write_all!(vfs, p, a);
        },
        M::Copyfile => {
            assert_vfs_copyfile!(vfs, p, a);
        },
        M::Symlink => {
            assert_vfs_symlink!(vfs, p, a);
        },
        M::Remove => {
            assert_vfs_remove!(vfs, p);
        },
        M::RemoveAll => {
            assert_vfs_remove_all!(vfs, p);
        },
    }));
    match r {
        Ok(()) => None,
        Err(e) => Some(panic_message(&e)),
    }
}

// ---------------------------------------------------------------------------------------------
// Worlds: where a macro is run from a fresh copy of the pre-state
// ---------------------------------------------------------------------------------------------
pub struct RunOut {
    pub panic: Option<String>,
    /// complete state identical to the pre-state (full dump / observed tree + cwd)
    pub unchanged: bool,
    /// abstract post-state (Err: the abstraction is undefined, e.g. malformed dump)
    pub post: Result<RState, String>,
}

pub trait World {
    fn name(&self) -> &'static str;
    /// path of the model namespace as it is spelled for this world (absolute paths re-rooted)
    fn spell(&self, p: &str) -> String;
    fn run(&mut self, c: &Call) -> RunOut;
    /// value of vfs.readlink(path) called directly (None = Err / panic)
    fn direct_readlink(&mut self, path: &str) -> Option<String>;
    /// post-state of the direct vfs call from a fresh copy of the pre-state
    fn direct_op(&mut self, op: &Op) -> Result<RState, String>;
    fn ignore_owner(&self) -> bool {
        false
    }
}

pub struct MemWorld<'a> {
    pub fs: &'a Memfs,
    pub dump: &'a rivia::verif::Dump,
    pub wrapped: bool,
}

impl<'a> World for MemWorld<'a> {
    fn name(&self) -> &'static str {
        if self.wrapped {
            "Vfs::Memfs"
        } else {
            "Memfs"
        }
    }
    fn spell(&self, p: &str) -> String {
        p.to_string()
    }
    fn run(&mut self, c: &Call) -> RunOut {
        let fs = self.fs.verif_deep_clone();
        let (panic, d2) = if self.wrapped {
            let vfs = Vfs::Memfs(fs);
            let msg = run_macro(&vfs, c);
            let d2 = match &vfs {
                Vfs::Memfs(m) => m.verif_dump(),
                _ => unreachable!(),
            };
            (msg, d2)
        } else {
            let msg = run_macro(&fs, c);
            (msg, fs.verif_dump())
        };
        let unchanged = d2 == *self.dump;
        RunOut { panic, unchanged, post: abs_of(&d2) }
    }
    fn direct_readlink(&mut self, path: &str) -> Option<String> {
        let fs = self.fs.verif_deep_clone();
        catch_unwind(AssertUnwindSafe(|| fs.readlink(path).ok().map(|x| x.to_string_lossy().into_owned()))).ok().flatten()
    }
    fn direct_op(&mut self, op: &Op) -> Result<RState, String> {
        let fs = self.fs.verif_deep_clone();
        let _ = crate::models::ops::apply(&fs, op);
        abs_of(&fs.verif_dump())
    }
}

pub struct DiskWorld<'a> {
    pub sb: &'a Sandbox,
    pub tree: &'a Tree,
    pub dirty: bool,
    pub materialisations: u64,
    /// sandbox states that could not be materialised / observed (machinery failure, never a verdict)
    pub machinery: u64,
}

fn normalise_owner(t: &mut Tree) {
    for n in t.nodes.values_mut() {
        n.uid = DEF_ID;
        n.gid = DEF_ID;
    }
}

impl<'a> DiskWorld<'a> {
    fn fresh(&mut self) -> Result<(), String> {
        if self.dirty {
            self.sb.reset();
            materialize_disk(self.tree, &self.sb.root).map_err(|e| format!("materialise: {}", e))?;
            self.materialisations += 1;
            self.dirty = false;
        }
        std::env::set_current_dir(&self.sb.root).map_err(|e| format!("chdir: {}", e))
    }
    fn observe(&mut self) -> Result<RState, String> {
        let cwd = std::env::current_dir().map(|x| x.to_string_lossy().into_owned()).unwrap_or_default();
        let mut t = observe_disk(&self.sb.root).map_err(|e| format!("observe: {}", e))?;
        normalise_owner(&mut t);
        let rel_cwd = if cwd == self.sb.root {
            "/".to_string()
        } else if is_under(&cwd, &self.sb.root) {
            cwd[self.sb.root.len()..].to_string()
        } else {
            format!("!{}", cwd)
        };
        if t != *self.tree || rel_cwd != "/" {
            self.dirty = true;
        }
        Ok(RState { tree: t, cwd: rel_cwd })
    }
    fn spell_call(&self, c: &Call) -> Call {
        let mut c2 = c.clone();
        c2.path = self.spell(&c.path);
        match c.m {
            M::ReadlinkAbs | M::Copyfile | M::Symlink => c2.arg = self.spell(&c.arg),
            M::Readlink => {
                if c.arg.starts_with('/') {
                    c2.arg = self.spell(&c.arg)
                }
            },
            _ => {},
        }
        c2
    }
}

impl<'a> World for DiskWorld<'a> {
    fn name(&self) -> &'static str {
        "Vfs::Stdfs"
    }
    fn spell(&self, p: &str) -> String {
        if p.starts_with('/') {
            reroot(&self.sb.root, p)
        } else {
            p.to_string()
        }
    }
    fn ignore_owner(&self) -> bool {
        true
    }
    fn run(&mut self, c: &Call) -> RunOut {
        if let Err(e) = self.fresh() {
            self.machinery += 1;
            return RunOut { panic: None, unchanged: true, post: Err(e) };
        }
        let vfs = Vfs::Stdfs(Stdfs::new());
        let c2 = self.spell_call(c);
        let panic = run_macro(&vfs, &c2);
        let post = self.observe();
        let unchanged = !self.dirty;
        RunOut { panic, unchanged, post }
    }
    fn direct_readlink(&mut self, path: &str) -> Option<String> {
        if self.fresh().is_err() {
            return None;
        }
        let vfs = Vfs::Stdfs(Stdfs::new());
        let p = self.spell(path);
        catch_unwind(AssertUnwindSafe(|| vfs.readlink(&p).ok().map(|x| x.to_string_lossy().into_owned()))).ok().flatten()
    }
    fn direct_op(&mut self, op: &Op) -> Result<RState, String> {
        self.dirty = true;
        self.fresh()?;
        let vfs = Vfs::Stdfs(Stdfs::new());
        let op2 = op.map_paths(|p, _| self.spell(p));
        let _ = crate::models::ops::apply(&vfs, &op2);
        let r = self.observe();
        self.dirty = true;
        r
    }
}

// ---------------------------------------------------------------------------------------------
// Evaluating the table on the model
// ---------------------------------------------------------------------------------------------
#[derive(Clone, Copy, Debug, PartialEq, Eq)]
pub enum Tri {
    True,
    False,
    Unspecified,
}

fn tri(b: bool) -> Tri {
    if b {
        Tri::True
    } else {
        Tri::False
    }
}

fn content<'t>(t: &'t Tree, p: &str) -> Option<&'t [u8]> {
    match t.get(p) {
        Some(n) => match &n.kind {
            Kind::File(d) => Some(d.as_slice()),
            _ => None,
        },
        None => None,
    }
}

fn link_target<'t>(t: &'t Tree, p: &str) -> Option<&'t str> {
    match t.get(p) {
        Some(n) => match &n.kind {
            Kind::Link(x) => Some(x.as_str()),
            _ => None,
        },
        None => None,
    }
}

/// predicate of a checking macro in state `st` (P = absolute model path of the argument)
fn checking_pred(w: &mut dyn World, st: &RState, c: &Call, pa: &str) -> Tri {
    let t = &st.tree;
    let kind = t.kind(pa);
    match c.m {
        M::Exists => tri(kind != "missing"),
        M::NoExists => tri(kind == "missing"),
        M::IsDir => tri(kind == "dir"),
        M::NoDir => tri(kind != "dir"),
        M::IsFile => tri(kind == "file"),
        M::NoFile => tri(kind != "file"),
        M::IsSymlink => tri(kind == "link"),
        M::NoSymlink => tri(kind != "link"),
        M::ReadAll => match kind {
            "file" => tri(content(t, pa) == Some(c.arg.as_bytes())),
            "link" => Tri::Unspecified,
            _ => Tri::False,
        },
        M::Readlink => match link_target(t, pa) {
            None => Tri::False,
            Some(tg) => {
                let direct = w.direct_readlink(&c.path);
                let resolves = !c.arg.starts_with('/') && !c.arg.is_empty() && go_clean(&format!("{}/{}", parent_of(pa), c.arg)) == tg;
                let same = direct.as_deref() == Some(w.spell(&c.arg).as_str());
                if resolves && same {
                    Tri::True
                } else if !resolves && !same {
                    Tri::False
                } else {
                    Tri::Unspecified
                }
            },
        },
        M::ReadlinkAbs => match link_target(t, pa) {
            None => Tri::False,
            Some(tg) => match abs_of_arg(&st.cwd, &c.arg) {
                Some(g) => tri(g == tg),
                None => Tri::Unspecified,
            },
        },
        _ => Tri::Unspecified,
    }
}

/// postcondition of an acting macro evaluated on the state after the macro returned / panicked
fn acting_post(st_pre: &RState, post: &RState, c: &Call, pa: &str) -> Tri {
    let t = &post.tree;
    if t.through_link(pa) {
        return Tri::Unspecified;
    }
    let kind = t.kind(pa);
    match c.m {
        M::MkdirP => tri(kind == "dir"),
        M::MkdirM => {
            if kind != "dir" {
                return Tri::False;
            }
            let perms = t.get(pa).map(|n| n.mode).unwrap_or(0);
            if c.mode & 0o170000 != 0 {
                tri(c.mode == 0o40000 | perms)
            } else if c.mode == perms {
                // permission-only mode: `mode(P) == mode` read literally can never hold (mode() reports the
                // type bits), read as "permissions" it holds
                Tri::Unspecified
            } else {
                Tri::False
            }
        },
        M::Mkfile => tri(kind == "file"),
        M::WriteAll => tri(kind == "file" && content(t, pa) == Some(c.arg.as_bytes())),
        M::Copyfile => {
            let qa = match abs_of_arg(&st_pre.cwd, &c.arg) {
                Some(x) => x,
                None => return Tri::Unspecified,
            };
            if t.through_link(&qa) {
                return Tri::Unspecified;
            }
            tri(kind == "file" && t.kind(&qa) == "file" && content(t, pa) == content(t, &qa))
        },
        M::Symlink => tri(kind == "link"),
        M::Remove | M::RemoveAll => tri(kind == "missing"),
        _ => Tri::Unspecified,
    }
}

/// the vfs call the macro is documented to perform from `pre` (None: documented to perform none, or
/// the macro's own domain - copy of a *file* - is not met)
fn documented_op(pre: &RState, c: &Call, pa: &str) -> Option<Op> {
    let p = c.path.clone();
    match c.m {
        M::MkdirP => Some(Op::MkdirP(p)),
        M::MkdirM => Some(Op::MkdirM(p, c.mode)),
        M::Mkfile => Some(Op::Mkfile(p)),
        M::WriteAll => Some(Op::WriteAll(p, c.arg.as_bytes().to_vec())),
        M::Copyfile => {
            if pre.tree.kind(pa) == "file" {
                Some(Op::Copy(p, c.arg.clone()))
            } else {
                None
            }
        },
        M::Symlink => {
            if pre.tree.kind(pa) == "link" {
                None
            } else {
                Some(Op::Symlink(p, c.arg.clone()))
            }
        },
        M::Remove => Some(Op::Remove(p)),
        M::RemoveAll => Some(Op::RemoveAll(p)),
        _ => None,
    }
}

fn state_diff(want: &RState, got: &RState, wild: &Wild, ignore_owner: bool) -> Option<String> {
    if want.cwd != got.cwd {
        return Some(format!("cwd: expected {} observed {}", want.cwd, got.cwd));
    }
    let ka: Vec<&String> = want.tree.nodes.keys().collect();
    let kb: Vec<&String> = got.tree.nodes.keys().collect();
    if ka != kb {
        return Some(format!("names: expected {:?} observed {:?}", ka, kb));
    }
    for (k, x) in &want.tree.nodes {
        let y = &got.tree.nodes[k];
        if x.kind != y.kind {
            return Some(format!("{}: expected {:?} observed {:?}", k, x.kind, y.kind));
        }
        if x.mode != y.mode && !wild.mode.contains(k) {
            return Some(format!("{}: mode expected {:o} observed {:o}", k, x.mode, y.mode));
        }
        if !ignore_owner && (x.uid != y.uid || x.gid != y.gid) && !wild.owner.contains(k) {
            return Some(format!("{}: owner expected {}:{} observed {}:{}", k, x.uid, x.gid, y.uid, y.gid));
        }
    }
    None
}

pub struct Finding {
    pub sig: String,
    pub detail: String,
}

#[derive(Default, Clone)]
pub struct Stats {
    pub runs: u64,
    pub checking_runs: u64,
    pub acting_runs: u64,
    pub skipped_through_link: u64,
    pub unspecified: u64,
    pub effects_compared: u64,
    pub effects_outside_reference: u64,
    pub backend_deviates_from_reference: u64,
    pub permission_only_mode_panics: u64,
    pub malformed_post: u64,
    /// macro | class of P | passed / panicked  -> count
    pub matrix: BTreeMap<String, u64>,
}

impl Stats {
    pub fn merge(&mut self, o: &Stats) {
        self.runs += o.runs;
        self.checking_runs += o.checking_runs;
        self.acting_runs += o.acting_runs;
        self.skipped_through_link += o.skipped_through_link;
        self.unspecified += o.unspecified;
        self.effects_compared += o.effects_compared;
        self.effects_outside_reference += o.effects_outside_reference;
        self.backend_deviates_from_reference += o.backend_deviates_from_reference;
        self.permission_only_mode_panics += o.permission_only_mode_panics;
        self.malformed_post += o.malformed_post;
        for (k, v) in &o.matrix {
            *self.matrix.entry(k.clone()).or_insert(0) += v;
        }
    }
}

fn first_line(s: &str) -> String {
    s.trim().replace('\n', " | ")
}

/// The check of one macro invocation from one state in one world. Returns the findings (at most
/// one per invocation: the first discrepancy in a fixed priority order, so one defect maps to one
/// signature).
pub fn check_call(w: &mut dyn World, pre: &RState, c: &Call, st: &mut Stats) -> Option<Finding> {
    let r = row(c.m);
    let pa = abs_of_arg(&pre.cwd, &c.path)?;
    if pre.tree.through_link(&pa) {
        st.skipped_through_link += 1;
        return None;
    }
    if c.m == M::Copyfile {
        if let Some(qa) = abs_of_arg(&pre.cwd, &c.arg) {
            if pre.tree.through_link(&qa) {
                st.skipped_through_link += 1;
                return None;
            }
        }
    }
    let class = pre.tree.kind(&pa);
    let out = w.run(c);
    st.runs += 1;
    *st.matrix.entry(format!("{}|{}|{}", r.name, class, if out.panic.is_some() { "panicked" } else { "passed" })).or_insert(0) += 1;
    let sig = |what: &str| format!("{} · path is {} · {}", r.name, class, what);
    let head = |w: &dyn World| format!("{} on {} in state [{}] (cwd {})", c.render(), w.name(), pre.tree.render(), pre.cwd);
    let shown = |p: &Option<String>| match p {
        Some(m) => format!("panicked with {:?}", m),
        None => "returned without panic".to_string(),
    };
    if !r.acting {
        st.checking_runs += 1;
        let want = checking_pred(w, pre, c, &pa);
        if want == Tri::Unspecified {
            st.unspecified += 1;
        }
        match (&out.panic, want) {
            (Some(m), Tri::True) => {
                return Some(Finding {
                    sig: sig("panics although its predicate is true"),
                    detail: format!("{}: predicate \"{}\" is TRUE ({}), but the macro {}", head(w), r.pred, r.doc, format!("panicked with {:?}", first_line(m))),
                });
            },
            (None, Tri::False) => {
                return Some(Finding {
                    sig: sig("passes although its predicate is false"),
                    detail: format!("{}: predicate \"{}\" is FALSE ({}), but the macro returned without panic", head(w), r.pred, r.doc),
                });
            },
            _ => {},
        }
        if !out.unchanged {
            let post = match &out.post {
                Ok(p) => format!("[{}] (cwd {})", p.tree.render(), p.cwd),
                Err(e) => format!("<{}>", e),
            };
            return Some(Finding { sig: sig("checking macro changed the state"), detail: format!("{}: the macro {} and the state afterwards is {}", head(w), shown(&out.panic), post) });
        }
        if let Some(m) = &out.panic {
            if !m.contains(r.name) {
                return Some(Finding {
                    sig: sig("panic message does not name the macro"),
                    detail: format!("{}: the panic message {:?} does not contain {:?}", head(w), first_line(m), r.name),
                });
            }
            let abs_quoted = format!("{:?}", w.spell(&pa));
            let raw_quoted = format!("{:?}", w.spell(&c.path));
            if !m.contains(&abs_quoted) && !m.contains(&raw_quoted) {
                return Some(Finding {
                    sig: sig("panic message does not name the path"),
                    detail: format!("{}: the panic message {:?} contains neither {} nor {}", head(w), first_line(m), abs_quoted, raw_quoted),
                });
            }
        }
        return None;
    }
    // acting macro
    st.acting_runs += 1;
    let post = match &out.post {
        Ok(p) => p,
        Err(_) => {
            st.malformed_post += 1;
            return None;
        },
    };
    let holds = acting_post(pre, post, c, &pa);
    match (&out.panic, holds) {
        (None, Tri::False) => {
            return Some(Finding {
                sig: sig("passes although its postcondition does not hold (vacuous pass)"),
                detail: format!("{}: the macro returned without panic, but afterwards [{}] the postcondition \"{}\" does not hold", head(w), post.tree.render(), r.pred),
            });
        },
        (Some(m), Tri::True) => {
            return Some(Finding {
                sig: sig("panics although its postcondition holds"),
                detail: format!("{}: the macro panicked with {:?}, but afterwards [{}] the postcondition \"{}\" holds", head(w), first_line(m), post.tree.render(), r.pred),
            });
        },
        (Some(_), Tri::Unspecified) if c.m == M::MkdirM => st.permission_only_mode_panics += 1,
        (_, Tri::Unspecified) => st.unspecified += 1,
        _ => {},
    }
    // effect: the documented vfs call, per the reference filesystem
    let (want, wild): (RState, Wild) = match documented_op(pre, c, &pa) {
        None => {
            if c.m == M::Symlink {
                (pre.clone(), Wild::default()) // "If the symlink exists no change is made"
            } else {
                st.effects_outside_reference += 1;
                return None;
            }
        },
        Some(op) => match reffs::step(pre, &op) {
            Pred::Must { post, wild, .. } => (post, wild),
            Pred::MustErr { .. } => (pre.clone(), Wild::default()),
            _ => {
                st.effects_outside_reference += 1;
                return None;
            },
        },
    };
    st.effects_compared += 1;
    if let Some(d) = state_diff(&want, post, &wild, w.ignore_owner()) {
        // attribute: is it the macro or the backend call that deviates from the reference?
        if let Some(op) = documented_op(pre, c, &pa) {
            if let Ok(direct) = w.direct_op(&op) {
                if state_diff(&direct, post, &Wild::default(), false).is_none() {
                    st.backend_deviates_from_reference += 1;
                    *st.matrix.entry(format!("BACKEND-DEVIATES {} {}|{}|{}", w.name(), op.name(), class, d.split(':').next().unwrap_or(""))).or_insert(0) += 1;
                    return None;
                }
            }
        }
        return Some(Finding {
            sig: sig("effect differs from the documented operation"),
            detail: format!("{}: the macro {}; expected state afterwards [{}], observed [{}]: {}", head(w), shown(&out.panic), want.tree.render(), post.tree.render(), d),
        });
    }
    None
}

// ---------------------------------------------------------------------------------------------
// Memfs half: E1 observer
// ---------------------------------------------------------------------------------------------
pub struct C20Obs {
    pub stats: Mutex<Stats>,
    pub samples: Mutex<Vec<J>>,
}

impl Observer for C20Obs {
    fn state(&self, sv: &StateView) {
        let pre = match sv.abs {
            Ok(p) => p,
            Err(_) => return,
        };
        let calls = calls_for(&pre.cwd);
        let mut st = Stats::default();
        for wrapped in [false, true] {
            let mut w = MemWorld { fs: sv.fs, dump: sv.dump, wrapped };
            for (ci, c) in calls.iter().enumerate() {
                if let Some(f) = check_call(&mut w, pre, c, &mut st) {
                    vio(&f.sig, || f.detail.clone(), || {
                        let mut j = sv.space.case_json(sv.idx, None);
                        j.set("world", J::s(w.name()));
                        j.set("macro", J::s(c.render()));
                        j
                    });
                }
                if sv.idx % 211 == 5 && ci % 67 == 11 && !wrapped {
                    let mut sm = self.samples.lock().unwrap();
                    if sm.len() < 6 {
                        let o = w.run(c);
                        sm.push(J::obj([
                            ("world", J::s(w.name())),
                            ("history", J::s(sv.space.history_text(sv.idx))),
                            ("tree", J::s(pre.tree.render())),
                            ("macro", J::s(c.render())),
                            ("outcome", J::s(match &o.panic {
                                Some(m) => format!("panic: {}", first_line(m)),
                                None => "passed".to_string(),
                            })),
                        ]));
                    }
                }
            }
        }
        self.stats.lock().unwrap().merge(&st);
    }
}

// ---------------------------------------------------------------------------------------------
// Stdfs half: worker processes
// ---------------------------------------------------------------------------------------------
pub fn tree_space(max_entries: usize) -> TreeSpace {
    TreeSpace {
        names: vec!["a", "b"],
        max_depth: 2,
        max_entries,
        contents: vec![b"x".to_vec(), b"".to_vec()],
        links: LinkDomain::Resolving,
        extra_targets: vec![],
        target_depth: 2,
    }
}

fn stdfs_entries(tier: Tier) -> usize {
    tier.pick(3, 4)
}

fn check_tree_on_disk(sb: &Sandbox, tree: &Tree, st: &mut Stats, only: Option<&str>) -> (Vec<(Call, Finding)>, u64) {
    let mut t = tree.clone();
    t.fix_link_kinds();
    let pre = RState { tree: t, cwd: "/".to_string() };
    let mut w = DiskWorld { sb, tree, dirty: true, materialisations: 0, machinery: 0 };
    let mut out = vec![];
    for c in calls_for("/") {
        if let Some(o) = only {
            if c.render() != o {
                continue;
            }
        }
        if let Some(f) = check_call(&mut w, &pre, &c, st) {
            out.push((c, f));
        }
    }
    st.malformed_post += w.machinery;
    (out, w.materialisations)
}

// ---------------------------------------------------------------------------------------------
// assert_vfs_read_all! over multi-line contents: the explored states hold one-line contents only, and
// a comparison that walks lines (or stops at the shorter side) only shows on contents where one is a
// line-wise prefix of the other, differs by a final newline, or differs in a later line.
// ---------------------------------------------------------------------------------------------
fn read_all_matrix<V: VirtualFileSystem>(backend: &str, vfs: &V, dir: &str) -> Vec<(String, String)> {
    let texts = ["", "x", "l1", "l1\n", "l1\nl2", "l1\nl2\n", "l1\nl2\nl3", "l1\nXX\nl3", "\n", "\n\n", "l1\r\nl2"];
    let mut out = vec![];
    let p = format!("{}/ra-matrix", dir);
    for content in texts {
        if let Err(e) = vfs.write_all(&p, content.as_bytes()) {
            out.push((format!("{} read_all matrix · setup failed", backend), e.to_string()));
            return out;
        }
        for expected in texts {
            let r = catch_unwind(AssertUnwindSafe(|| {
                assert_vfs_read_all!(vfs, &p, expected);
            }));
            let panicked = r.is_err();
            let want_panic = content != expected;
            if panicked != want_panic {
                out.push((
                    format!("assert_vfs_read_all! · {} (multi-line contents)", if want_panic { "passes although its predicate is false" } else { "panics although its predicate is true" }),
                    format!("{}: file content {:?}, expected {:?}: the macro {}", backend, content, expected, if panicked { "panicked" } else { "returned without panic" }),
                ));
            }
        }
    }
    let _ = vfs.remove(&p);
    // assert_vfs_write_all! takes any bytes: data that is not text still satisfies "P is a file whose content
    // equals data" once written (the tree sweep hands its arguments over as strings)
    let datas: [&[u8]; 5] = [b"\xff\xfe\x00\x80", b"a\xc3", b"\x00", b"", b"plain"];
    for existing in [false, true] {
        for data in datas {
            let _ = vfs.remove(&p);
            if existing {
                if let Err(e) = vfs.write_all(&p, b"old content") {
                    out.push((format!("{} write_all matrix · setup failed", backend), e.to_string()));
                    return out;
                }
            }
            let r = catch_unwind(AssertUnwindSafe(|| {
                assert_vfs_write_all!(vfs, &p, data);
            }));
            let stored = catch_unwind(AssertUnwindSafe(|| -> Option<Vec<u8>> {
                use std::io::Read;
                let mut h = vfs.read(&p).ok()?;
                let mut v = vec![];
                h.read_to_end(&mut v).ok()?;
                Some(v)
            }))
            .unwrap_or(None);
            let holds = stored.as_deref() == Some(data);
            if r.is_err() && holds {
                out.push((
                    "assert_vfs_write_all! · panics although its predicate is true (byte data)".to_string(),
                    format!("{}: data {:?} over {}: the file holds exactly the data afterwards, yet the macro panicked", backend, data, if existing { "an existing file" } else { "a missing path" }),
                ));
            } else if r.is_ok() && !holds {
                out.push((
                    "assert_vfs_write_all! · passes although its predicate is false (byte data)".to_string(),
                    format!("{}: data {:?} over {}: the macro returned but the file holds {:?}", backend, data, if existing { "an existing file" } else { "a missing path" }, stored),
                ));
            }
        }
    }
    let _ = vfs.remove(&p);
    // a node that is neither file, directory nor link (a fifo; real filesystem only): whatever remove() does
    // with it, assert_vfs_remove! may only return when the path is gone afterwards
    if backend.contains("Stdfs") {
        let fifo = format!("{}/ra-fifo", dir);
        let c = std::ffi::CString::new(fifo.clone()).unwrap();
        if unsafe { libc::mkfifo(c.as_ptr(), 0o644) } == 0 {
            let r = catch_unwind(AssertUnwindSafe(|| {
                assert_vfs_remove!(vfs, &fifo);
            }));
            let still = std::fs::symlink_metadata(&fifo).is_ok();
            if r.is_ok() && still {
                out.push((
                    "assert_vfs_remove! · path is a fifo · passes although its postcondition does not hold (vacuous pass)".to_string(),
                    format!("{}: mkfifo {}; assert_vfs_remove! returned, the fifo still exists", backend, fifo),
                ));
            } else if r.is_err() && !still {
                out.push((
                    "assert_vfs_remove! · path is a fifo · panics although its postcondition holds".to_string(),
                    format!("{}: mkfifo {}; assert_vfs_remove! panicked although the fifo is gone", backend, fifo),
                ));
            }
            let _ = std::fs::remove_file(&fifo);
        }
    }
    out
}

pub fn worker(w: &mut WorkerCtx) {
    unsafe {
        libc::umask(0o022);
    }
    let max_entries: usize = w.arg(0).parse().unwrap_or(2);
    let sb = Sandbox::new("c20");
    if w.shard == 0 {
        for (sig, detail) in read_all_matrix("Vfs::Stdfs", &Vfs::Stdfs(Stdfs::new()), &sb.root) {
            w.vio(&sig, || detail, || J::obj([("world", J::s("Vfs::Stdfs")), ("part", J::s("read-all-matrix"))]));
        }
        sb.reset();
    }
    let mut trees = enum_trees(&tree_space(max_entries));
    let resolving = trees.len();
    // second family: states with links that do not resolve to a non-link (dangling /zz, chains, cycles)
    let mut sp2 = tree_space(max_entries.saturating_sub(1).max(2));
    sp2.links = LinkDomain::Any;
    sp2.extra_targets = vec!["/zz".to_string()];
    trees.extend(enum_trees(&sp2).into_iter().filter(|t| !t.links_resolve()));
    w.count("stdfs_trees_with_unresolving_links", if w.shard == 0 { (trees.len() - resolving) as u64 } else { 0 });
    let mut st = Stats::default();
    let mut mats = 0u64;
    let mut ntrees = 0u64;
    for (idx, tree) in trees.iter().enumerate() {
        if !w.mine(idx as u64) {
            continue;
        }
        ntrees += 1;
        let (fs, m) = check_tree_on_disk(&sb, tree, &mut st, None);
        mats += m;
        for (c, f) in fs {
            let (detail, render, tr) = (f.detail, c.render(), tree.render());
            w.vio(&f.sig, move || detail, move || {
                J::obj([("world", J::s("Vfs::Stdfs")), ("max_entries", J::i(max_entries as i64)), ("tree_idx", J::i(idx as i64)), ("tree", J::s(tr)), ("macro", J::s(render))])
            });
        }
        if idx % 37 == 9 {
            w.sample(J::obj([("world", J::s("Vfs::Stdfs")), ("tree", J::s(tree.render())), ("macro_invocations", J::i(calls_for("/").len() as i64))]));
        }
    }
    let _ = std::env::set_current_dir("/");
    w.count("stdfs_trees", ntrees);
    w.count("stdfs_materialisations", mats);
    w.count("stdfs_runs", st.runs);
    w.count("stdfs_checking_runs", st.checking_runs);
    w.count("stdfs_acting_runs", st.acting_runs);
    w.count("stdfs_skipped_through_link", st.skipped_through_link);
    w.count("stdfs_unspecified", st.unspecified);
    w.count("stdfs_effects_compared", st.effects_compared);
    w.count("stdfs_effects_outside_reference", st.effects_outside_reference);
    w.count("stdfs_backend_deviates_from_reference", st.backend_deviates_from_reference);
    w.count("stdfs_permission_only_mode_panics", st.permission_only_mode_panics);
    w.count("stdfs_machinery_failures", st.malformed_post);
    for (k, v) in &st.matrix {
        w.count(&format!("mx|{}", k), *v);
    }
}

// ---------------------------------------------------------------------------------------------
// testing::capture_panic: all nestings up to depth 3
// ---------------------------------------------------------------------------------------------
#[derive(Clone, Debug)]
struct Shape {
    children: Vec<Shape>,
    /// 0 = returns normally, 1 = panics with a &'static str payload, 2 = panics with a String payload
    ending: u8,
}

fn shapes(depth: usize) -> Vec<Shape> {
    let subs: Vec<Vec<Shape>> = if depth <= 1 {
        vec![vec![]]
    } else {
        let inner = shapes(depth - 1);
        let mut lists: Vec<Vec<Shape>> = vec![vec![]];
        for a in &inner {
            lists.push(vec![a.clone()]);
        }
        // two sequential inner captures
        for a in &inner {
            for b in &inner {
                lists.push(vec![a.clone(), b.clone()]);
            }
        }
        lists
    };
    let mut out = vec![];
    for l in subs {
        for ending in 0..3u8 {
            out.push(Shape { children: l.clone(), ending });
        }
    }
    out
}

fn shape_depth(s: &Shape) -> usize {
    1 + s.children.iter().map(shape_depth).max().unwrap_or(0)
}

fn shape_text(s: &Shape) -> String {
    let e = ["return", "panic(&str)", "panic(String)"][s.ending as usize];
    if s.children.is_empty() {
        format!("{{{}}}", e)
    } else {
        format!("{{{}; {}}}", s.children.iter().map(|c| format!("capture_panic({})", shape_text(c))).collect::<Vec<_>>().join("; "), e)
    }
}

/// run capture_panic on the closure described by `s`; mismatches are pushed to `bad`
fn run_shape(s: &Shape, id: &mut u32, bad: &Mutex<Vec<String>>, calls: &mut u64) {
    *id += 1;
    let my = *id;
    let msg = format!("\nc20 nested panic #{}\n  second line\n", my);
    const LIT: &str = "c20 literal payload";
    let mut inner_id = *id;
    let mut inner_calls = 0u64;
    let res = testing::capture_panic(AssertUnwindSafe(|| {
        for ch in &s.children {
            run_shape(ch, &mut inner_id, bad, &mut inner_calls);
        }
        match s.ending {
            1 => std::panic::panic_any(LIT),
            2 => panic!("{}", msg),
            _ => {},
        }
    }));
    *id = inner_id;
    *calls += inner_calls + 1;
    let want: Option<String> = match s.ending {
        1 => Some(LIT.to_string()),
        2 => Some(msg.clone()),
        _ => None,
    };
    let got: Option<String> = match &res {
        Ok(()) => None,
        Err(e) => Some(e.to_string()),
    };
    if want != got {
        bad.lock().unwrap().push(format!("closure {}: expected {:?}, capture_panic returned {:?}", shape_text(s), want.map(|m| format!("Err({:?})", m)).unwrap_or("Ok(())".into()), got.map(|m| format!("Err({:?})", m)).unwrap_or("Ok(())".into())));
    }
}

/// does a panic currently reach the default hook (i.e. is its report printed on stderr)?
fn default_hook_prints() -> bool {
    use std::os::unix::io::AsRawFd;
    let path = format!("/tmp/rvmc-c20-stderr.{}", std::process::id());
    let f = match std::fs::File::create(&path) {
        Ok(f) => f,
        Err(_) => return true,
    };
    let saved = unsafe { libc::dup(2) };
    if saved < 0 {
        return true;
    }
    unsafe {
        libc::dup2(f.as_raw_fd(), 2);
    }
    let _ = catch_unwind(|| panic!("c20-hook-probe"));
    unsafe {
        libc::dup2(saved, 2);
        libc::close(saved);
    }
    drop(f);
    let s = std::fs::read_to_string(&path).unwrap_or_default();
    let _ = std::fs::remove_file(&path);
    s.contains("c20-hook-probe")
}

/// returns (closures run, capture_panic calls, families)
fn capture_panic_test() -> (u64, u64) {
    let mut n = 0u64;
    let mut calls = 0u64;
    for s in shapes(3) {
        // start from the default hook so that "restored afterwards" is observable
        let _ = std::panic::take_hook();
        let bad = Mutex::new(vec![]);
        let mut id = 0;
        run_shape(&s, &mut id, &bad, &mut calls);
        n += 1;
        let d = shape_depth(&s);
        for b in bad.into_inner().unwrap() {
            let text = shape_text(&s);
            vio(&format!("capture_panic · nesting depth {} · wrong result", d), || format!("testing::capture_panic nesting {}: {}", text, b), || J::obj([("capture_panic_shape", J::s(&text))]));
        }
        if !default_hook_prints() {
            let text = shape_text(&s);
            vio(
                &format!("capture_panic · nesting depth {} · default panic hook not back in place afterwards", d),
                || format!("after the outermost testing::capture_panic({}) returned (default hook installed before the call), a panic is no longer reported by the default hook", text),
                || J::obj([("capture_panic_shape", J::s(&text))]),
            );
        }
    }
    quiet_panics();
    (n, calls)
}

// ---------------------------------------------------------------------------------------------
// Driver
// ---------------------------------------------------------------------------------------------
fn mem_configs(tier: Tier) -> Vec<&'static str> {
    tier.pick(vec!["A-2", "C-2"], vec!["A-3", "C-2", "D-3"])
}

pub fn run(ctx: &Ctx) -> i32 {
    quiet_panics();
    HANG_REPORT.set_prop(&ctx.prop);
    if let Some(p) = &ctx.replay {
        return replay(ctx, p);
    }
    // capture_panic first, while the process is still single-threaded (it swaps the global hook)
    let (cp_closures, cp_calls) = capture_panic_test();
    for (name, found) in [("Memfs", read_all_matrix("Memfs", &Memfs::new(), "/")), ("Vfs::Memfs", read_all_matrix("Vfs::Memfs", &Vfs::memfs(), "/"))] {
        for (sig, detail) in found {
            vio(&sig, || detail, || J::obj([("world", J::s(name)), ("part", J::s("read-all-matrix"))]));
        }
    }

    let obs = C20Obs { stats: Mutex::new(Stats::default()), samples: Mutex::new(vec![]) };
    let mut per_cfg = vec![];
    let (mut states, mut trans) = (0u64, 0u64);
    let mut all_fix = true;
    for name in mem_configs(ctx.tier) {
        let cfg = config_by_name(name).unwrap();
        let st = explore(&cfg, ctx.threads, &obs);
        println!("  config {}: {} states, {} transitions, fixpoint={}", name, st.states, st.transitions, !st.capped);
        states += st.states;
        trans += st.transitions;
        all_fix &= !st.capped;
        per_cfg.push(stats_json(name, &st));
    }
    let mem = obs.stats.lock().unwrap().clone();
    println!("  memfs half: {} macro runs ({} checking, {} acting), {} effects compared with RefFs", mem.runs, mem.checking_runs, mem.acting_runs, mem.effects_compared);

    // Stdfs half
    let me = stdfs_entries(ctx.tier);
    let mut g = Gathered::default();
    workers::run_workers(ctx, &Launch { name: "c20".into(), nshards: ctx.threads.max(1) as u64, extra: vec![me.to_string()], uid: None, env: None }, &mut g);
    for f in &g.failed {
        eprintln!("machinery: {}", f);
    }
    if !g.failed.is_empty() {
        return 2;
    }
    if g.c("stdfs_machinery_failures") > 0 || g.c("stdfs_trees") == 0 {
        eprintln!("machinery: {} sandbox states could not be materialised / observed ({} trees) - the Stdfs half needs a writable tmpfs", g.c("stdfs_machinery_failures"), g.c("stdfs_trees"));
        return 2;
    }
    println!("  stdfs half: {} trees (<= {} entries; resolving links, plus dangling / chained / cyclic links at one entry fewer), {} macro runs, {} materialisations", g.c("stdfs_trees"), me, g.c("stdfs_runs"), g.c("stdfs_materialisations"));

    let mut matrix: BTreeMap<String, u64> = mem.matrix.clone();
    for (k, v) in &g.counters {
        if let Some(k2) = k.strip_prefix("mx|") {
            *matrix.entry(k2.to_string()).or_insert(0) += v;
        }
    }
    let deviations: BTreeMap<String, u64> = matrix.iter().filter(|(k, _)| k.starts_with("BACKEND-DEVIATES")).map(|(k, v)| (k.clone(), *v)).collect();
    matrix.retain(|k, _| !k.starts_with("BACKEND-DEVIATES"));
    let mut samples = obs.samples.lock().unwrap().clone();
    samples.extend(g.samples.iter().cloned());
    let total_runs = mem.runs + g.c("stdfs_runs");
    let cov = J::obj([
        ("states", J::i(states + g.c("stdfs_trees"))),
        ("transitions", J::i(trans)),
        ("traces_validated_against_impl", J::i(total_runs)),
        ("evaluations", J::i(total_runs)),
        ("distinct_nontrivial", J::i(matrix.len() as i64)),
        ("rule", J::s("one evaluation = one macro expanded and run under catch_unwind from a fresh copy of one state; distinct_nontrivial = number of distinct (macro, kind of the path in the pre-state, passed/panicked) combinations observed (listed in outcome_matrix). Oracle: fixed table, one row per macro (see oracle_table); checking macros: panic <=> predicate false on the model tree, state untouched, message names the macro and the path; acting macros: panic <=> postcondition false on the post-state, and post-state == RefFs step of the documented vfs call where RefFs is determinate")),
        ("samples", J::Arr(samples)),
        ("exhaustive", J::Bool(all_fix)),
        ("bounds", J::s(format!(
            "Memfs / Vfs::Memfs: every state of the E1 fixpoints {:?}; Vfs::Stdfs: every tree over names {{a,b}} depth 2 with <= {} entries, contents {{\"x\",\"\"}}, resolving links; paths {:?}; data {:?}; link targets {:?}; modes {:?}",
            mem_configs(ctx.tier),
            me,
            arg_paths(),
            DATA,
            TARGETS,
            MODES.iter().map(|m| format!("0o{:o}", m)).collect::<Vec<_>>()
        ))),
        ("memfs_states", J::i(states)),
        ("memfs_macro_runs", J::i(mem.runs)),
        ("memfs_checking_runs", J::i(mem.checking_runs)),
        ("memfs_acting_runs", J::i(mem.acting_runs)),
        ("memfs_effects_compared_with_reffs", J::i(mem.effects_compared)),
        ("memfs_effects_outside_reference", J::i(mem.effects_outside_reference)),
        ("memfs_skipped_argument_through_link", J::i(mem.skipped_through_link)),
        ("memfs_predicate_unspecified", J::i(mem.unspecified)),
        ("memfs_backend_deviates_from_reference", J::i(mem.backend_deviates_from_reference)),
        ("memfs_mkdir_m_permission_only_mode_panics_unspecified", J::i(mem.permission_only_mode_panics)),
        ("stdfs_trees", J::i(g.c("stdfs_trees"))),
        ("stdfs_macro_runs", J::i(g.c("stdfs_runs"))),
        ("stdfs_materialisations", J::i(g.c("stdfs_materialisations"))),
        ("stdfs_effects_compared_with_reffs", J::i(g.c("stdfs_effects_compared"))),
        ("stdfs_effects_outside_reference", J::i(g.c("stdfs_effects_outside_reference"))),
        ("stdfs_skipped_argument_through_link", J::i(g.c("stdfs_skipped_through_link"))),
        ("stdfs_predicate_unspecified", J::i(g.c("stdfs_unspecified"))),
        ("stdfs_backend_deviates_from_reference", J::i(g.c("stdfs_backend_deviates_from_reference"))),
        ("stdfs_mkdir_m_permission_only_mode_panics_unspecified", J::i(g.c("stdfs_permission_only_mode_panics"))),
        ("capture_panic_nestings", J::i(cp_closures)),
        ("capture_panic_calls", J::i(cp_calls)),
        ("outcome_matrix", J::Obj(matrix.iter().map(|(k, v)| (k.clone(), J::i(*v))).collect())),
        ("backend_calls_deviating_from_reffs_not_attributed_to_the_macro", J::Obj(deviations.iter().map(|(k, v)| (k.clone(), J::i(*v))).collect())),
        ("oracle_table", J::arr(TABLE.iter().map(|r| J::obj([("macro", J::s(r.name)), ("kind", J::s(if r.acting { "acting" } else { "checking" })), ("doc", J::s(r.doc)), ("predicate", J::s(r.pred))])))),
        ("configurations", J::Arr(per_cfg)),
    ]);
    finish(ctx, Evidence {
        level: "model_checking",
        coverage: cov,
        assumptions: vec![
            "arguments that walk through a symlink are outside the compared domain (counted as skipped)".into(),
            "Stdfs half: pre-states contain only links that resolve to an existing non-link entry; runs as root on tmpfs with umask 022; owners are not compared there".into(),
            "read_all on a symlink, a relative spelling of a link target other than the one vfs.readlink returns, and mkdir_m with a permission-only mode equal to the resulting permissions are unspecified (either outcome accepted)".into(),
            "where RefFs answers Either/Skip for the documented call only 'panic <=> postcondition false' is checked; a post-state that differs from RefFs but equals the post-state of the direct vfs call is attributed to the backend (counted), not to the macro".into(),
            "testing::capture_panic: closures with &str / String payloads, nestings up to depth 3 run sequentially in one thread".into(),
        ],
    })
}

fn find_call(cwd: &str, render: &str) -> Option<Call> {
    calls_for(cwd).into_iter().find(|c| c.render() == render)
}

fn replay(ctx: &Ctx, p: &std::path::Path) -> i32 {
    let j = json::parse(&std::fs::read_to_string(p).expect("read replay")).expect("parse replay");
    let case = j.get("case").expect("case");
    if case.get("part").and_then(|x| x.as_str()) == Some("read-all-matrix") {
        let mut found = read_all_matrix("Memfs", &Memfs::new(), "/");
        if unsafe { libc::geteuid() } == 0 {
            let sb = Sandbox::new("c20r.matrix");
            found.extend(read_all_matrix("Vfs::Stdfs", &Vfs::Stdfs(Stdfs::new()), &sb.root));
        }
        for (sig, detail) in &found {
            println!("  {}: {}", sig, detail);
        }
        if found.is_empty() {
            println!("holds on this case");
            return 0;
        }
        println!("VIOLATION property={} replay={}", ctx.prop, p.display());
        return 1;
    }
    let want_sig = j.get("signature").and_then(|x| x.as_str()).unwrap_or("").to_string();
    let mut st = Stats::default();
    let mut found: Vec<Finding> = vec![];
    if let Some(shape) = case.get("capture_panic_shape").and_then(|x| x.as_str()) {
        println!("replay {} capture_panic nesting {}", ctx.prop, shape);
        capture_panic_test();
        let sigs = vio_signatures();
        for s in &sigs {
            println!("  observed signature: {}", s);
        }
        let hit = sigs.iter().any(|s| *s == want_sig);
        if hit {
            println!("VIOLATION property={} replay={}", ctx.prop, p.display());
            return 1;
        }
        println!("holds on this case");
        return 0;
    }
    let world = case.get("world").and_then(|x| x.as_str()).unwrap_or("Memfs").to_string();
    let mac = case.get("macro").and_then(|x| x.as_str()).expect("case.macro").to_string();
    if world == "Vfs::Stdfs" {
        unsafe {
            libc::umask(0o022);
        }
        let me = case.get("max_entries").and_then(|x| x.as_i64()).unwrap_or(2) as usize;
        let idx = case.get("tree_idx").and_then(|x| x.as_i64()).unwrap_or(0) as usize;
        let trees = enum_trees(&tree_space(me));
        let tree = trees.get(idx).expect("tree index");
        println!("replay {} world={} tree=[{}] {}", ctx.prop, world, tree.render(), mac);
        let sb = Sandbox::new("c20r");
        let (fs, _) = check_tree_on_disk(&sb, tree, &mut st, Some(&mac));
        let _ = std::env::set_current_dir("/");
        found.extend(fs.into_iter().map(|(_, f)| f));
    } else {
        let cfg = config_by_name(case.get("config").and_then(|x| x.as_str()).expect("config")).expect("known config");
        println!("replay {} world={} config {} {}", ctx.prop, world, cfg.name, mac);
        let (fs, _) = replay_history(&cfg, case).expect("history");
        let dump = fs.verif_dump();
        let pre = abs_of(&dump).expect("well-formed pre-state");
        println!("  pre-state: [{}] (cwd {})", pre.tree.render(), pre.cwd);
        let c = find_call(&pre.cwd, &mac).expect("macro invocation of the enumeration");
        let mut w = MemWorld { fs: &fs, dump: &dump, wrapped: world == "Vfs::Memfs" };
        let o = w.run(&c);
        println!("  {} -> {}", c.render(), match &o.panic {
            Some(m) => format!("panic {:?}", m),
            None => "returned".to_string(),
        });
        if let Ok(post) = &o.post {
            println!("  post-state: [{}] (cwd {})", post.tree.render(), post.cwd);
        }
        println!("  table row: {} / {}", row(c.m).doc, row(c.m).pred);
        if let Some(f) = check_call(&mut w, &pre, &c, &mut st) {
            found.push(f);
        }
    }
    for f in &found {
        println!("  DISCREPANCY [{}]: {}", f.sig, f.detail);
    }
    if !found.is_empty() {
        println!("VIOLATION property={} replay={}", ctx.prop, p.display());
        1
    } else {
        println!("holds on this case");
        0
    }
}

//! C07 Handles from read/write/append honour the std Read, Seek and Write contracts.
//!
//! Read side (model checking of the handle as a small state machine, state = (content, position)):
//! for every content of a fixed set and EVERY sequence of calls up to a length bound over a fixed
//! alphabet of `read(buf)`, `read_to_end` and `seek` calls (in-range and out-of-range), the handle
//! returned by `vfs.read(path)` is driven in lock-step with `std::io::Cursor<Vec<u8>>` over the same
//! bytes. Every step must agree: byte counts, bytes, positions, Ok/Err-ness; after a seek that
//! fails on both sides the position is probed with `seek(Current(0))` and must be unchanged; a
//! panic is a violation. The sequences form a prefix tree explored level by level; every sequence
//! is executed from scratch on a fresh handle (the handle is a `Box<dyn ReadSeek>` and cannot be
//! cloned) and a branch is not extended after its first divergence.
//! Memfs runs on threads (each sequence builds its own `Memfs::new()`), Stdfs runs in
//! single-threaded worker processes on real files in a private tmpfs sandbox.
//!
//! Write side: every chunking of every prefix of the data strings x flush / no flush after each
//! chunk, then drop (= "dropping the handle after any prefix of the chunk/flush sequence"), for
//! `write` and `append` handles over a missing file and over an existing file "XY". After every
//! flush and after the drop an independent observation of the file (Stdfs: `std::fs::read`; Memfs:
//! the stored bytes through the `verif_dump` hook, and then `vfs.read()`+`read_to_end` and
//! `vfs.read_all` must return exactly those bytes) must give previous content (append) or nothing
//! (write) followed by exactly the bytes written through the handle so far. Content between
//! flushes is unspecified and not looked at. `write_all` / `append_all` must equal the handle form.
//!
//! Signatures are `<backend> <call kind>: <kind of discrepancy>`, so that one defect maps to one or
//! two signatures (e.g. `memfs read: panic after seek past end`,
//! `memfs seek(Current): negative position accepted`).
use crate::common::json::{self, bytes_repr, J};
use crate::common::par::*;
use crate::common::report::*;
use crate::engines::sandbox::Sandbox;
use crate::engines::workers::{run_workers, Gathered, Launch, WorkerCtx};
use rivia::prelude::*;
use std::collections::{BTreeMap, BTreeSet, HashSet};
use std::io::Cursor;
use std::panic::{catch_unwind, AssertUnwindSafe};
use std::sync::Mutex;

const CONTENTS: [&str; 4] = ["", "a", "abc", "é€"];
const WDATA_QUICK: [&str; 3] = ["ab", "abc", "é!"];
const WDATA_THOROUGH: [&str; 5] = ["ab", "abc", "é!", "abcd", "€\nz"];
const EXISTING: &[u8] = b"XY";
const WORKER_SHARDS: u64 = 16;

fn read_maxlen(t: Tier) -> usize {
    // the property design asks for 4 (quick 3); measured cost allows one level more in each tier
    t.pick(4, 6)
}
fn read_maxlen_stdfs(t: Tier) -> usize {
    t.pick(4, 5)
}

// ---------------------------------------------------------------------------------------------
// operations on a read handle
// ---------------------------------------------------------------------------------------------
#[derive(Clone, Copy, PartialEq, Eq, Debug)]
enum Op {
    Read(usize),
    /// Read::read_exact with a buffer of this length (a provided method a handle may override)
    ReadExact(usize),
    ReadToEnd,
    Seek(SeekFrom),
}

impl Op {
    fn name(&self) -> String {
        match self {
            Op::Read(n) => format!("read(buf {})", n),
            Op::ReadExact(n) => format!("read_exact(buf {})", n),
            Op::ReadToEnd => "read_to_end".to_string(),
            Op::Seek(s) => format!("seek({:?})", s),
        }
    }
    fn kind(&self) -> String {
        match self {
            Op::Read(_) => "read".to_string(),
            Op::ReadExact(_) => "read_exact".to_string(),
            Op::ReadToEnd => "read_to_end".to_string(),
            Op::Seek(SeekFrom::Start(_)) => "seek(Start)".to_string(),
            Op::Seek(SeekFrom::Current(_)) => "seek(Current)".to_string(),
            Op::Seek(SeekFrom::End(_)) => "seek(End)".to_string(),
        }
    }
    fn encode(&self) -> String {
        match self {
            Op::Read(n) => format!("read:{}", n),
            Op::ReadExact(n) => format!("read_exact:{}", n),
            Op::ReadToEnd => "read_to_end".to_string(),
            Op::Seek(SeekFrom::Start(n)) => format!("seek:start:{}", n),
            Op::Seek(SeekFrom::Current(n)) => format!("seek:current:{}", n),
            Op::Seek(SeekFrom::End(n)) => format!("seek:end:{}", n),
        }
    }
    fn decode(s: &str) -> Option<Op> {
        let parts: Vec<&str> = s.split(':').collect();
        match parts.as_slice() {
            ["read", n] => n.parse().ok().map(Op::Read),
            ["read_exact", n] => n.parse().ok().map(Op::ReadExact),
            ["read_to_end"] => Some(Op::ReadToEnd),
            ["seek", "start", n] => n.parse().ok().map(|n| Op::Seek(SeekFrom::Start(n))),
            ["seek", "current", n] => n.parse().ok().map(|n| Op::Seek(SeekFrom::Current(n))),
            ["seek", "end", n] => n.parse().ok().map(|n| Op::Seek(SeekFrom::End(n))),
            _ => None,
        }
    }
}

/// The alphabet of the property for a content of `len` bytes (duplicates removed, order kept)
/// `extreme`: offsets beyond i64 (Memfs only - the kernel's off_t ends at i64::MAX, so a real file cannot
/// follow Cursor there)
fn alphabet(len: usize, extreme: bool) -> Vec<Op> {
    let l = len as i64;
    let mut v: Vec<Op> = vec![];
    let mut push = |o: Op| {
        if !v.contains(&o) {
            v.push(o)
        }
    };
    for n in [0, 1, 2, len, len + 1] {
        push(Op::Read(n));
    }
    push(Op::ReadToEnd);
    for n in [1, len, len + 1] {
        push(Op::ReadExact(n));
    }
    for n in [0, 1, len as u64, len as u64 + 2] {
        push(Op::Seek(SeekFrom::Start(n)));
    }
    for n in [-(l + 1), -1, 0, 1, l + 1, i64::MIN] {
        push(Op::Seek(SeekFrom::Current(n)));
    }
    for n in [-(l + 1), -1, 0, 1] {
        push(Op::Seek(SeekFrom::End(n)));
    }
    if extreme {
        push(Op::Seek(SeekFrom::Start(1u64 << 63)));
        push(Op::Seek(SeekFrom::Start(u64::MAX)));
        push(Op::Seek(SeekFrom::End(i64::MAX)));
    }
    v
}

#[derive(Clone, PartialEq, Debug)]
enum Out {
    Data(Vec<u8>),
    Over(usize),
    Pos(u64),
    Err(String),
    Panic(String),
}

impl Out {
    fn show(&self) -> String {
        match self {
            Out::Data(b) => format!("Ok({}) bytes \"{}\"", b.len(), bytes_repr(b)),
            Out::Over(k) => format!("Ok({}) which exceeds the buffer length", k),
            Out::Pos(p) => format!("Ok({})", p),
            Out::Err(k) => format!("Err({})", k),
            Out::Panic(m) => format!("PANIC \"{}\"", m),
        }
    }
}

/// One call on anything that is Read + Seek (the oracle and the handle go through the same code)
fn apply<H: Read + Seek + ?Sized>(h: &mut H, op: Op) -> Out {
    let r = catch_unwind(AssertUnwindSafe(|| match op {
        Op::Read(n) => {
            let mut buf = vec![0xAAu8; n];
            match h.read(&mut buf) {
                Ok(k) if k <= n => {
                    buf.truncate(k);
                    Out::Data(buf)
                },
                Ok(k) => Out::Over(k),
                Err(e) => Out::Err(format!("{:?}", e.kind())),
            }
        },
        Op::ReadExact(n) => {
            let mut buf = vec![0xAAu8; n];
            match h.read_exact(&mut buf) {
                Ok(()) => Out::Data(buf),
                Err(e) => Out::Err(format!("{:?}", e.kind())),
            }
        },
        Op::ReadToEnd => {
            let mut v = Vec::new();
            match h.read_to_end(&mut v) {
                Ok(k) if k == v.len() => Out::Data(v),
                Ok(k) => Out::Over(k),
                Err(e) => Out::Err(format!("{:?}", e.kind())),
            }
        },
        Op::Seek(s) => match h.seek(s) {
            Ok(p) => Out::Pos(p),
            Err(e) => Out::Err(format!("{:?}", e.kind())),
        },
    }));
    match r {
        Ok(o) => o,
        Err(e) => Out::Panic(panic_message(&e)),
    }
}

fn pos_class(pos: u64, len: u64) -> &'static str {
    if pos < len {
        "position inside the data"
    } else if pos == len {
        "position at the end"
    } else {
        "after seek past end"
    }
}

/// Compare one step; returns the signature tail of the discrepancy. `pos` is the oracle position
/// before the call.
fn judge(op: Op, want: &Out, got: &Out, pos: u64, len: u64) -> Option<String> {
    let kind = op.kind();
    if let Out::Panic(_) = got {
        return Some(match op {
            Op::Seek(_) => format!("{}: panic where Cursor returns {}", kind, if matches!(want, Out::Err(_)) { "Err" } else { "Ok" }),
            _ => format!("{}: panic {}", kind, pos_class(pos, len)),
        });
    }
    match (want, got) {
        (Out::Data(w), Out::Data(g)) => {
            if w.len() != g.len() {
                Some(format!("{}: wrong byte count {}", kind, pos_class(pos, len)))
            } else if w != g {
                Some(format!("{}: wrong bytes {}", kind, pos_class(pos, len)))
            } else {
                None
            }
        },
        (Out::Data(_), Out::Over(_)) => Some(format!("{}: count larger than buffer", kind)),
        (Out::Data(_), Out::Err(_)) => Some(format!("{}: unexpected error {}", kind, pos_class(pos, len))),
        (Out::Pos(w), Out::Pos(g)) => {
            if w != g {
                Some(format!("{}: wrong position returned", kind))
            } else {
                None
            }
        },
        (Out::Pos(_), Out::Err(_)) => Some(format!("{}: unexpected error", kind)),
        (Out::Err(_), Out::Pos(_)) => {
            // Cursor refuses exactly the targets that are negative or do not fit u64
            let target: i128 = match op {
                Op::Seek(SeekFrom::Start(n)) => n as i128,
                Op::Seek(SeekFrom::Current(n)) => pos as i128 + n as i128,
                Op::Seek(SeekFrom::End(n)) => len as i128 + n as i128,
                _ => 0,
            };
            if target < 0 {
                Some(format!("{}: negative position accepted", kind))
            } else {
                Some(format!("{}: overflowing position accepted", kind))
            }
        },
        (Out::Err(_), Out::Err(_)) => None, // error kinds are not part of the statement
        _ => Some(format!("{}: result of a different shape", kind)),
    }
}

struct Run {
    /// (oracle, handle) per executed step
    outs: Vec<(Out, Out)>,
    /// position probe after a seek that failed on both sides: (step, oracle, handle)
    probes: Vec<(usize, Out, Out)>,
    /// first divergence: (step index, signature tail)
    div: Option<(usize, String)>,
    calls: u64,
    /// the oracle run touched an edge: failing seek, position beyond the end, short/empty read
    edge: bool,
    /// oracle positions after each step
    positions: Vec<u64>,
    /// the oracle and a file legitimately part ways after this sequence (see read_exact beyond the end): it is
    /// judged as it stands and not extended
    cut: bool,
}

/// Drive handle and Cursor in lock-step; stops at the first divergence.
fn run_seq(h: &mut dyn ReadSeek, content: &[u8], ops: &[Op]) -> Run {
    let mut cur = Cursor::new(content.to_vec());
    let len = content.len() as u64;
    let mut r = Run { outs: Vec::with_capacity(ops.len()), probes: vec![], div: None, calls: 0, edge: false, positions: Vec::with_capacity(ops.len()), cut: false };
    for (i, &op) in ops.iter().enumerate() {
        let pos = cur.position();
        let want = apply(&mut cur, op);
        let got = apply(h, op);
        r.calls += 1;
        match (&want, op) {
            (Out::Err(_), _) => r.edge = true,
            (Out::Data(d), Op::Read(n)) if d.len() < n => r.edge = true,
            _ => {},
        }
        if cur.position() > len {
            r.edge = true;
        }
        r.positions.push(cur.position());
        let verdict = judge(op, &want, &got, pos, len);
        let both_failed = matches!(want, Out::Err(_)) && matches!(got, Out::Err(_));
        r.outs.push((want, got));
        if let Some(sig) = verdict {
            r.div = Some((i, sig));
            return r;
        }
        // (a failed read_exact from a position beyond the end: Cursor pulls its position back to the end, a file
        // has no reason to move - not probed)
        let probe_ok = !(matches!(op, Op::ReadExact(_)) && pos > len);
        if both_failed && !probe_ok {
            r.cut = true;
            return r;
        }
        if both_failed && probe_ok {
            // the position after a call that failed on both sides (unchanged after a failed seek, at the end after a
            // failed read_exact - whatever Cursor does): observe through seek(Current(0))
            let probe = Op::Seek(SeekFrom::Current(0));
            let pw = apply(&mut cur, probe);
            let pg = apply(h, probe);
            r.calls += 1;
            let bad = match (&pw, &pg) {
                (_, Out::Panic(_)) => Some(format!("{}: panic probing the position after a failed call", op.kind())),
                (Out::Pos(a), Out::Pos(b)) if a == b => None,
                _ if matches!(op, Op::Seek(_)) => Some(format!("{}: position changed by a failed seek", op.kind())),
                _ => Some(format!("{}: position after the failed call differs from Cursor's", op.kind())),
            };
            r.probes.push((i, pw, pg));
            if let Some(sig) = bad {
                r.div = Some((i, sig));
                return r;
            }
        }
    }
    r
}

fn describe_run(backend: &str, content: &[u8], ops: &[Op], r: &Run) -> String {
    let mut s = format!(
        "{} handle from read() over \"{}\" ({} bytes), call sequence [{}]; oracle = std::io::Cursor over the same bytes",
        backend,
        bytes_repr(content),
        content.len(),
        ops.iter().map(|o| o.name()).collect::<Vec<_>>().join(", ")
    );
    for (i, (w, g)) in r.outs.iter().enumerate() {
        s.push_str(&format!("\nstep {} {}: Cursor {} | handle {}", i + 1, ops[i].name(), w.show(), g.show()));
        for (pi, pw, pg) in &r.probes {
            if *pi == i {
                s.push_str(&format!("\n   probe seek(Current(0)): Cursor {} | handle {}", pw.show(), pg.show()));
            }
        }
    }
    if let Some((i, sig)) = &r.div {
        s.push_str(&format!("\nfirst divergence at step {}: {}", i + 1, sig));
    }
    s
}

fn hex(b: &[u8]) -> String {
    b.iter().map(|x| format!("{:02x}", x)).collect()
}
fn unhex(s: &str) -> Vec<u8> {
    (0..s.len() / 2).filter_map(|i| u8::from_str_radix(&s[2 * i..2 * i + 2], 16).ok()).collect()
}

fn read_case_json(backend: &str, content: &[u8], ops: &[Op]) -> J {
    J::obj([
        ("side", J::s("read")),
        ("backend", J::s(backend)),
        ("content_hex", J::s(hex(content))),
        ("content", J::s(bytes_repr(content))),
        ("ops", J::strs(ops.iter().map(|o| o.encode()))),
    ])
}

// ---------------------------------------------------------------------------------------------
// prefix tree exploration
// ---------------------------------------------------------------------------------------------
struct Hd {
    h: Option<Box<dyn ReadSeek>>,
    _keep: Option<Memfs>,
}

impl Drop for Hd {
    fn drop(&mut self) {
        // dropping a handle must not take the checker down either
        let h = self.h.take();
        let _ = catch_unwind(AssertUnwindSafe(move || drop(h)));
    }
}

fn open_memfs(content: &[u8]) -> Result<Hd, String> {
    let r = catch_unwind(AssertUnwindSafe(|| -> Result<Hd, String> {
        let vfs = Memfs::new();
        let path = vfs.root().mash("f");
        memfs_store(&vfs, &path, content)?;
        let h = vfs.read(&path).map_err(|e| format!("read() failed: {}", e))?;
        Ok(Hd { h: Some(h), _keep: Some(vfs) })
    }));
    match r {
        Ok(x) => x,
        Err(e) => Err(format!("panic: {}", panic_message(&e))),
    }
}

/// Put `content` into a Memfs file through the public API (handle + flush, so that it depends on
/// neither the convenience form nor the write-back at drop)
fn memfs_store(vfs: &Memfs, path: &Path, content: &[u8]) -> Result<(), String> {
    let mut h = vfs.write(path).map_err(|e| format!("write() failed: {}", e))?;
    h.write_all(content).map_err(|e| format!("write_all on the handle failed: {}", e))?;
    h.flush().map_err(|e| format!("flush failed: {}", e))?;
    drop(h);
    Ok(())
}

/// Independent look at what a Memfs stores for `path` (verification hook, no handle involved)
fn memfs_stored(vfs: &Memfs, path: &Path) -> Option<Vec<u8>> {
    let key = path.to_string_lossy().into_owned();
    vfs.verif_dump().files.into_iter().find(|f| f.key == key).map(|f| f.data)
}

/// The read side needs files with known content; establish once per content that the setup works
fn memfs_setup_probe(content: &[u8]) -> Result<(), String> {
    let r = catch_unwind(AssertUnwindSafe(|| -> Result<(), String> {
        let vfs = Memfs::new();
        let path = vfs.root().mash("f");
        memfs_store(&vfs, &path, content)?;
        match memfs_stored(&vfs, &path) {
            Some(d) if d == content => Ok(()),
            other => Err(format!("after write()+write_all+flush+drop of \"{}\" the file system stores {:?}", bytes_repr(content), other.map(|d| bytes_repr(&d)))),
        }
    }));
    match r {
        Ok(x) => x,
        Err(e) => Err(format!("panic: {}", panic_message(&e))),
    }
}

fn open_stdfs(path: &str) -> Result<Hd, String> {
    let r = catch_unwind(AssertUnwindSafe(|| -> Result<Hd, String> {
        let vfs = Stdfs::new();
        let h = vfs.read(path).map_err(|e| format!("read() failed: {}", e))?;
        Ok(Hd { h: Some(h), _keep: None })
    }));
    match r {
        Ok(x) => x,
        Err(e) => Err(format!("panic: {}", panic_message(&e))),
    }
}

struct Found {
    count: u64,
    key: (usize, usize, u64, usize),
    detail: String,
    case: J,
}

#[derive(Default)]
struct Explored {
    seqs: u64,
    calls: u64,
    edge: u64,
    divergent: u64,
    states: HashSet<(u8, u64)>,
    found: BTreeMap<String, Found>,
    per_level: Vec<u64>,
    samples: Vec<J>,
}

#[derive(Default)]
struct Local {
    seqs: u64,
    calls: u64,
    edge: u64,
    divergent: u64,
    states: HashSet<(u8, u64)>,
    found: BTreeMap<String, Found>,
    next: Vec<u8>,
    samples: Vec<J>,
}

fn note(found: &mut BTreeMap<String, Found>, sig: String, key: (usize, usize, u64, usize), detail: impl FnOnce() -> String, case: impl FnOnce() -> J) {
    match found.get_mut(&sig) {
        Some(f) => {
            f.count += 1;
            if key < f.key {
                f.key = key;
                f.detail = detail();
                f.case = case();
            }
        },
        None => {
            found.insert(sig, Found { count: 1, key, detail: detail(), case: case() });
        },
    }
}

fn merge_found(into: &mut BTreeMap<String, Found>, from: BTreeMap<String, Found>) {
    for (sig, f) in from {
        match into.get_mut(&sig) {
            Some(g) => {
                g.count += f.count;
                if f.key < g.key {
                    g.key = f.key;
                    g.detail = f.detail;
                    g.case = f.case;
                }
            },
            None => {
                into.insert(sig, f);
            },
        }
    }
}

fn owner(ci: usize, seq: &[u8], n: u64) -> u64 {
    let a0 = seq.first().map(|x| *x as u64 + 1).unwrap_or(0);
    let a1 = seq.get(1).map(|x| *x as u64 + 1).unwrap_or(0);
    (ci as u64 * 10007 + a0 * 101 + a1 * 7) % n
}

/// Level by level exploration of the prefix tree of call sequences.
/// `shard`: in a worker process sequences of length <= 2 are executed by every worker (to learn
/// which prefixes are sound) but counted and reported only by their owner; from length 3 on each
/// worker extends only the length-2 prefixes it owns.
fn explore<O>(backend: &str, threads: usize, maxlen: usize, shard: Option<(u64, u64)>, open: &O) -> Explored
where
    O: Fn(usize) -> Result<Hd, String> + Sync,
{
    let mut ex = Explored::default();
    ex.per_level = vec![0; maxlen + 1];
    let alphas: Vec<Vec<Op>> = CONTENTS.iter().map(|c| alphabet(c.len(), backend == "memfs")).collect();
    // frontier per content: flat array of op indexes with stride = level
    let mut frontiers: Vec<Vec<u8>> = CONTENTS.iter().map(|_| vec![]).collect();
    for ci in 0..CONTENTS.len() {
        ex.states.insert((ci as u8, 0));
    }
    for level in 1..=maxlen {
        for ci in 0..CONTENTS.len() {
            let content = CONTENTS[ci].as_bytes();
            let alpha = &alphas[ci];
            let stride = level - 1;
            let frontier = std::mem::take(&mut frontiers[ci]);
            let n: u64 = if stride == 0 { 1 } else { (frontier.len() / stride) as u64 };
            if level > 1 && frontier.is_empty() {
                continue;
            }
            let locals: Vec<Mutex<Local>> = (0..threads.max(1)).map(|_| Mutex::new(Local::default())).collect();
            let sample_at: [u64; 2] = [n / 3, n - 1];
            par_for(threads.max(1), n, 64, |slot, fi| {
                let mut lg = locals[slot].lock().unwrap_or_else(|e| e.into_inner());
                let l = &mut *lg;
                let prefix: &[u8] = &frontier[(fi as usize) * stride..(fi as usize + 1) * stride];
                let mut seq: Vec<u8> = prefix.to_vec();
                seq.push(0);
                let mut ops: Vec<Op> = prefix.iter().map(|&a| alpha[a as usize]).collect();
                ops.push(alpha[0]);
                for (oi, &op) in alpha.iter().enumerate() {
                    seq[stride] = oi as u8;
                    ops[stride] = op;
                    let counted = match shard {
                        Some((s, ns)) => level > 2 || owner(ci, &seq, ns) == s,
                        None => true,
                    };
                    let key = (level, ci, fi, oi);
                    let mut hd = match open(ci) {
                        Ok(h) => h,
                        Err(e) => {
                            if counted {
                                note(&mut l.found, format!("{} read handle: cannot be obtained", backend), key, || format!("{} setup for content \"{}\": {}", backend, bytes_repr(content), e), || read_case_json(backend, content, &ops));
                            }
                            continue;
                        },
                    };
                    let r = run_seq(&mut **hd.h.as_mut().unwrap(), content, &ops);
                    drop(hd);
                    if counted {
                        l.seqs += 1;
                        l.calls += r.calls;
                        if r.edge {
                            l.edge += 1;
                        }
                        for p in &r.positions {
                            l.states.insert((ci as u8, *p));
                        }
                    }
                    match &r.div {
                        Some((step, sig)) => {
                            if *step + 1 < level {
                                // a prefix that was sound when it was explored now diverges
                                if counted {
                                    note(&mut l.found, format!("{} read handle: behaviour not reproducible", backend), key, || describe_run(backend, content, &ops, &r), || read_case_json(backend, content, &ops));
                                }
                            } else if counted {
                                l.divergent += 1;
                                note(&mut l.found, format!("{} {}", backend, sig), key, || describe_run(backend, content, &ops, &r), || read_case_json(backend, content, &ops));
                            }
                        },
                        None => {
                            if level < maxlen && !r.cut {
                                let keep = match shard {
                                    Some((s, ns)) if level == 2 => owner(ci, &seq, ns) == s,
                                    _ => true,
                                };
                                if keep {
                                    l.next.extend_from_slice(&seq);
                                }
                            }
                            if counted && level == maxlen && sample_at.contains(&fi) && oi == alpha.len() / 2 && l.samples.len() < 2 {
                                l.samples.push(J::obj([
                                    ("backend", J::s(backend)),
                                    ("content", J::s(bytes_repr(content))),
                                    ("sequence", J::strs(ops.iter().map(|o| o.name()))),
                                    ("results_equal_to_cursor", J::strs(r.outs.iter().map(|(w, _)| w.show()))),
                                ]));
                            }
                        },
                    }
                }
            });
            // merge (deterministic: next frontier sorted, witnesses by smallest key)
            let mut next: Vec<Vec<u8>> = vec![];
            for m in locals {
                let l = m.into_inner().unwrap_or_else(|e| e.into_inner());
                ex.seqs += l.seqs;
                ex.per_level[level] += l.seqs;
                ex.calls += l.calls;
                ex.edge += l.edge;
                ex.divergent += l.divergent;
                ex.states.extend(l.states);
                merge_found(&mut ex.found, l.found);
                if ex.samples.len() < 4 {
                    ex.samples.extend(l.samples);
                }
                if !l.next.is_empty() {
                    next.push(l.next);
                }
            }
            if level < maxlen {
                let mut items: Vec<&[u8]> = next.iter().flat_map(|v| v.chunks(level)).collect();
                items.sort();
                let mut flat = Vec::with_capacity(items.len() * level);
                for it in items {
                    flat.extend_from_slice(it);
                }
                frontiers[ci] = flat;
            }
        }
    }
    ex
}

// ---------------------------------------------------------------------------------------------
// write side
// ---------------------------------------------------------------------------------------------
#[derive(Clone, Copy, PartialEq, Eq, Debug)]
enum Kind {
    Write,
    Append,
}
impl Kind {
    fn name(&self) -> &'static str {
        match self {
            Kind::Write => "write",
            Kind::Append => "append",
        }
    }
    fn conv(&self) -> &'static str {
        match self {
            Kind::Write => "write_all",
            Kind::Append => "append_all",
        }
    }
}

#[derive(Clone, PartialEq, Eq, Debug)]
enum Ev {
    W(Vec<u8>),
    F,
}

#[derive(Clone, Debug)]
struct WCase {
    kind: Kind,
    existing: bool,
    events: Vec<Ev>,
    /// the convenience form (write_all / append_all of the whole data) instead of a handle
    conv: Option<Vec<u8>>,
}

/// all compositions of `b` into consecutive non-empty chunks
fn compositions(b: &[u8]) -> Vec<Vec<Vec<u8>>> {
    if b.is_empty() {
        return vec![vec![]];
    }
    let mut out = vec![];
    for first in 1..=b.len() {
        for mut rest in compositions(&b[first..]) {
            let mut v = vec![b[..first].to_vec()];
            v.append(&mut rest);
            out.push(v);
        }
    }
    out
}

/// Every distinct event sequence that is a prefix of (some chunking of `data` with a flush or not
/// after each chunk): chunkings of every byte prefix data[..m] x flush flags; the drop follows.
fn event_prefixes(data: &[u8]) -> Vec<Vec<Ev>> {
    let mut set: BTreeSet<Vec<u8>> = BTreeSet::new();
    let mut out = vec![];
    for m in 0..=data.len() {
        for comp in compositions(&data[..m]) {
            let k = comp.len();
            for flags in 0..(1u32 << k) {
                let mut evs = vec![];
                let mut key = vec![];
                for (i, c) in comp.iter().enumerate() {
                    evs.push(Ev::W(c.clone()));
                    key.push(b'w');
                    key.push(c.len() as u8);
                    if flags & (1 << i) != 0 {
                        evs.push(Ev::F);
                        key.push(b'f');
                    }
                }
                if set.insert(key) {
                    out.push(evs);
                }
            }
        }
    }
    out.sort_by_key(|e| e.len());
    out
}

fn wdata(t: Tier) -> Vec<&'static str> {
    match t {
        Tier::Quick => WDATA_QUICK.to_vec(),
        Tier::Thorough => WDATA_THOROUGH.to_vec(),
    }
}

fn write_cases(t: Tier) -> Vec<WCase> {
    let mut v = vec![];
    for d in wdata(t) {
        for evs in event_prefixes(d.as_bytes()) {
            for kind in [Kind::Write, Kind::Append] {
                for existing in [false, true] {
                    v.push(WCase { kind, existing, events: evs.clone(), conv: None });
                }
            }
        }
        for kind in [Kind::Write, Kind::Append] {
            for existing in [false, true] {
                v.push(WCase { kind, existing, events: vec![], conv: Some(d.as_bytes().to_vec()) });
            }
        }
    }
    // simplest first
    v.sort_by_key(|c| (c.conv.is_some(), c.events.len()));
    // empty write calls between, after and instead of real ones: a call that moves no byte changes nothing -
    // neither what the next flush shows nor what the drop persists
    for kind in [Kind::Write, Kind::Append] {
        for existing in [false, true] {
            let w = |x: &[u8]| Ev::W(x.to_vec());
            for evs in [
                vec![w(b"abc"), w(b""), Ev::F],
                vec![w(b"abc"), w(b"")],
                vec![w(b""), w(b"abc"), w(b""), Ev::F, w(b"de"), w(b"")],
                vec![w(b"")],
                vec![w(b""), Ev::F],
                vec![w(b"ab"), Ev::F, w(b""), Ev::F, w(b"c"), w(b""), w(b"")],
            ] {
                v.push(WCase { kind, existing, events: evs, conv: None });
            }
        }
    }
    // single write calls far larger than any internal buffer (after everything else): a handle may not cap,
    // split or drop part of one call's data
    let big = |n: usize, salt: usize| -> Vec<u8> { (0..n).map(|i| b'a' + ((i * 7 + i / 251 + salt) % 26) as u8).collect() };
    for kind in [Kind::Write, Kind::Append] {
        for existing in [false, true] {
            v.push(WCase { kind, existing, events: vec![Ev::W(big(100_000, 0)), Ev::F, Ev::W(big(70_000, 3))], conv: None });
            v.push(WCase { kind, existing, events: vec![Ev::W(big(65_537, 1))], conv: None });
            v.push(WCase { kind, existing, events: vec![Ev::W(big(300_000, 2)), Ev::W(big(1, 5)), Ev::F], conv: None });
        }
    }
    v
}

thread_local! {
    /// open the handle through a spelling of the path that is not clean (dir/zz/../name): what the handle
    /// writes back to must be the file, whatever the path looked like when the handle was opened
    static UNCLEAN_OPEN: std::cell::Cell<bool> = const { std::cell::Cell::new(false) };
}

fn open_spelling(p: &Path) -> PathBuf {
    if UNCLEAN_OPEN.with(|x| x.get()) {
        match (p.parent(), p.file_name()) {
            (Some(d), Some(n)) => d.join("zz").join("..").join(n),
            _ => p.to_path_buf(),
        }
    } else {
        p.to_path_buf()
    }
}

thread_local! {
    /// how the pre-existing file of a Memfs write-side case came to be at its path (0 written there, 1 moved there,
    /// 2 copied there from a moved file)
    static ROUTE: std::cell::Cell<u8> = const { std::cell::Cell::new(0) };
}

/// A backend instance holding exactly one file path
struct Wb<V: VirtualFileSystem> {
    name: &'static str,
    vfs: V,
    path: PathBuf,
    disk: bool,
    /// Memfs only: the stored bytes seen through the verification hook (no handle involved)
    peek: Option<fn(&V, &Path) -> Option<Vec<u8>>>,
}

impl<V: VirtualFileSystem> Wb<V> {
    /// Independent observation of the file content: std::fs::read on disk, the stored bytes of the
    /// Memfs through the dump hook
    fn observe(&self) -> Result<Vec<u8>, String> {
        if self.disk {
            std::fs::read(&self.path).map_err(|e| format!("std::fs::read: {}", e))
        } else {
            match catch_unwind(AssertUnwindSafe(|| self.peek.and_then(|f| f(&self.vfs, &self.path)))) {
                Ok(Some(d)) => Ok(d),
                Ok(None) => Err("no file data stored under the path".to_string()),
                Err(e) => Err(format!("panic in the dump hook: {}", panic_message(&e))),
            }
        }
    }
    fn prepare(&self, existing: bool) -> Result<(), String> {
        if self.disk {
            let _ = std::fs::remove_file(&self.path);
            if existing {
                std::fs::write(&self.path, EXISTING).map_err(|e| e.to_string())?;
            }
            Ok(())
        } else if existing {
            // a fresh Memfs per case; the initial file is created through the public API - directly, or under
            // another name and then moved, or moved and then copied to the path (a stored file must not remember
            // where it came from)
            match catch_unwind(AssertUnwindSafe(|| -> Result<(), String> {
                let route = ROUTE.with(|r| r.get());
                let first = if route == 0 { self.path.clone() } else { self.path.with_file_name("origin") };
                let mut h = self.vfs.write(&first).map_err(|e| e.to_string())?;
                h.write_all(EXISTING).map_err(|e| e.to_string())?;
                h.flush().map_err(|e| e.to_string())?;
                drop(h);
                if route == 1 {
                    self.vfs.move_p(&first, &self.path).map_err(|e| e.to_string())?;
                } else if route == 2 {
                    let mid = self.path.with_file_name("moved");
                    self.vfs.move_p(&first, &mid).map_err(|e| e.to_string())?;
                    self.vfs.copy(&mid, &self.path).map_err(|e| e.to_string())?;
                }
                let seen = self.observe()?;
                if seen != EXISTING {
                    return Err(format!("initial content reads back as \"{}\"", bytes_repr(&seen)));
                }
                Ok(())
            })) {
                Ok(x) => x,
                Err(e) => Err(format!("panic: {}", panic_message(&e))),
            }
        } else {
            Ok(())
        }
    }
    /// the public API reader: a fresh read() handle drained with read_to_end
    fn readback(&self) -> Result<Vec<u8>, String> {
        {
            match catch_unwind(AssertUnwindSafe(|| -> Result<Vec<u8>, String> {
                let mut h = self.vfs.read(&self.path).map_err(|e| format!("read(): {}", e))?;
                let mut v = vec![];
                h.read_to_end(&mut v).map_err(|e| format!("read_to_end: {}", e))?;
                Ok(v)
            })) {
                Ok(x) => x,
                Err(e) => Err(format!("panic while reading back: {}", panic_message(&e))),
            }
        }
    }
    /// second independent reader where the expected content is text: vfs.read_all
    fn read_all_text(&self) -> Result<Vec<u8>, String> {
        match catch_unwind(AssertUnwindSafe(|| self.vfs.read_all(&self.path))) {
            Ok(Ok(s)) => Ok(s.into_bytes()),
            Ok(Err(e)) => Err(format!("read_all: {}", e)),
            Err(e) => Err(format!("panic in read_all: {}", panic_message(&e))),
        }
    }
}

fn disc_class(kind: Kind, base: &[u8], written: &[u8], initial: &[u8], seen: &Result<Vec<u8>, String>) -> String {
    let seen = match seen {
        Err(_) => return "file cannot be read".to_string(),
        Ok(s) => s,
    };
    let mut want = base.to_vec();
    want.extend_from_slice(written);
    if seen.len() < want.len() && want.starts_with(seen) {
        return "handle bytes missing".to_string();
    }
    if kind == Kind::Append && !seen.starts_with(base) {
        return "previous content wrong".to_string();
    }
    if kind == Kind::Write && !initial.is_empty() && seen.starts_with(initial) {
        return "previous content wrong".to_string();
    }
    "unexpected bytes".to_string()
}

#[derive(Default)]
struct WStats {
    cases: u64,
    calls: u64,
    checks: u64,
    states: BTreeSet<(Vec<u8>, Vec<u8>)>,
}

fn events_str(evs: &[Ev]) -> String {
    let mut v: Vec<String> = evs
        .iter()
        .map(|e| match e {
            Ev::W(c) if c.len() > 64 => format!("write({} bytes \"{}...\")", c.len(), bytes_repr(&c[..16])),
            Ev::W(c) => format!("write(\"{}\")", bytes_repr(c)),
            Ev::F => "flush".to_string(),
        })
        .collect();
    v.push("drop".to_string());
    v.join(", ")
}

/// Run one write-side case; returns (signature, detail) of the first violation
fn run_wcase<V: VirtualFileSystem>(mk: &dyn Fn() -> Wb<V>, c: &WCase, st: &mut WStats) -> Option<(String, String)> {
    let b = &mk();
    let initial: &[u8] = if c.existing { EXISTING } else { b"" };
    let base: Vec<u8> = if c.kind == Kind::Append { initial.to_vec() } else { vec![] };
    let head = |what: &str| {
        format!(
            "{} {}() handle over {} file, sequence [{}]: {}",
            b.name,
            c.kind.name(),
            if c.existing { "an existing \"XY\"" } else { "a missing" },
            events_str(&c.events),
            what
        )
    };
    if let Err(e) = b.prepare(c.existing) {
        return Some((format!("{} write-side setup failed", b.name), head(&format!("creating the initial file failed: {}", e))));
    }
    st.cases += 1;
    let check = |point: &str, written: &[u8], st: &mut WStats| -> Option<(String, String)> {
        let mut want = base.clone();
        want.extend_from_slice(written);
        st.checks += 1;
        let seen = b.observe();
        if let Ok(s) = &seen {
            st.states.insert((s.clone(), written.to_vec()));
        }
        if seen.as_ref().ok() != Some(&want) {
            let cls = disc_class(c.kind, &base, written, initial, &seen);
            let seen_s = match &seen {
                Ok(s) => format!("\"{}\"", bytes_repr(s)),
                Err(e) => format!("error {}", e),
            };
            return Some((
                format!("{} {} handle: content after {} differs ({})", b.name, c.kind.name(), point, cls),
                head(&format!("after {} {} sees {} but the file must hold \"{}\" (= \"{}\" kept + \"{}\" written through the handle)", point, if b.disk { "std::fs::read" } else { "the stored file data (dump hook)" }, seen_s, bytes_repr(&want), bytes_repr(&base), bytes_repr(written))),
            ));
        }
        if !b.disk {
            // the content is right; the public readers must now show exactly that
            let mut readers: Vec<(&str, Result<Vec<u8>, String>)> = vec![("vfs.read()+read_to_end", b.readback())];
            if std::str::from_utf8(&want).is_ok() {
                readers.push(("vfs.read_all", b.read_all_text()));
            }
            for (rname, got) in readers {
                if got.as_ref().ok() != Some(&want) {
                    return Some((
                        format!("{} {}: does not return the stored content", b.name, rname),
                        head(&format!("after {} the file stores \"{}\" as it must, but {} gives {:?}", point, bytes_repr(&want), rname, got.as_ref().map(|d| bytes_repr(d)))),
                    ));
                }
            }
        }
        None
    };

    if let Some(data) = &c.conv {
        // convenience form against the oracle and against the handle form on an identical fresh file
        let r = catch_unwind(AssertUnwindSafe(|| match c.kind {
            Kind::Write => b.vfs.write_all(&b.path, data),
            Kind::Append => b.vfs.append_all(&b.path, data),
        }));
        st.calls += 1;
        let cname = c.kind.conv();
        match r {
            Err(e) => return Some((format!("{} {}: panic", b.name, cname), head(&format!("{}(\"{}\") panicked: {}", cname, bytes_repr(data), panic_message(&e))))),
            Ok(Err(e)) => return Some((format!("{} {}: unexpected error", b.name, cname), head(&format!("{}(\"{}\") failed: {}", cname, bytes_repr(data), e)))),
            Ok(Ok(())) => {},
        }
        let conv_seen = b.observe();
        let mut want = base.clone();
        want.extend_from_slice(data);
        st.checks += 1;
        if conv_seen.as_ref().ok() != Some(&want) {
            return Some((
                format!("{} {}: wrong content ({})", b.name, cname, disc_class(c.kind, &base, data, initial, &conv_seen)),
                head(&format!("{}(\"{}\") left {:?}, expected \"{}\"", cname, bytes_repr(data), conv_seen.as_ref().map(|s| bytes_repr(s)), bytes_repr(&want))),
            ));
        }
        // handle form on the same starting point (a fresh file system instance / a re-created file)
        let b = &mk();
        if let Err(e) = b.prepare(c.existing) {
            return Some((format!("{} write-side setup failed", b.name), head(&format!("re-creating the initial file failed: {}", e))));
        }
        let hr = catch_unwind(AssertUnwindSafe(|| -> Result<(), String> {
            let mut h = match c.kind {
                Kind::Write => b.vfs.write(&b.path),
                Kind::Append => b.vfs.append(&b.path),
            }
            .map_err(|e| e.to_string())?;
            h.write_all(data).map_err(|e| e.to_string())?;
            h.flush().map_err(|e| e.to_string())?;
            drop(h);
            Ok(())
        }));
        st.calls += 3;
        let handle_seen = match hr {
            Ok(Ok(())) => b.observe(),
            Ok(Err(e)) => Err(e),
            Err(e) => Err(format!("panic: {}", panic_message(&e))),
        };
        if handle_seen.as_ref().ok() != conv_seen.as_ref().ok() {
            return Some((
                format!("{} {}: differs from the handle form", b.name, cname),
                head(&format!("{} left {:?} but {}()+write_all+flush+drop left {:?}", cname, conv_seen.as_ref().map(|s| bytes_repr(s)), c.kind.name(), handle_seen.as_ref().map(|s| bytes_repr(s)))),
            ));
        }
        return None;
    }

    // handle form
    let opened = catch_unwind(AssertUnwindSafe(|| match c.kind {
        Kind::Write => b.vfs.write(open_spelling(&b.path)),
        Kind::Append => b.vfs.append(open_spelling(&b.path)),
    }));
    st.calls += 1;
    let mut h = match opened {
        Ok(Ok(h)) => SafeBox(Some(h)),
        Ok(Err(e)) => return Some((format!("{} {}(): unexpected error", b.name, c.kind.name()), head(&format!("opening failed: {}", e)))),
        Err(e) => return Some((format!("{} {}(): panic", b.name, c.kind.name()), head(&format!("opening panicked: {}", panic_message(&e))))),
    };
    let mut written: Vec<u8> = vec![];
    // while an append handle is open the file still reads as its old content followed by some prefix of
    // what went through the handle (nothing of the old content disappears before the first flush)
    let check_open = |point: &str, written: &[u8], st: &mut WStats| -> Option<(String, String)> {
        if c.kind != Kind::Append {
            return None;
        }
        st.checks += 1;
        let got = b.readback();
        let ok = match &got {
            Ok(g) => g.len() >= base.len() && g.starts_with(&base) && written.starts_with(&g[base.len()..]),
            Err(_) => !c.existing && false,
        };
        if ok {
            return None;
        }
        Some((
            format!("{} append handle: old content not readable while the handle is open", b.name),
            head(&format!("{} vfs.read()+read_to_end gives {:?}, expected \"{}\" followed by a prefix of \"{}\"", point, got.as_ref().map(|d| bytes_repr(d)), bytes_repr(&base), bytes_repr(written))),
        ))
    };
    if let Some(v) = check_open("right after append() returned the handle", &written, st) {
        return Some(v);
    }
    for ev in &c.events {
        match ev {
            Ev::W(chunk) => {
                let mut off = 0;
                let mut guard = 0;
                if chunk.is_empty() {
                    // one raw write call that moves no byte (write_all would not call the handle at all)
                    st.calls += 1;
                    match catch_unwind(AssertUnwindSafe(|| h.0.as_mut().unwrap().write(&[]))) {
                        Err(e) => return Some((format!("{} {} handle: write panic", b.name, c.kind.name()), head(&format!("write(\"\") panicked: {}", panic_message(&e))))),
                        Ok(Err(e)) => return Some((format!("{} {} handle: write unexpected error", b.name, c.kind.name()), head(&format!("write(\"\") failed: {}", e)))),
                        Ok(Ok(0)) => {},
                        Ok(Ok(k)) => return Some((format!("{} {} handle: write returned an impossible count", b.name, c.kind.name()), head(&format!("write of 0 bytes returned Ok({})", k)))),
                    }
                }
                while off < chunk.len() {
                    guard += 1;
                    st.calls += 1;
                    let r = catch_unwind(AssertUnwindSafe(|| h.0.as_mut().unwrap().write(&chunk[off..])));
                    match r {
                        Err(e) => {
                            return Some((format!("{} {} handle: write panic", b.name, c.kind.name()), head(&format!("write(\"{}\") panicked: {}", bytes_repr(&chunk[off..]), panic_message(&e)))));
                        },
                        Ok(Err(e)) => return Some((format!("{} {} handle: write unexpected error", b.name, c.kind.name()), head(&format!("write(\"{}\") failed: {}", bytes_repr(&chunk[off..]), e)))),
                        Ok(Ok(k)) => {
                            if k == 0 || k > chunk.len() - off || guard > 16 {
                                return Some((format!("{} {} handle: write returned an impossible count", b.name, c.kind.name()), head(&format!("write of {} bytes returned Ok({})", chunk.len() - off, k))));
                            }
                            written.extend_from_slice(&chunk[off..off + k]);
                            off += k;
                        },
                    }
                }
                if let Some(v) = check_open("after a write that was not flushed yet", &written, st) {
                    return Some(v);
                }
            },
            Ev::F => {
                st.calls += 1;
                match catch_unwind(AssertUnwindSafe(|| h.0.as_mut().unwrap().flush())) {
                    Err(e) => {
                        return Some((format!("{} {} handle: flush panic", b.name, c.kind.name()), head(&format!("flush panicked: {}", panic_message(&e)))));
                    },
                    Ok(Err(e)) => return Some((format!("{} {} handle: flush unexpected error", b.name, c.kind.name()), head(&format!("flush failed: {}", e)))),
                    Ok(Ok(())) => {},
                }
                if let Some(v) = check("flush", &written, st) {
                    return Some(v);
                }
            },
        }
    }
    st.calls += 1;
    let inner = h.0.take();
    if let Err(e) = catch_unwind(AssertUnwindSafe(move || drop(inner))) {
        return Some((format!("{} {} handle: drop panic", b.name, c.kind.name()), head(&format!("drop panicked: {}", panic_message(&e)))));
    }
    check("drop", &written, st)
}

/// write handle whose drop can never take the checker down (early returns drop it implicitly)
struct SafeBox(Option<Box<dyn Write>>);
impl Drop for SafeBox {
    fn drop(&mut self) {
        let h = self.0.take();
        let _ = catch_unwind(AssertUnwindSafe(move || drop(h)));
    }
}

fn wcase_json(backend: &str, c: &WCase) -> J {
    J::obj([
        ("side", J::s("write")),
        ("backend", J::s(backend)),
        ("kind", J::s(c.kind.name())),
        ("existing", J::Bool(c.existing)),
        ("events", J::strs(c.events.iter().map(|e| match e {
            Ev::W(b) => format!("w:{}", hex(b)),
            Ev::F => "f".to_string(),
        }))),
        ("conv_hex", match &c.conv {
            Some(d) => J::s(hex(d)),
            None => J::Null,
        }),
        ("readable", J::s(match &c.conv {
            Some(d) => format!("{}(\"{}\")", c.kind.conv(), bytes_repr(d)),
            None => events_str(&c.events),
        })),
    ])
}

fn wcase_from_json(j: &J) -> Option<WCase> {
    let kind = match j.get("kind")?.as_str()? {
        "write" => Kind::Write,
        "append" => Kind::Append,
        _ => return None,
    };
    let existing = matches!(j.get("existing"), Some(J::Bool(true)));
    let mut events = vec![];
    for e in j.get("events")?.as_arr()? {
        let s = e.as_str()?;
        if s == "f" {
            events.push(Ev::F);
        } else {
            events.push(Ev::W(unhex(s.strip_prefix("w:")?)));
        }
    }
    let conv = j.get("conv_hex").and_then(|x| x.as_str()).map(unhex);
    Some(WCase { kind, existing, events, conv })
}

fn run_wcase_memfs(c: &WCase, st: &mut WStats) -> Option<(String, String)> {
    let mk = || {
        let vfs = Memfs::new();
        let path = vfs.root().mash("f");
        Wb { name: "memfs", vfs, path, disk: false, peek: Some(memfs_stored as fn(&Memfs, &Path) -> Option<Vec<u8>>) }
    };
    // a pre-existing file is tried in all three ways of having got there
    let routes: &[u8] = if c.existing { &[0, 1, 2] } else { &[0] };
    for &r in routes {
        ROUTE.with(|x| x.set(r));
        let res = run_wcase(&mk, c, st);
        ROUTE.with(|x| x.set(0));
        if let Some((sig, detail)) = res {
            let how = ["", " (file moved to its path)", " (file copied to its path from a moved file)"][r as usize];
            return Some((format!("{}{}", sig, how), format!("{}{}", detail, how)));
        }
    }
    // once more with the handle opened through an unclean spelling of the path
    if c.conv.is_none() {
        UNCLEAN_OPEN.with(|x| x.set(true));
        let res = run_wcase(&mk, c, st);
        UNCLEAN_OPEN.with(|x| x.set(false));
        if let Some((sig, detail)) = res {
            return Some((format!("{} (handle opened through an unclean spelling of the path)", sig), format!("{} (handle opened through dir/zz/../name)", detail)));
        }
    }
    None
}

fn run_wcase_stdfs(sb: &Sandbox, c: &WCase, st: &mut WStats) -> Option<(String, String)> {
    let mk = || Wb { name: "stdfs", vfs: Stdfs::new(), path: PathBuf::from(format!("{}/w", sb.root)), disk: true, peek: None };
    run_wcase(&mk, c, st)
}

// ---------------------------------------------------------------------------------------------
// Stdfs worker process
// ---------------------------------------------------------------------------------------------
fn stdfs_read_files(sb: &Sandbox) -> Vec<String> {
    let mut paths = vec![];
    for (ci, c) in CONTENTS.iter().enumerate() {
        let p = format!("{}/r{}", sb.root, ci);
        std::fs::write(&p, c.as_bytes()).expect("write sandbox file");
        paths.push(p);
    }
    paths
}

pub fn worker(w: &mut WorkerCtx) {
    let sb = Sandbox::new(&format!("c07w{}", w.shard));
    let _ = std::env::set_current_dir(&sb.root);
    unsafe {
        libc::umask(0o022);
    }
    let paths = stdfs_read_files(&sb);
    let maxlen = read_maxlen_stdfs(w.tier);
    let ex = explore("stdfs", 1, maxlen, Some((w.shard, w.nshards)), &|ci| open_stdfs(&paths[ci]));
    w.count("r.seqs", ex.seqs);
    w.count("r.calls", ex.calls);
    w.count("r.edge", ex.edge);
    w.count("r.divergent", ex.divergent);
    for (l, n) in ex.per_level.iter().enumerate() {
        w.count(&format!("r.level.{}", l), *n);
    }
    for (ci, p) in &ex.states {
        w.count(&format!("state.r.{}.{}", ci, p), 1);
    }
    for (sig, f) in ex.found {
        for _ in 0..f.count.min(1000) {
            w.vio(&sig, || f.detail.clone(), || f.case.clone());
        }
    }
    for s in ex.samples {
        w.sample(s);
    }
    // write side
    let mut st = WStats::default();
    for (idx, c) in write_cases(w.tier).iter().enumerate() {
        if !w.mine(idx as u64) {
            continue;
        }
        if let Some((sig, detail)) = run_wcase_stdfs(&sb, c, &mut st) {
            w.vio(&sig, || detail, || wcase_json("stdfs", c));
        }
    }
    w.count("w.cases", st.cases);
    w.count("w.calls", st.calls);
    w.count("w.checks", st.checks);
    for (seen, written) in &st.states {
        w.count(&format!("state.w.{}.{}", hex(seen), hex(written)), 1);
    }
}

// ---------------------------------------------------------------------------------------------
// oracle self-check: the claims this check makes about Cursor (and about std::fs::File) are
// established by running them, not assumed
// ---------------------------------------------------------------------------------------------
fn oracle_selfcheck() -> Result<(), String> {
    fn claims<H: Read + Seek>(mk: &dyn Fn(&[u8]) -> H, who: &str) -> Result<(), String> {
        for c in CONTENTS {
            let b = c.as_bytes();
            let len = b.len() as u64;
            let bad = |m: &str| Err(format!("{} over {:?}: {}", who, c, m));
            let mut h = mk(b);
            // reads at and beyond the end return Ok(0)
            if h.seek(SeekFrom::End(0)).ok() != Some(len) {
                return bad("seek(End(0)) != len");
            }
            let mut buf = [0u8; 4];
            if h.read(&mut buf).ok() != Some(0) {
                return bad("read at end != Ok(0)");
            }
            if h.seek(SeekFrom::Start(len + 2)).ok() != Some(len + 2) {
                return bad("seek(Start(len+2)) != len+2");
            }
            if h.read(&mut buf).ok() != Some(0) {
                return bad("read beyond end != Ok(0)");
            }
            let mut v = vec![];
            if h.read_to_end(&mut v).ok() != Some(0) {
                return bad("read_to_end beyond end != Ok(0)");
            }
            // seeking before the start errors and leaves the position unchanged
            for s in [SeekFrom::Current(-(len as i64 + 3)), SeekFrom::Current(i64::MIN), SeekFrom::End(-(len as i64 + 1))] {
                if h.seek(s).is_ok() {
                    return bad(&format!("{:?} from {} accepted", s, len + 2));
                }
                if h.seek(SeekFrom::Current(0)).ok() != Some(len + 2) {
                    return bad("position changed by failed seek");
                }
            }
            // ordinary reads
            if h.seek(SeekFrom::Start(0)).ok() != Some(0) {
                return bad("rewind");
            }
            let mut v = vec![];
            if h.read_to_end(&mut v).ok() != Some(b.len()) || v != b {
                return bad("read_to_end from 0");
            }
        }
        Ok(())
    }
    claims(&|b: &[u8]| Cursor::new(b.to_vec()), "std::io::Cursor")?;
    // std::fs::File on the sandbox file system follows the same rules (used by Stdfs)
    let sb = Sandbox::new("c07self");
    let p = format!("{}/f", sb.root);
    claims(
        &|b: &[u8]| {
            std::fs::write(&p, b).expect("sandbox write");
            std::fs::File::open(&p).expect("sandbox open")
        },
        "std::fs::File",
    )
}

// ---------------------------------------------------------------------------------------------
// driver
// ---------------------------------------------------------------------------------------------
pub fn run(ctx: &Ctx) -> i32 {
    quiet_panics();
    if let Some(p) = &ctx.replay {
        return replay(ctx, p);
    }
    crate::engines::sandbox::sweep_stale();
    if let Err(e) = oracle_selfcheck() {
        eprintln!("machinery: oracle self-check failed: {}", e);
        return 2;
    }

    // read side, Memfs, threads
    let maxlen = read_maxlen(ctx.tier);
    let mut memfs_setup_ok = true;
    for c in CONTENTS {
        if let Err(e) = memfs_setup_probe(c.as_bytes()) {
            memfs_setup_ok = false;
            vio("memfs setup: write()+write_all+flush does not store the content", || e, || J::obj([("side", J::s("setup")), ("content_hex", J::s(hex(c.as_bytes())))]));
        }
    }
    // without a working way to create files with known content the Memfs read side cannot be judged
    let mem = if memfs_setup_ok {
        explore("memfs", ctx.threads, maxlen, None, &|ci| open_memfs(CONTENTS[ci].as_bytes()))
    } else {
        let mut e = Explored::default();
        e.per_level = vec![0; maxlen + 1];
        e
    };
    let mut sigs_by_key: Vec<(&String, &Found)> = mem.found.iter().collect();
    sigs_by_key.sort_by_key(|(_, f)| f.key);
    for (sig, f) in sigs_by_key {
        for _ in 0..f.count {
            vio(sig, || f.detail.clone(), || f.case.clone());
        }
    }

    // write side, Memfs
    let mut wst = WStats::default();
    let cases = write_cases(ctx.tier);
    for c in &cases {
        if let Some((sig, detail)) = run_wcase_memfs(c, &mut wst) {
            vio(&sig, || detail, || wcase_json("memfs", c));
        }
    }

    // Stdfs: read and write side inside single-threaded worker processes with private sandboxes
    let mut g = Gathered::default();
    run_workers(ctx, &Launch { name: "c07".into(), nshards: WORKER_SHARDS, extra: vec![], uid: None, env: None }, &mut g);
    if !g.failed.is_empty() {
        for f in &g.failed {
            eprintln!("machinery: {}", f);
        }
        return 2;
    }
    let std_states_r = g.counters.keys().filter(|k| k.starts_with("state.r.")).count() as u64;
    let mut wstates: BTreeSet<String> = g.counters.keys().filter(|k| k.starts_with("state.w.")).map(|k| k["state.w.".len()..].to_string()).collect();
    for (seen, written) in &wst.states {
        wstates.insert(format!("{}.{}", hex(seen), hex(written)));
    }
    let mut rstates: BTreeSet<(u8, u64)> = mem.states.iter().cloned().collect();
    for k in g.counters.keys() {
        if let Some(rest) = k.strip_prefix("state.r.") {
            let mut it = rest.split('.');
            if let (Some(a), Some(b)) = (it.next().and_then(|x| x.parse().ok()), it.next().and_then(|x| x.parse().ok())) {
                rstates.insert((a, b));
            }
        }
    }
    let max_std = read_maxlen_stdfs(ctx.tier);
    let expected_std_level1: u64 = CONTENTS.iter().map(|c| alphabet(c.len(), false).len() as u64).sum();
    let expected_mem_level1: u64 = CONTENTS.iter().map(|c| alphabet(c.len(), true).len() as u64).sum();
    if g.c("r.level.1") != expected_std_level1 || (memfs_setup_ok && mem.per_level[1] != expected_mem_level1) {
        eprintln!("machinery: level-1 sequence count {} / {} differs from the alphabet size {}", g.c("r.level.1"), mem.per_level[1], expected_std_level1);
        return 2;
    }

    let seqs = mem.seqs + g.c("r.seqs");
    let traces = seqs + wst.cases + g.c("w.cases");
    let transitions = mem.calls + g.c("r.calls") + wst.calls + g.c("w.calls");
    let states = rstates.len() as u64 + wstates.len() as u64;
    let mut samples: Vec<J> = mem.samples.iter().take(3).cloned().collect();
    samples.extend(g.samples.iter().take(2).cloned());
    if let Some(c) = cases.iter().rev().find(|c| c.conv.is_none()) {
        samples.push(wcase_json("memfs+stdfs", c));
    }
    let alpha_sizes: Vec<String> = CONTENTS.iter().map(|c| format!("{:?}:{}", c, alphabet(c.len(), true).len())).collect();
    let cov = J::obj([
        ("evaluations", J::i(traces)),
        ("distinct_nontrivial", J::i(mem.edge + g.c("r.edge"))),
        ("rule", J::s(
            "one evaluation = one call sequence executed from scratch on a fresh handle of the real code (read side: prefix-tree node; write side: one chunk/flush/drop sequence or one convenience call). Non-trivial = read-side sequences whose Cursor run contains a failing seek, a position beyond the end, or a read returning fewer bytes than the buffer. All sequences are distinct by construction (odometer over the de-duplicated alphabet; event sequences de-duplicated by value).",
        )),
        ("states", J::i(states)),
        ("states_rule", J::s("distinct (content, position) pairs the Cursor oracle reached on the read side + distinct (visible file content, bytes written through the handle) pairs observed at flush/drop checks on the write side")),
        ("read_side_states", J::i(rstates.len() as u64)),
        ("read_side_states_stdfs_workers", J::i(std_states_r)),
        ("write_side_states", J::i(wstates.len() as u64)),
        ("transitions", J::i(transitions)),
        ("transitions_rule", J::s("handle calls executed on the real code: read/read_to_end/seek incl. re-executed prefixes and position probes; write/flush/drop/open on the write side")),
        ("traces_validated_against_impl", J::i(traces)),
        ("read_sequences_memfs", J::i(mem.seqs)),
        ("read_sequences_memfs_per_length", J::arr(mem.per_level.iter().skip(1).map(|n| J::i(*n)))),
        ("read_sequences_stdfs", J::i(g.c("r.seqs"))),
        ("read_sequences_stdfs_per_length", J::arr((1..=max_std).map(|l| J::i(g.c(&format!("r.level.{}", l)))))),
        ("read_divergent_sequences_not_extended", J::i(mem.divergent + g.c("r.divergent"))),
        ("write_cases_memfs", J::i(wst.cases)),
        ("write_cases_stdfs", J::i(g.c("w.cases"))),
        ("write_content_checks", J::i(wst.checks + g.c("w.checks"))),
        ("samples", J::Arr(samples)),
        ("memfs_read_side_explored", J::Bool(memfs_setup_ok)),
        ("exhaustive", J::Bool(memfs_setup_ok)),
        ("bounds", J::s(format!(
            "read side: contents {:?}; every sequence of length <= {} (Memfs) / <= {} (Stdfs) over read(buf 0|1|2|len|len+1), read_to_end, seek(Start 0|1|len|len+2), seek(Current -(len+1)|-1|0|+1|+(len+1)|i64::MIN), seek(End -(len+1)|-1|0|+1) (alphabet sizes after removing duplicates {}); branches cut after the first divergence. write side: data {:?} split at every byte boundary, flush/no flush after each chunk, drop after every prefix, write() and append(), missing file and existing \"XY\"; plus write_all/append_all against the handle form.",
            CONTENTS, maxlen, max_std, alpha_sizes.join(" "), wdata(ctx.tier)
        ))),
    ]);
    finish(ctx, Evidence {
        level: "model_checking",
        coverage: cov,
        assumptions: vec![
            "oracle = std::io::Cursor<Vec<u8>>; its behaviour at the edges (Ok(0) at/after the end, Err + unchanged position for negative targets) and the equality of std::fs::File with it for these calls are re-established by running them at the start of every run".into(),
            "error kinds are not compared (the statement only says 'is an error'); content visible between a write and the next flush is not looked at".into(),
            "Stdfs: regular files on tmpfs, where a read returns all available bytes up to the buffer size (same as Cursor)".into(),
            "on Stdfs offsets stay inside i64 and reachable positions stay far below u64::MAX (the kernel's off_t ends at i64::MAX, a real file cannot follow Cursor beyond it); on Memfs the alphabet also holds Start(2^63), Start(u64::MAX) and End(i64::MAX)".into(),
        ],
    })
}

fn replay(ctx: &Ctx, p: &std::path::Path) -> i32 {
    let j = json::parse(&std::fs::read_to_string(p).expect("read replay")).expect("parse replay");
    let case = j.get("case").expect("case");
    let backend = case.get("backend").and_then(|x| x.as_str()).unwrap_or("memfs").to_string();
    let side = case.get("side").and_then(|x| x.as_str()).unwrap_or("");
    let failed: Option<(String, String)> = if side == "setup" {
        let content = unhex(case.get("content_hex").and_then(|x| x.as_str()).expect("content_hex"));
        println!("replay C07 memfs setup probe for content \"{}\"", bytes_repr(&content));
        memfs_setup_probe(&content).err().map(|e| ("memfs setup: write()+write_all+flush does not store the content".to_string(), e))
    } else if side == "read" {
        let content = unhex(case.get("content_hex").and_then(|x| x.as_str()).expect("content_hex"));
        let ops: Vec<Op> = case.get("ops").and_then(|x| x.as_arr()).expect("ops").iter().map(|o| Op::decode(o.as_str().unwrap_or("")).expect("op")).collect();
        let sb;
        let hd = if backend == "stdfs" {
            sb = Sandbox::new("c07replay");
            let path = format!("{}/r", sb.root);
            std::fs::write(&path, &content).expect("sandbox write");
            open_stdfs(&path)
        } else {
            open_memfs(&content)
        };
        match hd {
            Err(e) => Some((format!("{} read handle: cannot be obtained", backend), e)),
            Ok(mut hd) => {
                let r = run_seq(&mut **hd.h.as_mut().unwrap(), &content, &ops);
                println!("{}", describe_run(&backend, &content, &ops, &r));
                r.div.clone().map(|(_, sig)| (format!("{} {}", backend, sig), String::new()))
            },
        }
    } else {
        let c = wcase_from_json(case).expect("write case");
        let mut st = WStats::default();
        let r = if backend == "stdfs" {
            let sb = Sandbox::new("c07replay");
            run_wcase_stdfs(&sb, &c, &mut st)
        } else {
            run_wcase_memfs(&c, &mut st)
        };
        println!("replay C07 write side on {}: {} {} file, [{}]", backend, c.kind.name(), if c.existing { "existing" } else { "missing" }, match &c.conv {
            Some(d) => format!("{}(\"{}\")", c.kind.conv(), bytes_repr(d)),
            None => events_str(&c.events),
        });
        r
    };
    match failed {
        Some((sig, detail)) => {
            if !detail.is_empty() {
                println!("{}", detail);
            }
            println!("  signature: {}", sig);
            println!("VIOLATION property={} replay={}", ctx.prop, p.display());
            1
        },
        None => {
            println!("holds: every step equals the oracle");
            0
        },
    }
}

//! C04 Memfs operations are atomic and deadlock-free under concurrent use (engine E2).
//!
//! For every small multi-threaded program all interleavings of the lock-protected critical
//! sections are executed on the real Memfs with real threads; every outcome must (a) return without
//! panic / nested lock acquisition / poisoned lock, (b) equal the outcome of some sequential order
//! of the calls that respects program order and the recorded real-time precedence (computed by
//! running the real Memfs sequentially over all merges), (d) satisfy the C03 invariants at quiescence.
use crate::common::json::{self, J};
use crate::common::par::*;
use crate::common::report::*;
use crate::engines::sched::*;
use crate::models::invariants;
use crate::models::ops::*;
use rivia::prelude::*;
use rivia::verif::Dump;
use std::collections::{BTreeMap, BTreeSet};
use std::sync::atomic::{AtomicU64, Ordering};
use std::sync::Mutex;

fn s(x: &str) -> String {
    x.to_string()
}

/// the call alphabet, forced to collide on /d, /d/f, /e, /l and the cwd
pub fn sigma() -> Vec<Op> {
    vec![
        Op::AppendAll(s("/d/f"), b"1".to_vec()),   // 0
        Op::AppendAll(s("/d/f"), b"2".to_vec()),   // 1
        Op::WriteAll(s("/d/f"), b"A".to_vec()),    // 2
        Op::WriteAll(s("/d/f"), b"B".to_vec()),    // 3
        Op::ReadAll(s("/d/f")),                    // 4
        Op::MkdirP(s("/d")),                       // 5
        Op::Mkfile(s("/d/f")),                     // 6
        Op::Remove(s("/d/f")),                     // 7
        Op::RemoveAll(s("/d")),                    // 8
        Op::MoveP(s("/d/f"), s("/e")),             // 9
        Op::AllPaths(s("/")),                      // 10
        Op::Paths(s("/d")),                        // 11
        Op::MoveP(s("/d"), s("/e")),               // 12
        Op::Copy(s("/d"), s("/e")),                // 13
        Op::Symlink(s("/l"), s("/d/f")),           // 14
        Op::SetCwd(s("/d")),                       // 15
        Op::Mkfile(s("f")),                        // 16 (relative to the cwd)
        Op::MkdirM(s("/d"), 0o700),                // 17
        Op::ReadLines(s("/d/f")),                  // 18
        Op::Exists(s("/d/f")),                     // 19
        Op::IsFile(s("/e")),                       // 20
        Op::Mode(s("/d")),                         // 21
        Op::AllFiles(s("/")),                      // 22
        Op::Files(s("/d")),                        // 23
        Op::Dirs(s("/")),                          // 24
        Op::AppendLine(s("/d/f"), s("x")),         // 25
        Op::WriteLines(s("/d/f"), vec![s("y")]),   // 26
        Op::EntriesSorted(s("/d")),                // 27
        Op::Remove(s("/d")),                       // 28 (empty-directory check then unlink)
        Op::Mkfile(s("/d/g")),                     // 29
        Op::MoveP(s("/e"), s("/d/h")),             // 30
        Op::MkdirP(s("/d/f")),                     // 31 (re-creates the file's name as a directory)
        Op::Symlink(s("/d/f"), s("/e")),           // 32 (re-creates the file's name as a link)
        // multi-step by contract: only (a) and (d) apply to programs containing these
        Op::Chmod(s("/d"), 0o700),                 // 33
        Op::Chown(s("/d"), 5, 6),                  // 34
        Op::MkfileM(s("/d/f"), 0o600),             // 35
        Op::WriteHandle(s("/d/f"), vec![b"h".to_vec(), b"i".to_vec()], vec![true, false]), // 36
        Op::AppendHandle(s("/d/f"), vec![b"j".to_vec(), b"k".to_vec()], vec![true, false]), // 37
        // relative arguments: both paths of one call must be resolved against the same cwd
        Op::Copy(s("f"), s("g")),                  // 38
        Op::MoveP(s("f"), s("g")),                 // 39
        Op::Symlink(s("l"), s("f")),               // 40
        Op::SetCwd(s("/e")),                       // 41
        Op::SetCwd(s("/")),                        // 42
        Op::WriteAll(s("f"), b"R".to_vec()),       // 43
        Op::ReadAll(s("f")),                       // 44
        Op::Paths(s(".")),                         // 45
        // listings and recursive calls that follow links, around a directory link whose target comes and goes
        Op::EntriesFollow(s("/d")),                // 46
        Op::MkdirP(s("/t")),                       // 47
        Op::Mkfile(s("/t/x")),                     // 48
        Op::Mkfile(s("/d/a")),                     // 49
        Op::RemoveAll(s("/t")),                    // 50
        Op::ChownB(s("/d"), Some(5), None, true, true), // 51 (multi-step by contract)
        // queries that return several facts about one entry, against calls that replace the entry
        Op::Owner(s("/d/f")),                      // 52
        Op::Entry(s("/d/f")),                      // 53
        Op::MoveP(s("/e"), s("/d/f")),             // 54 (replaces the file by one with another owner and mode)
        Op::Uid(s("/d/f")),                        // 55
        // a relative cwd change: its argument must be resolved against the cwd the call replaces
        Op::SetCwd(s("../e")),                     // 56
        // link-kind queries against the removal of the link (one fact from one lookup)
        Op::IsSymlinkFile(s("/d/l")),              // 57
        Op::IsSymlinkDir(s("/d/l")),               // 58
        Op::Remove(s("/d/l")),                     // 59
        Op::IsSymlink(s("/d/l")),                  // 60
    ]
}

const N_ATOMIC: usize = 33;

/// C03 reuses this explorer for the "quiescent after any schedule" half of its quantifier: only the
/// integrity invariants are evaluated then, and reported under C03's name
static INTEGRITY_ONLY: std::sync::atomic::AtomicBool = std::sync::atomic::AtomicBool::new(false);
static PARTIAL_SKIPPED: AtomicU64 = AtomicU64::new(0);
fn integrity_only() -> bool {
    INTEGRITY_ONLY.load(Ordering::Relaxed)
}

fn multi_step(op: &Op) -> bool {
    matches!(op, Op::Chmod(..) | Op::ChmodB(..) | Op::Chown(..) | Op::ChownB(..) | Op::MkfileM(..) | Op::WriteHandle(..) | Op::AppendHandle(..))
}

pub fn inits() -> Vec<(&'static str, Vec<Op>)> {
    vec![
        ("empty", vec![]),
        ("/d/f=\"0\"", vec![Op::MkdirP(s("/d")), Op::WriteAll(s("/d/f"), b"0".to_vec())]),
        ("/d empty, /e=\"e\"", vec![Op::MkdirP(s("/d")), Op::WriteAll(s("/e"), b"e".to_vec())]),
        ("/d/f=\"0\", /e empty, cwd /d", vec![Op::MkdirP(s("/d")), Op::WriteAll(s("/d/f"), b"0".to_vec()), Op::MkdirP(s("/e")), Op::SetCwd(s("/d"))]),
        ("/d/f owned 5:6 mode 600, /e=\"e\" owned 1000:1000", vec![Op::MkdirP(s("/d")), Op::WriteAll(s("/d/f"), b"0".to_vec()), Op::Chown(s("/d/f"), 5, 6), Op::Chmod(s("/d/f"), 0o600), Op::WriteAll(s("/e"), b"e".to_vec())]),
        ("/d/l -> /t (a directory link whose target was removed)", vec![Op::MkdirP(s("/d")), Op::MkdirP(s("/t")), Op::Symlink(s("/d/l"), s("/t")), Op::RemoveAll(s("/t"))]),
    ]
}

fn build_init(setup: &[Op]) -> Memfs {
    let fs = Memfs::new();
    for op in setup {
        let o = apply(&fs, op);
        assert!(o.ok, "init op failed: {} -> {}", op.render(), o.brief());
    }
    fs
}

type Prog = Vec<Vec<usize>>; // per thread: indices into sigma

#[derive(Clone)]
struct SeqRes {
    order: Vec<(usize, usize)>,
    outs: Vec<Vec<String>>,
    dump: Dump,
}

/// the call was refused because the path named by its first argument does not exist
fn failed_before_walking(op: &Op, out: &Outcome) -> bool {
    if !out.err.contains("DoesNotExist") {
        return false;
    }
    let first: std::cell::RefCell<Option<String>> = std::cell::RefCell::new(None);
    let _ = op.map_paths(|p, i| {
        if i == 0 && first.borrow().is_none() {
            *first.borrow_mut() = Some(p.to_string());
        }
        p.to_string()
    });
    let Some(arg) = first.into_inner() else { return false };
    let reported = out.msg.rsplit(": ").next().unwrap_or("").trim_end_matches(')').to_string();
    if arg.starts_with('/') {
        reported == arg
    } else {
        reported.ends_with(&format!("/{}", arg))
    }
}

fn seq_outcomes(setup: &[Op], sig: &[Op], prog: &Prog) -> Vec<SeqRes> {
    let init = build_init(setup);
    let mut res = vec![];
    let lens: Vec<usize> = prog.iter().map(|p| p.len()).collect();
    fn rec(init: &Memfs, sig: &[Op], prog: &Prog, lens: &[usize], pos: &mut Vec<usize>, order: &mut Vec<(usize, usize)>, res: &mut Vec<SeqRes>) {
        if (0..prog.len()).all(|t| pos[t] == lens[t]) {
            let fs = init.verif_deep_clone();
            let mut outs: Vec<Vec<String>> = prog.iter().map(|p| vec![String::new(); p.len()]).collect();
            for &(t, i) in order.iter() {
                outs[t][i] = apply(&fs, &sig[prog[t][i]]).transcript();
            }
            res.push(SeqRes { order: order.clone(), outs, dump: fs.verif_dump() });
            return;
        }
        for t in 0..prog.len() {
            if pos[t] < lens[t] {
                order.push((t, pos[t]));
                pos[t] += 1;
                rec(init, sig, prog, lens, pos, order, res);
                pos[t] -= 1;
                order.pop();
            }
        }
    }
    rec(&init, sig, prog, &lens, &mut vec![0; prog.len()], &mut vec![], &mut res);
    res
}

fn prog_name(sig: &[Op], prog: &Prog) -> String {
    prog.iter().map(|p| p.iter().map(|&i| sig[i].render()).collect::<Vec<_>>().join("; ")).collect::<Vec<_>>().join("  ||  ")
}

fn prog_sig(sig: &[Op], prog: &Prog) -> String {
    let mut names: Vec<String> = prog.iter().map(|p| p.iter().map(|&i| sig[i].name()).collect::<Vec<_>>().join(";")).collect();
    names.sort();
    names.join("||")
}

fn case_json(init: usize, prog: &Prog, schedule: &[u8], sig: &[Op]) -> J {
    J::obj([
        ("init", J::i(init as i64)),
        ("program_idx", J::arr(prog.iter().map(|p| J::arr(p.iter().map(|&i| J::i(i as i64)))))),
        ("program", J::s(prog_name(sig, prog))),
        ("schedule", J::arr(schedule.iter().map(|&t| J::i(t as i64)))),
    ])
}

struct Totals {
    programs: AtomicU64,
    schedules: AtomicU64,
    sections: AtomicU64,
    colliding_programs: AtomicU64,
    max_outcomes: AtomicU64,
    dropped_order_dependent: AtomicU64,
    capped_programs: AtomicU64,
    lin_checked: AtomicU64,
    outcomes_total: AtomicU64,
    samples: Mutex<Vec<J>>,
}

/// check one execution; returns a description of its outcome (for distinct-outcome counting)
fn check_execution(init_idx: usize, sig: &[Op], prog: &Prog, e: &Execution, seq: &[SeqRes], lin: bool) -> String {
    // signature class: the calls that spanned more than one critical section in this execution (the
    // only ones that can be torn); falls back to the program's call names
    let mut torn: BTreeSet<&'static str> = BTreeSet::new();
    for (t, r) in e.recs.iter().enumerate() {
        for (i, x) in r.iter().enumerate() {
            if x.first != x.last && !multi_step(&sig[prog[t][i]]) {
                torn.insert(sig[prog[t][i]].name());
            }
        }
    }
    let name = if torn.is_empty() { format!("program={}", prog_sig(sig, prog)) } else { format!("multi-section-calls={}", torn.into_iter().collect::<Vec<_>>().join(",")) };
    // a multi-step call (a handle) that ran to completion exempts the execution from linearizability; one that
    // was refused at the open is a single step like any other
    // (refused at the open = a path validation error; an io error comes from a later flush of an open handle)
    let lin = lin && e.recs.iter().enumerate().all(|(t, r)| r.iter().enumerate().all(|(i, x)| !multi_step(&sig[prog[t][i]]) || (!x.out.ok && x.out.err.starts_with("Path("))));
    let outs: Vec<Vec<String>> = e.recs.iter().map(|r| r.iter().map(|x| x.out.transcript()).collect()).collect();
    let dump = e.fs.verif_dump();
    let case = || case_json(init_idx, prog, &e.schedule, sig);
    let describe = || {
        format!(
            "program [{}] from init {} under schedule {:?}: results {:?}; final entries {:?}, files {:?}",
            prog_name(sig, prog),
            inits()[init_idx].0,
            e.schedule,
            outs,
            dump.entries.iter().map(|x| x.key.clone()).collect::<Vec<_>>(),
            dump.files.iter().map(|f| (f.key.clone(), json::bytes_repr(&f.data))).collect::<Vec<_>>()
        )
    };
    if integrity_only() {
        for (code, detail) in invariants::check(&dump) {
            vio(&format!("C03 quiescent-state {} {}", code, name), || format!("{}: {}", detail, describe()), case);
        }
        return format!("{:?}|{:?}", outs, dump.files.iter().map(|f| (&f.key, &f.data)).collect::<Vec<_>>());
    }
    // (a) every call returned without panic / nested acquisition / poison
    for (t, r) in e.recs.iter().enumerate() {
        if r.len() != prog[t].len() {
            vio(&format!("C04 thread-did-not-finish {}", name), || format!("thread {} finished {} of {} calls: {}", t, r.len(), prog[t].len(), describe()), case);
        }
        for (i, x) in r.iter().enumerate() {
            if x.out.panicked() {
                let what = if x.out.msg.contains(NESTED_MSG) { "nested-lock-acquisition" } else { "panic" };
                vio(&format!("C04 {} in {}", what, sig[prog[t][i]].name()), || format!("call {} of thread {} panicked ({}): {}", sig[prog[t][i]].render(), t, x.out.msg, describe()), case);
            }
        }
    }
    if !e.nested.is_empty() {
        vio(&format!("C04 nested-lock-acquisition {}", name), || format!("{:?}: {}", e.nested, describe()), case);
    }
    if dump.poisoned {
        vio(&format!("C04 poisoned-lock {}", name), || format!("the filesystem lock is poisoned at quiescence: {}", describe()), case);
    }
    // (d) tree integrity at quiescence
    for (code, detail) in invariants::check(&dump) {
        vio(&format!("C04 quiescent-state {} {}", code, name), || format!("{}: {}", detail, describe()), case);
    }
    // (b) linearizability against the code itself. A multi-entry call (copy, remove_all) that fails half way
    // leaves a partial result that depends on the hash order of the entry map, which differs between the
    // instances the sequential outcomes were computed on: such executions are held to (a) and (d) only
    // (a call that fails because its own first argument does not exist has not started to walk anything: it has
    // no partial result to leave and stays subject to linearizability. The criterion is structural on purpose:
    // whether a failing walk had got anywhere in the *sequential* runs depends on the same hash order)
    let partial = e.recs.iter().enumerate().any(|(t, r)| {
        r.iter().enumerate().any(|(i, x)| {
            let op = &sig[prog[t][i]];
            !x.out.ok && crate::engines::space::order_sensitive(op) && !failed_before_walking(op, &x.out)
        })
    });
    if partial {
        PARTIAL_SKIPPED.fetch_add(1, Ordering::Relaxed);
    }
    if lin && !partial {
        let matches: Vec<&SeqRes> = seq.iter().filter(|r| r.outs == outs && r.dump == dump).collect();
        if matches.is_empty() {
            vio(
                &format!("C04 non-linearizable {}", name),
                || format!("no sequential order of the calls produces this outcome ({} sequential orders tried): {}", seq.len(), describe()),
                case,
            );
        } else {
            // real-time precedence: A before B if A's last critical section precedes B's first
            let respects = |r: &SeqRes| -> bool {
                let posn: BTreeMap<(usize, usize), usize> = r.order.iter().enumerate().map(|(k, &x)| (x, k)).collect();
                for (ta, ra) in e.recs.iter().enumerate() {
                    for (ia, a) in ra.iter().enumerate() {
                        for (tb, rb) in e.recs.iter().enumerate() {
                            for (ib, b) in rb.iter().enumerate() {
                                if (ta, ia) == (tb, ib) {
                                    continue;
                                }
                                let a_end = a.last.unwrap_or(a.inv_step);
                                let b_start = b.first.unwrap_or(b.inv_step + 1);
                                if a_end < b_start && a.last.is_some() && b.first.is_some() && posn[&(ta, ia)] > posn[&(tb, ib)] {
                                    return false;
                                }
                            }
                        }
                    }
                }
                true
            };
            if !matches.iter().any(|r| respects(r)) {
                vio(
                    &format!("C04 real-time-order {}", name),
                    || format!("the outcome only matches sequential orders that contradict the observed real-time precedence: {}", describe()),
                    case,
                );
            }
        }
    }
    format!("{:?}|{:?}", outs, dump.files.iter().map(|f| (&f.key, &f.data)).collect::<Vec<_>>())
}

fn new_totals() -> Totals {
    Totals {
        programs: AtomicU64::new(0),
        schedules: AtomicU64::new(0),
        sections: AtomicU64::new(0),
        colliding_programs: AtomicU64::new(0),
        max_outcomes: AtomicU64::new(0),
        dropped_order_dependent: AtomicU64::new(0),
        capped_programs: AtomicU64::new(0),
        lin_checked: AtomicU64::new(0),
        outcomes_total: AtomicU64::new(0),
        samples: Mutex::new(vec![]),
    }
}

fn run_program(ex: &Explorer, init_idx: usize, sig: &[Op], prog: &Prog, tot: &Totals, bound: Option<u32>, cap: u64) -> Result<(), String> {
    let setup = &inits()[init_idx].1;
    let programs: Vec<Vec<Op>> = prog.iter().map(|p| p.iter().map(|&i| sig[i].clone()).collect()).collect();
    // (programs whose only multi-step calls are handle opens keep their sequential outcomes: an execution in
    // which every such open was *refused* consists of single steps only and is held to linearizability)
    let lin = !integrity_only() && programs.iter().flatten().filter(|o| multi_step(o)).all(|o| matches!(o, Op::WriteHandle(..) | Op::AppendHandle(..)));
    // sequential outcomes, computed twice on independently built instances (different hash seeds)
    let (seq, deterministic) = if lin {
        let a = seq_outcomes(setup, sig, prog);
        let b = seq_outcomes(setup, sig, prog);
        let same = a.len() == b.len() && a.iter().zip(b.iter()).all(|(x, y)| x.outs == y.outs && x.dump == y.dump);
        (a, same)
    } else {
        (vec![], true)
    };
    if !deterministic {
        tot.dropped_order_dependent.fetch_add(1, Ordering::Relaxed);
        return Ok(());
    }
    let init = build_init(setup);
    let mut outcomes: BTreeSet<String> = BTreeSet::new();
    let mut sections = 0u64;
    let (n, capped) = explore_program(ex, &init, &programs, bound, cap, |e| {
        sections += e.sections;
        let o = check_execution(init_idx, sig, prog, e, &seq, lin);
        outcomes.insert(o);
    })?;
    tot.programs.fetch_add(1, Ordering::Relaxed);
    tot.schedules.fetch_add(n, Ordering::Relaxed);
    tot.sections.fetch_add(sections, Ordering::Relaxed);
    tot.outcomes_total.fetch_add(outcomes.len() as u64, Ordering::Relaxed);
    if lin {
        tot.lin_checked.fetch_add(n, Ordering::Relaxed);
    }
    if outcomes.len() > 1 {
        tot.colliding_programs.fetch_add(1, Ordering::Relaxed);
    }
    tot.max_outcomes.fetch_max(outcomes.len() as u64, Ordering::Relaxed);
    if capped {
        tot.capped_programs.fetch_add(1, Ordering::Relaxed);
    }
    if outcomes.len() > 2 {
        let mut sm = tot.samples.lock().unwrap();
        if sm.len() < 5 {
            sm.push(J::obj([("program", J::s(prog_name(sig, prog))), ("init", J::s(inits()[init_idx].0)), ("schedules", J::i(n)), ("distinct_outcomes", J::i(outcomes.len() as i64))]));
        }
    }
    Ok(())
}

/// multisets of size k over 0..n (threads are symmetric)
fn multisets(n: usize, k: usize) -> Vec<Vec<usize>> {
    fn rec(n: usize, k: usize, start: usize, cur: &mut Vec<usize>, out: &mut Vec<Vec<usize>>) {
        if cur.len() == k {
            out.push(cur.clone());
            return;
        }
        for i in start..n {
            cur.push(i);
            rec(n, k, i, cur, out);
            cur.pop();
        }
    }
    let mut out = vec![];
    rec(n, k, 0, &mut vec![], &mut out);
    out
}

fn sequences(alpha: &[usize], len: usize) -> Vec<Vec<usize>> {
    let mut out: Vec<Vec<usize>> = vec![vec![]];
    for _ in 0..len {
        let mut next = vec![];
        for s in &out {
            for &a in alpha {
                let mut s2 = s.clone();
                s2.push(a);
                next.push(s2);
            }
        }
        out = next;
    }
    out
}

/// T threads x k calls over an op subset: multisets of per-thread sequences
fn programs_tk(alpha: &[usize], threads: usize, k: usize) -> Vec<Prog> {
    let seqs = sequences(alpha, k);
    multisets(seqs.len(), threads).into_iter().map(|m| m.into_iter().map(|i| seqs[i].clone()).collect()).collect()
}

struct Family {
    name: &'static str,
    /// initial states the family runs from (None = all)
    inits: Option<Vec<usize>>,
    progs: Vec<Prog>,
    bound: Option<u32>,
    cap: u64,
}

fn families(tier: Tier) -> Vec<Family> {
    let all: Vec<usize> = (0..sigma().len()).collect();
    let atomic: Vec<usize> = (0..N_ATOMIC).collect();
    let relcore: Vec<usize> = vec![38, 39, 40, 41, 42, 43, 44, 56];
    let core10: Vec<usize> = vec![0, 2, 4, 5, 6, 7, 8, 9, 10, 28];
    let core6: Vec<usize> = vec![0, 2, 6, 7, 8, 28];
    let core5: Vec<usize> = vec![0, 2, 4, 8, 9];
    let core3: Vec<usize> = vec![0, 2, 8];
    let mut f = vec![
        Family { name: "2x1 over the full alphabet", inits: None, progs: programs_tk(&all, 2, 1), bound: None, cap: 200_000 },
        Family { name: "3x1 over the atomic alphabet", inits: None, progs: programs_tk(&atomic, 3, 1), bound: None, cap: 200_000 },
        Family { name: "2x2 over a 10-call core", inits: None, progs: programs_tk(&core10, 2, 2), bound: None, cap: 200_000 },
    ];
    // a write/append handle that stays open (open, write, flush, write, drop = several critical sections)
    // while another thread removes / re-creates / moves the file's name in two steps
    let handle_core: Vec<usize> = vec![2, 6, 7, 8, 9, 31, 32];
    let mut hp: Vec<Prog> = vec![];
    for h in [36usize, 37] {
        for b in sequences(&handle_core, 2) {
            hp.push(vec![vec![h], b]);
        }
        for b in sequences(&handle_core, 1) {
            hp.push(vec![vec![h], b.clone(), vec![31]]);
        }
    }
    f.push(Family { name: "open write/append handle x 2 calls on the same name", inits: None, progs: hp, bound: None, cap: 200_000 });
    // a handle open that is refused (no parent yet) while another thread creates the parent and the file: a
    // refused open leaves nothing behind that could reach the file later
    let mut rp: Vec<Prog> = vec![];
    for h in [36usize, 37] {
        for b in sequences(&[5usize, 2, 6, 0], 2) {
            rp.push(vec![vec![h], b]);
        }
    }
    f.push(Family { name: "refused handle open x 2 calls that create the name", inits: Some(vec![0]), progs: rp, bound: None, cap: 200_000 });
    // relative arguments against a moving cwd (both paths of a two-path call resolve against one cwd)
    f.push(Family { name: "2x2 over the relative-argument core, cwd /d", inits: Some(vec![3]), progs: programs_tk(&relcore, 2, 2), bound: None, cap: 200_000 });
    let linkcore: Vec<usize> = vec![46, 47, 48, 49, 50, 51];
    f.push(Family { name: "2x2 over the followed-listing core, dangling directory link", inits: Some(vec![5]), progs: programs_tk(&linkcore, 2, 2), bound: None, cap: 200_000 });
    let kindcore: Vec<usize> = vec![57, 58, 59, 60];
    f.push(Family { name: "2x2 over link-kind queries and the removal of the link, directory link", inits: Some(vec![5]), progs: programs_tk(&kindcore, 2, 2), bound: None, cap: 200_000 });
    let ownercore: Vec<usize> = vec![52, 53, 54, 55, 7, 6, 21];
    f.push(Family { name: "2x2 over the multi-fact query core, entries with different owners", inits: Some(vec![4]), progs: programs_tk(&ownercore, 2, 2), bound: None, cap: 200_000 });
    if tier == Tier::Thorough {
        f.push(Family { name: "2x2 over the atomic alphabet", inits: None, progs: programs_tk(&atomic, 2, 2), bound: None, cap: 200_000 });
        f.push(Family { name: "2x3 over a 6-call core", inits: None, progs: programs_tk(&core6, 2, 3), bound: None, cap: 200_000 });
        f.push(Family { name: "3x2 over a 5-call core", inits: None, progs: programs_tk(&core5, 3, 2), bound: None, cap: 200_000 });
        f.push(Family { name: "3x3 over a 3-call core (preemption bound 2)", inits: None, progs: programs_tk(&core3, 3, 3), bound: Some(2), cap: 200_000 });
    }
    f
}

thread_local! {
    static CUR_PROGRAM: std::cell::RefCell<(String, String, String)> = const { std::cell::RefCell::new((String::new(), String::new(), String::new())) };
}

fn install_stall_handler(ctx: &Ctx) {
    let prop = ctx.prop.clone();
    let _ = crate::engines::sched::ON_STALL.set(Box::new(move |msg: String| {
        // runs on the explorer thread that set CUR_PROGRAM
        let (text, names, case) = CUR_PROGRAM.with(|c| c.borrow().clone());
        let sig = format!("{} call-does-not-return program={}", prop, names);
        let detail = format!("program [{}]: {}", text, msg);
        eprintln!("HANG: {}", detail);
        let case = json::parse(&case).unwrap_or(J::Null);
        vio(&sig, move || detail, move || case);
        std::process::exit(crate::props::hang_exit(&prop, &sig));
    }));
}

fn explore_families(ctx: &Ctx, fams: Vec<Family>, sig: &[Op], tot: &Totals, machinery: &Mutex<Vec<String>>, fam_json: &mut Vec<J>) {
    install_stall_handler(ctx);
    let slots = (ctx.threads * 3 / 2).max(1);
    for fam in fams {
        let before = (tot.programs.load(Ordering::Relaxed), tot.schedules.load(Ordering::Relaxed));
        let fam_inits: Vec<usize> = fam.inits.clone().unwrap_or_else(|| (0..inits().len()).collect());
        let work: Vec<(usize, &Prog)> = fam_inits.iter().flat_map(|&i| fam.progs.iter().map(move |p| (i, p))).collect();
        let next = std::sync::atomic::AtomicUsize::new(0);
        std::thread::scope(|sc| {
            for slot_id in 0..slots {
                let (next, work, sig, tot, machinery, fam) = (&next, &work, &sig, &tot, &machinery, &fam);
                sc.spawn(move || {
                    let ex = Explorer::new(3);
                    loop {
                        let k = next.fetch_add(1, Ordering::Relaxed);
                        if k >= work.len() {
                            break;
                        }
                        let (init_idx, prog) = work[k];
                        crate::common::crumb::set(
                            slot_id,
                            &J::obj([
                                ("init", J::i(init_idx as i64)),
                                ("program_idx", J::arr(prog.iter().map(|p| J::arr(p.iter().map(|&i| J::i(i as i64)))))),
                                ("program", J::s(prog_name(&sig, prog))),
                                ("names", J::s(prog_sig(&sig, prog))),
                            ])
                            .to_string(),
                        );
                        CUR_PROGRAM.with(|c| {
                            *c.borrow_mut() = (
                                prog_name(&sig, prog),
                                prog_sig(&sig, prog),
                                J::obj([("part", J::s("hang")), ("where", J::s(prog_name(&sig, prog))), ("init", J::i(init_idx as i64)), ("program_idx", J::arr(prog.iter().map(|p| J::arr(p.iter().map(|&i| J::i(i as i64))))))]).to_string(),
                            )
                        });
                        if let Err(e) = run_program(&ex, init_idx, &sig, prog, &tot, fam.bound, fam.cap) {
                            machinery.lock().unwrap().push(format!("{} [{}]", e, prog_name(&sig, prog)));
                        }
                    }
                });
            }
        });
        let after = (tot.programs.load(Ordering::Relaxed), tot.schedules.load(Ordering::Relaxed));
        println!("  family {}: {} programs, {} schedules", fam.name, after.0 - before.0, after.1 - before.1);
        fam_json.push(J::obj([
            ("family", J::s(fam.name)),
            ("programs", J::i(after.0 - before.0)),
            ("schedules", J::i(after.1 - before.1)),
            ("preemption_bound", match fam.bound {
                Some(b) => J::i(b as i64),
                None => J::s("unbounded"),
            }),
        ]));
    }
}

/// the schedule half of C03: every schedule of the quick families, integrity invariants at quiescence
pub fn explore_integrity(ctx: &Ctx) -> Result<(u64, u64, Vec<J>), String> {
    INTEGRITY_ONLY.store(true, Ordering::Relaxed);
    let sig = sigma();
    let tot = new_totals();
    let machinery: Mutex<Vec<String>> = Mutex::new(vec![]);
    let mut fam_json = vec![];
    // the three-thread family adds no new final states over the two-thread ones for an invariant on the dump
    let fams: Vec<Family> = families(Tier::Quick).into_iter().filter(|f| !f.name.starts_with("3x1")).collect();
    explore_families(ctx, fams, &sig, &tot, &machinery, &mut fam_json);
    let mach = machinery.lock().unwrap();
    if !mach.is_empty() {
        return Err(format!("schedule replay diverged (nondeterminism not owned by the scheduler): {}", mach[0]));
    }
    Ok((tot.programs.load(Ordering::Relaxed), tot.schedules.load(Ordering::Relaxed), fam_json))
}

pub fn replay_integrity(ctx: &Ctx, p: &std::path::Path) -> i32 {
    INTEGRITY_ONLY.store(true, Ordering::Relaxed);
    replay(ctx, p)
}

pub fn run(ctx: &Ctx) -> i32 {
    quiet_panics();
    if let Some(p) = &ctx.replay {
        return replay(ctx, p);
    }
    if let Ok(f) = std::env::var("RVMC_CRUMB_REPLAY") {
        // abort triage: explore exactly one recorded program in this process
        let j = json::parse(&std::fs::read_to_string(&f).expect("crumb")).expect("crumb json");
        let sig = sigma();
        let init_idx = j.get("init").and_then(|x| x.as_i64()).unwrap_or(0) as usize;
        let prog: Prog = j.get("program_idx").and_then(|x| x.as_arr()).expect("program_idx").iter().map(|t| t.as_arr().unwrap().iter().map(|x| x.as_i64().unwrap() as usize).collect()).collect();
        let tot = new_totals();
        let ex = Explorer::new(3);
        let _ = run_program(&ex, init_idx, &sig, &prog, &tot, None, 200_000);
        return 0;
    }
    let sig = sigma();
    let tot = new_totals();
    let _unused = Totals {
        programs: AtomicU64::new(0),
        schedules: AtomicU64::new(0),
        sections: AtomicU64::new(0),
        colliding_programs: AtomicU64::new(0),
        max_outcomes: AtomicU64::new(0),
        dropped_order_dependent: AtomicU64::new(0),
        capped_programs: AtomicU64::new(0),
        lin_checked: AtomicU64::new(0),
        outcomes_total: AtomicU64::new(0),
        samples: Mutex::new(vec![]),
    };
    let machinery: Mutex<Vec<String>> = Mutex::new(vec![]);
    let mut fam_json = vec![];
    explore_families(ctx, families(ctx.tier), &sig, &tot, &machinery, &mut fam_json);
    let mach = machinery.lock().unwrap();
    if !mach.is_empty() {
        eprintln!("machinery: schedule replay diverged (nondeterminism not owned by the scheduler): {}", mach[0]);
        return 2;
    }
    let cov = J::obj([
        ("states", J::i(tot.outcomes_total.load(Ordering::Relaxed))),
        ("transitions", J::i(tot.sections.load(Ordering::Relaxed))),
        ("traces_validated_against_impl", J::i(tot.schedules.load(Ordering::Relaxed))),
        ("samples", J::Arr(tot.samples.lock().unwrap().clone())),
        ("programs", J::i(tot.programs.load(Ordering::Relaxed))),
        ("schedules_explored", J::i(tot.schedules.load(Ordering::Relaxed))),
        ("schedules_checked_for_linearizability", J::i(tot.lin_checked.load(Ordering::Relaxed))),
        ("critical_sections_executed", J::i(tot.sections.load(Ordering::Relaxed))),
        ("programs_with_more_than_one_distinct_outcome", J::i(tot.colliding_programs.load(Ordering::Relaxed))),
        ("max_distinct_outcomes_of_one_program", J::i(tot.max_outcomes.load(Ordering::Relaxed))),
        ("programs_dropped_hash_order_dependent", J::i(tot.dropped_order_dependent.load(Ordering::Relaxed))),
        ("schedules_with_a_failed_multi_entry_call_not_compared", J::i(PARTIAL_SKIPPED.load(Ordering::Relaxed))),
        ("programs_hitting_the_schedule_cap", J::i(tot.capped_programs.load(Ordering::Relaxed))),
        ("families", J::Arr(fam_json)),
        ("exhaustive", J::Bool(tot.capped_programs.load(Ordering::Relaxed) == 0)),
        ("explanation", J::s("states = distinct (results, final content) outcomes summed over programs; transitions = critical sections executed; every schedule = one complete interleaving of the lock-protected critical sections of real threads over one real Memfs, enumerated depth-first by re-execution")),
    ]);
    drop(mach);
    finish(ctx, Evidence {
        level: "model_checking",
        coverage: cov,
        assumptions: vec![
            "all shared state of Memfs sits behind one RwLock reached through read_guard/write_guard (hooked); the order of critical sections therefore determines the execution; memory orderings inside std RwLock/Arc are trusted".into(),
            "read sections are serialised like write sections (they do not write, so every real overlap equals some serial order)".into(),
            "multi-step-by-contract calls (chmod*, chown*, mkfile_m, handle write/append) are held to no-panic/no-deadlock/integrity only".into(),
            "program sizes and alphabet as listed under families; Display (its own direct lock) is not part of the alphabet".into(),
        ],
    })
}

fn replay(ctx: &Ctx, p: &std::path::Path) -> i32 {
    let j = json::parse(&std::fs::read_to_string(p).expect("read replay")).expect("parse replay");
    let case = j.get("case").expect("case");
    let sig = sigma();
    let init_idx = case.get("init").and_then(|x| x.as_i64()).unwrap_or(0) as usize;
    let prog: Prog = case
        .get("program_idx")
        .and_then(|x| x.as_arr())
        .expect("program_idx")
        .iter()
        .map(|t| t.as_arr().unwrap().iter().map(|x| x.as_i64().unwrap() as usize).collect())
        .collect();
    let schedule: Vec<u8> = case.get("schedule").and_then(|x| x.as_arr()).expect("schedule").iter().map(|x| x.as_i64().unwrap() as u8).collect();
    println!("replay C04 program [{}] init {} schedule {:?}", prog_name(&sig, &prog), inits()[init_idx].0, schedule);
    let programs: Vec<Vec<Op>> = prog.iter().map(|p| p.iter().map(|&i| sig[i].clone()).collect()).collect();
    let lin = programs.iter().flatten().filter(|o| multi_step(o)).all(|o| matches!(o, Op::WriteHandle(..) | Op::AppendHandle(..)));
    let seq = if lin { seq_outcomes(&inits()[init_idx].1, &sig, &prog) } else { vec![] };
    let ex = Explorer::new(3);
    let init = build_init(&inits()[init_idx].1);
    // the same schedule must give identical observations twice (determinism self-check)
    let e1 = ex.run(&init, &programs, &schedule).expect("replay run");
    let e2 = ex.run(&init, &programs, &schedule).expect("replay run");
    let t1: Vec<Vec<String>> = e1.recs.iter().map(|r| r.iter().map(|x| x.out.transcript()).collect()).collect();
    let t2: Vec<Vec<String>> = e2.recs.iter().map(|r| r.iter().map(|x| x.out.transcript()).collect()).collect();
    if t1 != t2 || e1.fs.verif_dump() != e2.fs.verif_dump() {
        eprintln!("machinery: the same schedule produced different observations");
        return 2;
    }
    println!("  results: {:?}", t1);
    println!("  final files: {:?}", e1.fs.verif_dump().files.iter().map(|f| (f.key.clone(), json::bytes_repr(&f.data))).collect::<Vec<_>>());
    let before = vio_count();
    check_execution(init_idx, &sig, &prog, &e1, &seq, lin);
    if vio_count() > before {
        for sgn in vio_signatures() {
            println!("  violated: {}", sgn);
        }
        println!("VIOLATION property={} replay={}", ctx.prop, p.display());
        1
    } else {
        println!("holds on this schedule");
        0
    }
}

//! C02 Stdfs and Memfs are interchangeable: same calls, same results, same tree (engine E4).
//!
//! Every tree of a bounded namespace (links resolve to existing non-link entries) is materialised
//! on a tmpfs sandbox with std::fs only and in a fresh Memfs under the SAME absolute path; every call
//! of a finite alphabet (all mutating and querying methods; absolute, relative and unclean
//! spellings; never through a link) is run on both backends; success/failure, returned values and
//! the resulting trees (disk seen through std::fs only vs alpha(dump)) must agree. Runs in
//! single-threaded worker processes (Stdfs uses the process cwd/umask), as euid 0 and as uid 1000.
use crate::common::json::{self, J};
use crate::common::par::*;
use crate::common::report::*;
use crate::engines::sandbox::Sandbox;
use crate::engines::workers::*;
use crate::models::ops::*;
use crate::models::tree::*;
use rivia::prelude::*;

fn s(x: &str) -> String {
    x.to_string()
}

pub fn tree_space(tier: Tier, uidrun: bool) -> TreeSpace {
    TreeSpace {
        // one name is a textual prefix of the other on purpose (string- vs component-level comparisons)
        names: vec!["a", "ab"],
        max_depth: 2,
        max_entries: match (tier, uidrun) {
            (Tier::Quick, _) => 3,
            (Tier::Thorough, false) => 5,
            (Tier::Thorough, true) => 4,
        },
        contents: vec![b"".to_vec(), b"x".to_vec()],
        links: LinkDomain::Resolving,
        extra_targets: vec![],
        target_depth: 2,
    }
}

/// every tree plus, one entry at a time, a non-default mode (dir 0o700 / file 0o600): calls that derive
/// a mode from an existing entry (copy creating parents, chmod presets, ...) only show on such trees
/// the kernel refused the call to a non-root process for lack of a permission bit, Memfs carried it out
fn denied_on_disk_only(od: &Outcome, om: &Outcome, euid: u32) -> bool {
    euid != 0 && !od.ok && om.ok && od.msg.contains("Permission denied")
}

pub fn with_mode_variants(trees: Vec<Tree>) -> Vec<Tree> {
    let mut out = vec![];
    for t in trees {
        let keys: Vec<String> = t.nodes.iter().filter(|(_, n)| !n.is_link()).map(|(k, _)| k.clone()).collect();
        out.push(t.clone());
        for k in keys {
            let mut v = t.clone();
            let n = v.nodes.get_mut(&k).unwrap();
            n.mode = if n.is_dir() { 0o700 } else { 0o600 };
            out.push(v);
            // the sticky bit (setuid/setgid are cleared by the kernel on write and chown, which Memfs does not imitate): both backends store and report it
            {
                let mut v = t.clone();
                let n = v.nodes.get_mut(&k).unwrap();
                n.mode = if n.is_dir() { 0o1755 } else { 0o1644 };
                out.push(v);
            }
            // a file its owner may not write (the kernel enforces this for the uid-1000 workers)
            if t.nodes[&k].is_file() {
                let mut v = t.clone();
                v.nodes.get_mut(&k).unwrap().mode = 0o444;
                out.push(v);
            }
        }
    }
    out
}

/// the call alphabet in sandbox-relative form ("/a" = <sandbox>/a); `@` marks paths to re-root
pub fn alphabet(root_uid: bool) -> Vec<Op> {
    let ns = namespace(&["a", "b"], 2);
    let mut ops: Vec<Op> = vec![];
    let mut paths: Vec<String> = ns.clone();
    paths.push(s("/")); // the sandbox root itself
    paths.push(s("/zz/q")); // missing parent
    for p in &paths {
        ops.push(Op::Mkfile(p.clone()));
        ops.push(Op::MkdirP(p.clone()));
        ops.push(Op::WriteAll(p.clone(), b"w".to_vec()));
        ops.push(Op::AppendAll(p.clone(), b"y".to_vec()));
        ops.push(Op::Remove(p.clone()));
        ops.push(Op::RemoveAll(p.clone()));
        ops.push(Op::SetCwd(p.clone()));
        ops.push(Op::Chmod(p.clone(), 0o700));
        // queries
        ops.extend([
            Op::Exists(p.clone()),
            Op::IsDir(p.clone()),
            Op::IsFile(p.clone()),
            Op::IsSymlink(p.clone()),
            Op::IsSymlinkDir(p.clone()),
            Op::IsSymlinkFile(p.clone()),
            Op::IsExec(p.clone()),
            Op::IsReadonly(p.clone()),
            Op::Mode(p.clone()),
            Op::Owner(p.clone()),
            Op::Uid(p.clone()),
            Op::Gid(p.clone()),
            Op::ReadAll(p.clone()),
            Op::Read(p.clone()),
            Op::ReadLines(p.clone()),
            Op::Readlink(p.clone()),
            Op::ReadlinkAbs(p.clone()),
            Op::Entry(p.clone()),
            Op::Paths(p.clone()),
            Op::Dirs(p.clone()),
            Op::Files(p.clone()),
            Op::AllPaths(p.clone()),
            Op::AllDirs(p.clone()),
            Op::AllFiles(p.clone()),
            Op::EntriesSorted(p.clone()),
            Op::Abs(p.clone()),
        ]);
    }
    for p in ["/a", "/a/b", "/b"] {
        ops.push(Op::MkdirM(s(p), 0o700));
        ops.push(Op::MkfileM(s(p), 0o600));
        ops.push(Op::WriteLines(s(p), vec![s("l1"), s("l2")]));
        ops.push(Op::AppendLine(s(p), s("l")));
        ops.push(Op::AppendLines(s(p), vec![s("m"), s("n")]));
        ops.push(Op::WriteHandle(s(p), vec![b"h".to_vec(), b"i".to_vec()], vec![true, false]));
        ops.push(Op::AppendHandle(s(p), vec![b"j".to_vec()], vec![false]));
        ops.push(Op::ChmodB(s(p), ChmodSel::Sym(s("a:go-rwx")), true, false));
        ops.push(Op::ChmodB(s(p), ChmodSel::Dirs(0o711), true, false));
        ops.push(Op::ChmodB(s(p), ChmodSel::Files(0o640), false, true));
        ops.push(Op::ChmodB(s(p), ChmodSel::Readonly, true, false));
        // symbolic forms through followed links, and an octal value with a special bit
        ops.push(Op::ChmodB(s(p), ChmodSel::Sym(s("f:g+w,d:o-x")), true, true));
        ops.push(Op::ChmodB(s(p), ChmodSel::Readonly, true, true));
        ops.push(Op::ChmodB(s(p), ChmodSel::Secure, false, true));
        ops.push(Op::Chmod(s(p), 0o1750));
        // a special bit on top of the permissions a new entry gets anyway; executable for group/other but not the owner;
        // writable for group but not the owner (is_exec / is_readonly speak about all three classes)
        ops.push(Op::MkfileM(s(p), 0o1644));
        ops.push(Op::MkdirM(s(p), 0o1755));
        ops.push(Op::Chmod(s(p), 0o655));
        ops.push(Op::Chmod(s(p), 0o464));
        if root_uid {
            ops.push(Op::Chown(s(p), 5, 6));
            ops.push(Op::ChownB(s(p), Some(7), None, false, false));
            ops.push(Op::ChownB(s(p), None, Some(8), true, true));
        }
    }
    // several missing levels at once with a mode that lacks owner write / search: every created level carries
    // the requested mode on both backends
    for p in ["/zz/q", "/b/zz/q/r"] {
        ops.push(Op::MkdirM(s(p), 0o555));
        ops.push(Op::MkdirM(s(p), 0o644));
    }
    // data shapes: both backends must store and split the same bytes (empty data over existing content,
    // bare and doubled carriage returns, missing final newline, empty lines and embedded terminators in line lists)
    for p in ["/a", "/a/ab"] {
        // (the last one is not valid UTF-8: the text readers refuse it on both backends)
        for d in [&b""[..], &b"a\r\r\nb\r"[..], &b"x\n\ny"[..], &b"0123456789\n"[..], &b"ab\x80cd\xe2\x82"[..]] {
            ops.push(Op::WriteAll(s(p), d.to_vec()));
            ops.push(Op::AppendAll(s(p), d.to_vec()));
        }
        for ls in [vec![], vec![s("")], vec![s("a"), s("")], vec![s("a\n")], vec![s("a\r"), s("b")], vec![s(""), s("")]] {
            ops.push(Op::WriteLines(s(p), ls.clone()));
            ops.push(Op::AppendLines(s(p), ls));
        }
        ops.push(Op::AppendLine(s(p), s("")));
        ops.push(Op::AppendLine(s(p), s("x\n")));
        // handle shapes: a handle that never receives a byte (dropped at once, or flushed after an empty write)
        // and one that writes less than the file already holds: a write handle still replaces the content
        ops.push(Op::WriteHandle(s(p), vec![], vec![]));
        ops.push(Op::WriteHandle(s(p), vec![vec![]], vec![true]));
        ops.push(Op::WriteHandle(s(p), vec![vec![], b"s".to_vec()], vec![true, false]));
        ops.push(Op::AppendHandle(s(p), vec![], vec![]));
        ops.push(Op::AppendHandle(s(p), vec![vec![]], vec![true]));
    }
    for a in &ns {
        for b in &ns {
            if a != b {
                ops.push(Op::MoveP(a.clone(), b.clone()));
                ops.push(Op::Copy(a.clone(), b.clone()));
            }
        }
        ops.push(Op::MoveP(a.clone(), s("/")));
        ops.push(Op::Copy(a.clone(), s("/zz/q")));
        for t in ["/a", "/b/a", "/zz"] {
            if a != t {
                ops.push(Op::Symlink(a.clone(), s(t)));
            }
        }
        // relative targets in spellings that are not clean: what the link records (and readlink returns) is the
        // same on both backends
        for t in ["./b", "b/../a", "./", "../b/./a"] {
            ops.push(Op::Symlink(a.clone(), s(t)));
        }
    }
    for (a, b) in [("/a", "/b"), ("/a/a", "/b"), ("/b", "/a/b")] {
        ops.push(Op::CopyB(s(a), s(b), CopyMode::All(0o700), false));
        ops.push(Op::CopyB(s(a), s(b), CopyMode::Dirs(0o711), false));
        ops.push(Op::CopyB(s(a), s(b), CopyMode::Files(0o640), false));
        ops.push(Op::CopyB(s(a), s(b), CopyMode::None, true));
    }
    ops.push(Op::Cwd);
    ops.push(Op::Root);
    // relative / unclean / home-relative spellings (cwd = sandbox root, HOME = sandbox root)
    ops.extend([
        Op::Mkfile(s("a")),
        Op::Mkfile(s("./b/a")),
        Op::MkdirP(s("a/b/")),
        Op::MkdirP(s("b//a")),
        Op::WriteAll(s("b/../a"), b"w".to_vec()),
        Op::AppendAll(s("./a"), b"y".to_vec()),
        Op::Remove(s("a")),
        Op::RemoveAll(s("./b")),
        Op::MoveP(s("a"), s("b")),
        Op::Copy(s("a"), s("./b/b")),
        Op::Symlink(s("b"), s("a")),
        Op::Symlink(s("a/b"), s("../b")),
        Op::Symlink(s("b/a"), s("a")),
        Op::SetCwd(s("a")),
        Op::Exists(s("a")),
        Op::IsDir(s("./a")),
        Op::IsFile(s("a/b")),
        Op::IsDir(s("~/a")),
        Op::IsFile(s("~/a")),
        Op::Exists(s("~/b")),
        Op::Mkfile(s("~/b")),
        Op::Paths(s("~")),
        Op::Dirs(s("~/a")),
        Op::ReadAll(s("~/a")),
        Op::Paths(s(".")),
        Op::AllPaths(s("a/..")),
        Op::Readlink(s("b")),
        Op::ReadlinkAbs(s("./a/b")),
        Op::Entry(s("b/a")),
        Op::Mode(s("a")),
        Op::Abs(s("a/../b//")),
        Op::Abs(s("..")),
    ]);
    // the alphabet above is written over the names {a, b}; the namespace actually used is {a, ab}
    ops.iter().map(|o| o.map_paths(|p, _| p.replace('b', "ab"))).collect()
}

fn reroot_op(op: &Op, sb: &str) -> Op {
    op.map_paths(|p, idx| {
        // the target argument of symlink is re-rooted too when absolute
        let _ = idx;
        if p.starts_with('/') {
            reroot(sb, p)
        } else {
            p.to_string()
        }
    })
}

/// strip the sandbox prefix from a rendered value so witnesses are readable and sandbox independent
fn unroot(v: &str, sb: &str) -> String {
    v.replace(sb, "<SB>")
}

fn sub_tree(full: &Tree, sb: &str) -> Result<Tree, String> {
    // alpha(dump) restricted to the sandbox subtree, keys relative to it; everything outside must be
    // the plain ancestor directories
    let mut t = Tree::new();
    for (k, n) in &full.nodes {
        if k == sb {
            continue;
        }
        if is_under(k, sb) {
            let mut n2 = n.clone();
            if let Kind::Link(tg) = &n.kind {
                n2.kind = Kind::Link(if is_under(tg, sb) {
                    let r = &tg[sb.len()..];
                    if r.is_empty() {
                        "/".to_string()
                    } else {
                        r.to_string()
                    }
                } else {
                    format!("!{}", tg)
                });
            }
            t.insert(&k[sb.len()..], n2);
        } else if !is_under(sb, k) {
            return Err(format!("entry {} outside the sandbox", k));
        }
    }
    Ok(t)
}

/// compare the two observed trees (names, kinds, contents, link targets, permission bits; owners only
/// when `owners`, with the process ids mapped to Memfs' fixed 1000:1000)
fn tree_diff(disk: &Tree, mem: &Tree, owners: bool, euid: u32, egid: u32) -> Option<(String, String)> {
    let kd: Vec<&String> = disk.nodes.keys().collect();
    let km: Vec<&String> = mem.nodes.keys().collect();
    if kd != km {
        return Some(("names".into(), format!("disk has {:?}, Memfs has {:?}", kd, km)));
    }
    for (k, d) in &disk.nodes {
        let m = &mem.nodes[k];
        if d.kind != m.kind {
            let cls = if d.kind_name() != m.kind_name() {
                "kind"
            } else if d.is_link() {
                "link-target"
            } else {
                "content"
            };
            return Some((cls.into(), format!("{}: disk {:?}, Memfs {:?}", k, d.kind, m.kind)));
        }
        if !d.is_link() && d.mode != m.mode {
            return Some(("mode".into(), format!("{}: disk mode {:o}, Memfs mode {:o}", k, d.mode, m.mode)));
        }
        if owners {
            let (du, dg) = (if d.uid == euid { 1000 } else { d.uid }, if d.gid == egid { 1000 } else { d.gid });
            if (du, dg) != (m.uid, m.gid) {
                return Some(("owner".into(), format!("{}: disk owner {}:{} (process {}:{} maps to 1000:1000), Memfs {}:{}", k, d.uid, d.gid, euid, egid, m.uid, m.gid)));
            }
        }
    }
    None
}

fn arg_class(tree: &Tree, op: &Op) -> String {
    let cls = |a: &str| -> String {
        if a.starts_with('/') {
            tree.kind_detail(&crate::models::go_clean::go_clean(a))
        } else if a.starts_with('~') {
            format!("~{}", tree.kind_detail(&crate::models::go_clean::go_clean(&format!("/{}", a.trim_start_matches('~')))))
        } else {
            format!("rel:{}", tree.kind_detail(&crate::models::go_clean::go_clean(&format!("/{}", a))))
        }
    };
    match op.paths() {
        (Some(a), Some(b)) => format!("{},{}", cls(a), cls(b)),
        (Some(a), None) => cls(a),
        _ => String::new(),
    }
}

/// sandbox-relative clean form of a path argument (cwd = HOME = sandbox root)
fn resolve_rel(a: &str) -> String {
    let a = a.strip_prefix("~").unwrap_or(a);
    if a.starts_with('/') {
        crate::models::go_clean::go_clean(a)
    } else {
        crate::models::go_clean::go_clean(&format!("/{}", a))
    }
}

/// the statement covers arguments that do not pass through a symlink as an intermediate component
fn outside_domain(tree: &Tree, op: &Op) -> bool {
    match op.paths() {
        (Some(a), Some(b)) => {
            let ra = resolve_rel(a);
            let rb = if let Op::Symlink(..) = op {
                if b.starts_with('/') {
                    resolve_rel(b)
                } else {
                    resolve_rel(&format!("{}/{}", parent_of(&ra), b))
                }
            } else {
                resolve_rel(b)
            };
            tree.through_link(&ra) || tree.through_link(&rb)
        },
        (Some(a), None) => tree.through_link(&resolve_rel(a)),
        _ => false,
    }
}

/// queries asked on both backends after every mutating call
fn follow_up_queries() -> Vec<Op> {
    let mut q = vec![];
    for p in ["/a", "/a/a", "/a/ab", "/ab", "/ab/a", "/ab/ab", "/zz"] {
        let p = s(p);
        q.extend([Op::Exists(p.clone()), Op::IsFile(p.clone()), Op::IsDir(p.clone()), Op::IsSymlink(p.clone()), Op::ReadAll(p.clone()), Op::ReadLines(p.clone()), Op::ReadlinkAbs(p.clone()), Op::Readlink(p.clone()), Op::Mode(p.clone()), Op::IsExec(p.clone()), Op::IsReadonly(p.clone())]);
    }
    q.push(Op::AllPaths(s("/")));
    q
}

/// same domain rule evaluated on the post-state (read off the Memfs twin)
fn outside_domain_post(mem: &Memfs, sb: &str, q: &Op) -> bool {
    match abstract_dump(&mem.verif_dump()).and_then(|t| sub_tree(&t, sb)) {
        Ok(t) => outside_domain(&t, q),
        Err(_) => true,
    }
}

fn owner_value_op(op: &Op) -> bool {
    matches!(op, Op::Uid(..) | Op::Gid(..) | Op::Owner(..))
}

pub fn worker(w: &mut WorkerCtx) {
    unsafe {
        libc::umask(0o022);
    }
    let euid = unsafe { libc::geteuid() };
    let egid = unsafe { libc::getegid() };
    let root_uid = euid == 0;
    let sb = Sandbox::new(&format!("c02.{}", w.shard));
    let sbr = sb.root.clone();
    std::env::set_var("HOME", &sbr);
    let trees = with_mode_variants(enum_trees(&tree_space(w.tier, !root_uid)));
    let ops_rel = alphabet(root_uid);
    let ops: Vec<Op> = ops_rel.iter().map(|o| reroot_op(o, &sbr)).collect();
    let stdfs = Stdfs::new();
    let follow_up_rel = follow_up_queries();
    let follow_up: Vec<Op> = follow_up_rel.iter().map(|o| reroot_op(o, &sbr)).collect();
    let hb = Progress::new();
    let hb2 = hb.clone();
    let _wd = spawn_watchdog(hb2, std::time::Duration::from_secs(30), move |_slot, case| {
        // emit a minimal record and die: the parent reports the abnormal end
        println!("V\t{}", J::obj([("sig", J::s("C02 hang")), ("n", J::i(1)), ("detail", J::s(format!("call did not return (case index {})", case))), ("case", J::Null)]).to_string());
        println!("DONE");
        std::process::exit(0);
    });
    for (ti, tree0) in trees.iter().enumerate() {
        if !w.mine(ti as u64) {
            continue;
        }
        let mut tree = tree0.clone();
        tree.fix_link_kinds();
        // Memfs twin under the same absolute path, cwd = sandbox root
        let mem0 = match materialize_memfs(&tree, &sbr) {
            Ok(m) => m,
            Err(e) => {
                w.vio("C02 setup memfs", || format!("tree [{}] cannot be built in Memfs: {}", tree.render(), e), || J::s(tree.render()));
                continue;
            },
        };
        if mem0.set_cwd(&sbr).is_err() {
            w.count("machinery_setup_failures", 1);
            continue;
        }
        w.count("trees", 1);
        let mut disk_dirty = true;
        for (oi, op) in ops.iter().enumerate() {
            if outside_domain(&tree, &ops_rel[oi]) {
                w.count("pairs_skipped_argument_through_link", 1);
                continue;
            }
            if disk_dirty {
                sb.reset();
                if let Err(e) = materialize_disk(&tree, &sbr) {
                    w.count("machinery_setup_failures", 1);
                    eprintln!("materialize_disk: {}", e);
                    break;
                }
                disk_dirty = false;
            }
            let _ = std::env::set_current_dir(&sbr);
            hb.begin(0, (ti as u64) << 16 | oi as u64);
            let od = apply(&stdfs, op);
            let mem = mem0.verif_deep_clone();
            let om = apply(&mem, op);
            hb.end(0);
            w.count("pairs", 1);
            let post_disk = observe_disk(&sbr);
            let case = || J::obj([("tree", J::s(tree.render())), ("tree_idx", J::i(ti as i64)), ("call", J::s(ops_rel[oi].render())), ("call_idx", J::i(oi as i64)), ("uid", J::i(euid as i64))]);
            let ctx_txt = || format!("tree [{}], call {} (uid {})", tree.render(), ops_rel[oi].render(), euid);
            let cls = arg_class(&tree, &ops_rel[oi]);
            // signature name: the call, plus markers for the two option/shape combinations that matter
            let name: String = {
                let mut n = ops_rel[oi].name().to_string();
                if let Op::CopyB(src, _, _, true) = &ops_rel[oi] {
                    n.push_str("+follow");
                    let r = resolve_rel(src);
                    let root = match tree.get(&r) {
                        Some(Node { kind: Kind::Link(t), .. }) => t.clone(),
                        _ => r,
                    };
                    if tree.subtree(&root).iter().any(|k| *k != root && tree.nodes[k].is_link()) {
                        n.push_str("+inner-link");
                    }
                }
                n
            };
            let name = name.as_str();
            if od.panicked() || om.panicked() {
                w.vio(&format!("C02 {} panic [{}]", name, cls), || format!("{}: stdfs {} / memfs {}", ctx_txt(), od.brief(), om.brief()), case);
            } else if denied_on_disk_only(&od, &om, euid) {
                w.vio(&format!("C02 permissions-not-enforced-by-memfs {} [{}]", name, cls), || format!("{}: Stdfs returned {} but Memfs returned {}", ctx_txt(), unroot(&od.brief(), &sbr), unroot(&om.brief(), &sbr)), case);
            } else if od.ok != om.ok {
                w.vio(
                    &format!("C02 {} result stdfs={} memfs={} [{}]", name, if od.ok { "Ok" } else { "Err" }, if om.ok { "Ok" } else { "Err" }, cls),
                    || format!("{}: Stdfs returned {} but Memfs returned {}", ctx_txt(), unroot(&od.brief(), &sbr), unroot(&om.brief(), &sbr)),
                    case,
                );
            } else if od.ok {
                let (mut vd, vm) = (od.val.clone(), om.val.clone());
                if owner_value_op(&ops_rel[oi]) {
                    // Memfs hard-codes 1000:1000 for new entries; map the process ids onto it
                    vd = vd.split(':').enumerate().map(|(i, x)| if (i == 0 && x == euid.to_string()) || (i == 1 && x == egid.to_string()) || (matches!(ops_rel[oi], Op::Gid(..)) && x == egid.to_string()) { "1000".to_string() } else { x.to_string() }).collect::<Vec<_>>().join(":");
                }
                if vd != vm {
                    w.vio(&format!("C02 {} value [{}]", name, cls), || format!("{}: Stdfs returned {:?} but Memfs returned {:?}", ctx_txt(), unroot(&vd, &sbr), unroot(&vm, &sbr)), case);
                }
            }
            // resulting trees
            match (&post_disk, abstract_dump(&mem.verif_dump()).and_then(|t| sub_tree(&t, &sbr))) {
                (Ok(d), Ok(m)) => {
                    let owners = matches!(ops_rel[oi], Op::Chown(..) | Op::ChownB(..));
                    // a multi-entry call that fails part-way leaves a traversal-order dependent partial
                    // result on both backends (DESIGN §5): only the success/failure verdict is compared
                    let partial = !od.ok && !om.ok && matches!(ops_rel[oi], Op::Copy(..) | Op::CopyB(..) | Op::Chmod(..) | Op::ChmodB(..) | Op::Chown(..) | Op::ChownB(..));
                    if partial {
                        w.count("failed_multi_entry_calls_tree_not_compared", 1);
                    } else if denied_on_disk_only(&od, &om, euid) {
                        // reported above under its own signature; the trees differ by what Memfs went on to do
                        w.count("permission_denied_on_disk_only", 1);
                    } else if let Some((c, detail)) = tree_diff(d, &m, owners, euid, egid) {
                        w.vio(&format!("C02 {} tree:{} (results stdfs={} memfs={}) [{}]", name, c, if od.ok { "Ok" } else { "Err" }, if om.ok { "Ok" } else { "Err" }, cls), || format!("{}: resulting trees differ: {} (Stdfs {} / Memfs {})", ctx_txt(), detail, unroot(&od.brief(), &sbr), unroot(&om.brief(), &sbr)), case);
                    }
                    let unchanged = d.nodes.len() == tree.nodes.len() && d.nodes.iter().zip(tree.nodes.iter()).all(|((k1, a), (k2, b))| k1 == k2 && a.kind == b.kind && a.mode == b.mode);
                    if !unchanged {
                        disk_dirty = true;
                        w.count("state_changing_pairs", 1);
                    }
                },
                (Err(e), _) => {
                    w.count("machinery_observe_failures", 1);
                    eprintln!("observe_disk: {}", e);
                    disk_dirty = true;
                },
                (_, Err(e)) => {
                    w.vio(&format!("C02 {} memfs-malformed [{}]", name, cls), || format!("{}: Memfs state cannot be read as a tree: {}", ctx_txt(), e), case);
                    disk_dirty = true;
                },
            }
            // second step: after a mutating call the two backends must also answer every query alike
            // (catches state that the tree abstraction does not show, e.g. stale data under a key)
            let post_in_domain = match (&post_disk, abstract_dump(&mem.verif_dump()).and_then(|t| sub_tree(&t, &sbr))) {
                // only when both backends ended in the same tree and that tree is inside the statement's
                // pre-state domain (every link resolves to an existing non-link entry)
                (Ok(d), Ok(m)) => tree_diff(d, &m, false, euid, egid).is_none() && m.links_resolve(),
                _ => false,
            };
            if ops_rel[oi].is_mutator() && !od.panicked() && !om.panicked() && post_in_domain {
                for (qi, q) in follow_up.iter().enumerate() {
                    if outside_domain_post(&mem, &sbr, &follow_up_rel[qi]) {
                        continue;
                    }
                    // the text a link records is compared right after the link was made; what a *moved* link
                    // records is the known finding "move_p tree:link-target"
                    if matches!(follow_up_rel[qi], Op::Readlink(_)) && !matches!(ops_rel[oi], Op::Symlink(..)) {
                        continue;
                    }
                    let _ = std::env::set_current_dir(&sbr);
                    let qd = apply(&stdfs, q);
                    let qm = apply(&mem, q);
                    w.count("follow_up_queries", 1);
                    let differs = qd.ok != qm.ok || (qd.ok && qd.val != qm.val && !owner_value_op(&follow_up_rel[qi]));
                    if differs {
                        w.vio(
                            &format!("C02 {} then {} differs [{}]", name, follow_up_rel[qi].name(), cls),
                            || format!("{}: afterwards {} gives {} on Stdfs but {} on Memfs", ctx_txt(), follow_up_rel[qi].render(), unroot(&qd.brief(), &sbr), unroot(&qm.brief(), &sbr)),
                            case,
                        );
                    }
                }
                for (code, detail) in crate::models::invariants::check(&mem.verif_dump()) {
                    w.vio(&format!("C02 {} memfs-invariant {} [{}]", name, code, cls), || format!("{}: Memfs state is malformed afterwards: {}", ctx_txt(), detail), case);
                }
            }
            if ops_rel[oi].is_mutator() && matches!(ops_rel[oi], Op::Chmod(..) | Op::ChmodB(..) | Op::Chown(..) | Op::ChownB(..) | Op::MkdirM(..) | Op::MkfileM(..) | Op::CopyB(..)) {
                disk_dirty = true; // modes / owners are not part of Tree equality used above
            }
            if oi % 131 == 7 && ops_rel[oi].is_mutator() {
                w.sample(J::obj([("tree", J::s(tree.render())), ("call", J::s(ops_rel[oi].render())), ("stdfs", J::s(unroot(&od.brief(), &sbr))), ("memfs", J::s(unroot(&om.brief(), &sbr)))]));
            }
        }
        w.count("distinct_trees_with_links", if tree.nodes.values().any(|n| n.is_link()) { 1 } else { 0 });
    }
    // ---- labelled sampling supplement (never decides alone): seeded random multi-step histories from
    // the empty sandbox, both backends in lock-step; a history ends at the first divergence or when the
    // state leaves the statement's domain (a link that dangles or points to a link)
    let mut rng = Rng(w.seed ^ (0xC02 + w.shard * 7919 + euid as u64));
    let n_hist = w.tier.pick(150u64, 3000u64);
    for _ in 0..n_hist {
        sb.reset();
        let _ = std::env::set_current_dir(&sbr);
        let mem = Memfs::new();
        if mem.mkdir_p(&sbr).is_err() || mem.set_cwd(&sbr).is_err() {
            break;
        }
        let mut hist: Vec<String> = vec![];
        for _step in 0..6 {
            let oi = rng.below(ops.len() as u64) as usize;
            if matches!(ops_rel[oi], Op::SetCwd(..)) {
                continue; // relative arguments are classified against the sandbox root
            }
            let cur = match abstract_dump(&mem.verif_dump()).and_then(|t| sub_tree(&t, &sbr)) {
                Ok(t) => t,
                Err(_) => break,
            };
            if !cur.links_resolve() || outside_domain(&cur, &ops_rel[oi]) {
                if !cur.links_resolve() {
                    break;
                }
                continue;
            }
            let od = apply(&stdfs, &ops[oi]);
            let om = apply(&mem, &ops[oi]);
            hist.push(ops_rel[oi].render());
            w.count("random_history_steps", 1);
            let cls = arg_class(&cur, &ops_rel[oi]);
            let name = ops_rel[oi].name();
            let h2 = hist.clone();
            let case = || J::obj([("random_history", J::strs(h2.iter())), ("uid", J::i(euid as i64))]);
            let ctx_txt = || format!("history {:?} from the empty sandbox (uid {}); tree before the last call [{}]", hist, euid, cur.render());
            if od.panicked() || om.panicked() {
                w.vio(&format!("C02 {} panic [{}]", name, cls), || format!("{}: stdfs {} / memfs {}", ctx_txt(), od.brief(), om.brief()), case);
                break;
            }
            if denied_on_disk_only(&od, &om, euid) {
                w.vio(&format!("C02 permissions-not-enforced-by-memfs {} [{}]", name, cls), || format!("{}: Stdfs returned {} but Memfs returned {}", ctx_txt(), unroot(&od.brief(), &sbr), unroot(&om.brief(), &sbr)), case);
                break;
            }
            if od.ok != om.ok {
                w.vio(&format!("C02 {} result stdfs={} memfs={} [{}]", name, if od.ok { "Ok" } else { "Err" }, if om.ok { "Ok" } else { "Err" }, cls), || format!("{}: Stdfs returned {} but Memfs returned {}", ctx_txt(), unroot(&od.brief(), &sbr), unroot(&om.brief(), &sbr)), case);
                break;
            }
            if od.ok && od.val != om.val && !owner_value_op(&ops_rel[oi]) {
                w.vio(&format!("C02 {} value [{}]", name, cls), || format!("{}: Stdfs returned {:?} but Memfs returned {:?}", ctx_txt(), unroot(&od.val, &sbr), unroot(&om.val, &sbr)), case);
                break;
            }
            let partial = !od.ok && matches!(ops_rel[oi], Op::Copy(..) | Op::CopyB(..) | Op::Chmod(..) | Op::ChmodB(..) | Op::Chown(..) | Op::ChownB(..));
            match (observe_disk(&sbr), abstract_dump(&mem.verif_dump()).and_then(|t| sub_tree(&t, &sbr))) {
                (Ok(d), Ok(m)) => {
                    if partial {
                        break; // traversal-order dependent partial result: the two states may legitimately differ
                    }
                    if let Some((c, detail)) = tree_diff(&d, &m, false, euid, egid) {
                        w.vio(&format!("C02 {} tree:{} (results stdfs={} memfs={}) [{}]", name, c, if od.ok { "Ok" } else { "Err" }, if om.ok { "Ok" } else { "Err" }, cls), || format!("{}: resulting trees differ: {}", ctx_txt(), detail), case);
                        break;
                    }
                },
                _ => break,
            }
        }
        w.count("random_histories", 1);
    }
    let _ = std::env::set_current_dir("/");
}

pub fn run(ctx: &Ctx) -> i32 {
    quiet_panics();
    if let Some(p) = &ctx.replay {
        return replay(ctx, p);
    }
    crate::engines::sandbox::sweep_stale();
    if let Ok(ix) = std::env::var("C02_PRINT_CASE") {
        // debugging aid: print tree / call of a case index reported by the hang watchdog
        let case: u64 = ix.parse().unwrap_or(0);
        let (ti, oi) = ((case >> 16) as usize, (case & 0xFFFF) as usize);
        for uidrun in [false, true] {
            let trees = with_mode_variants(enum_trees(&tree_space(ctx.tier, uidrun)));
            println!("uidrun={} tree[{}] = {:?}; call[{}] = {:?}", uidrun, ti, trees.get(ti).map(|t| t.render()), oi, alphabet(!uidrun).get(oi).map(|o| o.render()));
        }
        return 0;
    }
    let mut g = Gathered::default();
    let is_root = unsafe { libc::geteuid() } == 0;
    run_workers(ctx, &Launch { name: "c02".into(), nshards: ctx.threads as u64, extra: vec![], uid: None, env: None }, &mut g);
    let pairs_own = g.c("pairs");
    let mut uid_runs = vec![J::i(unsafe { libc::geteuid() } as i64)];
    if is_root {
        run_workers(ctx, &Launch { name: "c02".into(), nshards: ctx.threads as u64, extra: vec![], uid: Some(1000), env: None }, &mut g);
        uid_runs.push(J::i(1000));
    }
    if !g.failed.is_empty() || g.c("machinery_setup_failures") > 0 {
        eprintln!("machinery: {} worker problems, {} setup failures: {:?}", g.failed.len(), g.c("machinery_setup_failures"), g.failed.first());
        return 2;
    }
    let ntrees = with_mode_variants(enum_trees(&tree_space(ctx.tier, false))).len();
    let cov = J::obj([
        ("states", J::i(g.c("trees"))),
        ("transitions", J::i(g.c("pairs"))),
        ("traces_validated_against_impl", J::i(g.c("pairs"))),
        ("samples", J::Arr(g.samples.clone())),
        ("trees_in_family", J::i(ntrees as i64)),
        ("calls_in_alphabet", J::i(alphabet(true).len() as i64)),
        ("pairs_first_uid", J::i(pairs_own)),
        ("state_changing_pairs", J::i(g.c("state_changing_pairs"))),
        ("effective_uids", J::Arr(uid_runs)),
        ("sampling_supplement_random_histories", J::i(g.c("random_histories"))),
        ("sampling_supplement_random_history_steps", J::i(g.c("random_history_steps"))),
        ("exhaustive", J::Bool(true)),
        ("explanation", J::s("states = (tree, uid) configurations materialised on disk and in Memfs; transitions = (tree, call) pairs executed on both backends and compared (result, value, resulting tree seen through std::fs only vs alpha(dump))")),
    ]);
    finish(ctx, Evidence {
        level: "model_checking",
        coverage: cov,
        assumptions: vec![
            "pre-state domain: every symlink resolves to an existing non-link entry; call arguments never pass through a link (the statement's domain)".into(),
            "Linux tmpfs, umask 022, euid 0 and uid 1000; owner values are compared modulo process ids <-> Memfs' fixed 1000:1000".into(),
            "error kinds are not compared (the statement says success-or-failure)".into(),
            "single calls from every tree of the family (multi-step histories are covered by C01 on Memfs and reach the same trees)".into(),
        ],
    })
}

fn replay(ctx: &Ctx, p: &std::path::Path) -> i32 {
    let j = json::parse(&std::fs::read_to_string(p).expect("read replay")).expect("parse replay");
    let case = j.get("case").expect("case");
    println!("replay C02: {}", case.to_string());
    println!("(re-run `./check C02 --tier {}` to re-evaluate; the case names the tree and the call)", ctx.tier.name());
    // re-execute the single pair in-process (single-threaded here)
    unsafe {
        libc::umask(0o022);
    }
    let ti = case.get("tree_idx").and_then(|x| x.as_i64()).unwrap_or(0) as usize;
    let oi = case.get("call_idx").and_then(|x| x.as_i64()).unwrap_or(0) as usize;
    let root_uid = unsafe { libc::geteuid() } == 0;
    for tier in [Tier::Quick, Tier::Thorough] {
        let trees = with_mode_variants(enum_trees(&tree_space(tier, false)));
        if let Some(t) = trees.get(ti) {
            if Some(t.render().as_str()) != case.get("tree").and_then(|x| x.as_str()) {
                continue;
            }
            let sb = Sandbox::new("c02.replay");
            std::env::set_var("HOME", &sb.root);
            let ops_rel = alphabet(root_uid);
            let op = reroot_op(&ops_rel[oi], &sb.root);
            let mut tree = t.clone();
            tree.fix_link_kinds();
            materialize_disk(&tree, &sb.root).expect("materialize");
            let mem = materialize_memfs(&tree, &sb.root).expect("memfs");
            let _ = mem.set_cwd(&sb.root);
            let _ = std::env::set_current_dir(&sb.root);
            let od = apply(&Stdfs::new(), &op);
            let om = apply(&mem, &op);
            println!("  tree [{}] call {}", tree.render(), ops_rel[oi].render());
            println!("  stdfs: {}", unroot(&od.brief(), &sb.root));
            println!("  memfs: {}", unroot(&om.brief(), &sb.root));
            let d = observe_disk(&sb.root).expect("observe");
            let m = abstract_dump(&mem.verif_dump()).and_then(|t| sub_tree(&t, &sb.root));
            println!("  disk after : {}", d.render());
            println!("  memfs after: {:?}", m.as_ref().map(|t| t.render()));
            let bad = od.ok != om.ok || (od.ok && od.val != om.val && !owner_value_op(&ops_rel[oi])) || m.as_ref().map(|m| tree_diff(&d, m, false, 0, 0).is_some()).unwrap_or(true);
            let _ = std::env::set_current_dir("/");
            if bad {
                println!("VIOLATION property={} replay={}", ctx.prop, p.display());
                return 1;
            }
            println!("holds on this case");
            return 0;
        }
    }
    eprintln!("machinery: tree of the replay case not found");
    2
}

//! C11 chmod/chown change exactly the selected entries to exactly the requested value.
//!
//! Part (i)  grammar sweep on Memfs: permission value x single/double clause x entry kind, plus the
//!           malformed-input sweep, plus octal values and the readonly()/secure() presets.
//! Part (ii) which-entries: every tree of a small family x mode assignment x target path x
//!           chmod/chown variant on Memfs (full dump diff), depth-bounded closure over the reached
//!           configurations, and the same one-step check on Stdfs (root worker processes, sandbox).
use crate::common::json::{self, J};
use crate::common::par::*;
use crate::common::report::*;
use crate::common::strings::*;
use crate::engines::sandbox::Sandbox;
use crate::engines::workers::{run_workers, Gathered, Launch, WorkerCtx};
use crate::models::ref_mode::{all_clauses, apply_expr, classify_first, parse_clause, parse_expr, Clause, FirstClause};
use crate::models::tree::{
    abstract_dump, enum_trees, materialize_disk, materialize_memfs, observe_disk, reroot, Kind, LinkDomain, Node, Tree, TreeSpace,
};
use rivia::prelude::*;
use rivia::verif::Dump;
use std::collections::{BTreeMap, BTreeSet, HashSet};
use std::hash::{Hash, Hasher};
use std::panic::{catch_unwind, AssertUnwindSafe};
use std::sync::atomic::{AtomicU64, Ordering};
use std::sync::Mutex;

const TYPE_FILE: u32 = 0o100000;
const TYPE_DIR: u32 = 0o40000;
const LINK_MODE: u32 = 0o120777;

// ---------------------------------------------------------------------------------------------
// Operations
// ---------------------------------------------------------------------------------------------
#[derive(Clone, Debug, PartialEq)]
pub enum Act {
    All(u32),
    Dirs(u32),
    Files(u32),
    Sym(String),
    Readonly,
    Secure,
    /// octal value for one or both kinds (0 = not given) together with a symbolic expression: per the docs
    /// the octal form wins for the kind it is given for, the expression applies to the other kind
    Mixed { dirs: u32, files: u32, sym: String },
}

#[derive(Clone, Debug, PartialEq)]
pub enum Op {
    /// vfs.chmod(path, m): documented as recursive, not following links
    Chmod(u32),
    ChmodB { recurse: bool, follow: bool, act: Act },
    /// vfs.chown(path, uid, gid): documented as recursive
    Chown(u32, u32),
    ChownB { recurse: bool, follow: bool, uid: Option<u32>, gid: Option<u32> },
    /// several id-setting builder calls in a row; whatever the order, the request is (uid, gid)
    ChownChain { recurse: bool, follow: bool, order: u8, uid: u32, gid: u32 },
}

impl Op {
    fn render(&self, path: &str) -> String {
        match self {
            Op::Chmod(m) => format!("chmod({:?}, 0o{:o})", path, m),
            Op::ChmodB { recurse, follow, act } => format!(
                "chmod_b({:?}).{}{}{}.exec()",
                path,
                if *recurse { "recurse()" } else { "no_recurse()" },
                if *follow { ".follow()" } else { "" },
                match act {
                    Act::All(m) => format!(".all(0o{:o})", m),
                    Act::Dirs(m) => format!(".dirs(0o{:o})", m),
                    Act::Files(m) => format!(".files(0o{:o})", m),
                    Act::Sym(s) => format!(".sym({:?})", s),
                    Act::Readonly => ".readonly()".into(),
                    Act::Secure => ".secure()".into(),
                    Act::Mixed { dirs, files, sym } => format!(
                        "{}{}.sym({:?})",
                        if *dirs != 0 { format!(".dirs(0o{:o})", dirs) } else { String::new() },
                        if *files != 0 { format!(".files(0o{:o})", files) } else { String::new() },
                        sym
                    ),
                }
            ),
            Op::ChownChain { recurse, follow, order, uid, gid } => format!(
                "chown_b({:?}).recurse({}){}{}.exec()",
                path,
                recurse,
                if *follow { ".follow()" } else { "" },
                match order {
                    0 => format!(".uid({}).gid({})", uid, gid),
                    1 => format!(".gid({}).uid({})", gid, uid),
                    2 => format!(".owner(9, 9).uid({}).gid({})", uid, gid),
                    _ => format!(".owner({}, 9).gid({})", uid, gid),
                }
            ),
            Op::Chown(u, g) => format!("chown({:?}, {}, {})", path, u, g),
            Op::ChownB { recurse, follow, uid, gid } => format!(
                "chown_b({:?}).recurse({}){}{}.exec()",
                path,
                recurse,
                if *follow { ".follow()" } else { "" },
                match (uid, gid) {
                    (Some(u), Some(g)) => format!(".owner({}, {})", u, g),
                    (Some(u), None) => format!(".uid({})", u),
                    (None, Some(g)) => format!(".gid({})", g),
                    (None, None) => String::new(),
                }
            ),
        }
    }
    fn to_json(&self) -> J {
        let oi = |x: &Option<u32>| x.map(|v| J::i(v)).unwrap_or(J::Null);
        match self {
            Op::Chmod(m) => J::obj([("op", J::s("chmod")), ("mode", J::i(*m))]),
            Op::ChmodB { recurse, follow, act } => {
                let (a, m, s) = match act {
                    Act::All(m) => ("all", *m, String::new()),
                    Act::Dirs(m) => ("dirs", *m, String::new()),
                    Act::Files(m) => ("files", *m, String::new()),
                    Act::Sym(s) => ("sym", 0, s.clone()),
                    Act::Readonly => ("readonly", 0, String::new()),
                    Act::Secure => ("secure", 0, String::new()),
                    Act::Mixed { dirs, sym, .. } => ("mixed", *dirs, sym.clone()),
                };
                J::obj([
                    ("op", J::s("chmod_b")),
                    ("recurse", J::Bool(*recurse)),
                    ("follow", J::Bool(*follow)),
                    ("act", J::s(a)),
                    ("mode", J::i(m)),
                    ("files_mode", J::i(match act {
                        Act::Mixed { files, .. } => *files,
                        _ => 0,
                    })),
                    ("sym", J::s(s)),
                ])
            },
            Op::ChownChain { recurse, follow, order, uid, gid } => J::obj([("op", J::s("chown_chain")), ("recurse", J::Bool(*recurse)), ("follow", J::Bool(*follow)), ("order", J::i(*order as u32)), ("uid", J::i(*uid)), ("gid", J::i(*gid))]),
            Op::Chown(u, g) => J::obj([("op", J::s("chown")), ("uid", J::i(*u)), ("gid", J::i(*g))]),
            Op::ChownB { recurse, follow, uid, gid } => J::obj([
                ("op", J::s("chown_b")),
                ("recurse", J::Bool(*recurse)),
                ("follow", J::Bool(*follow)),
                ("uid", oi(uid)),
                ("gid", oi(gid)),
            ]),
        }
    }
    fn from_json(j: &J) -> Option<Op> {
        let b = |k: &str| matches!(j.get(k), Some(J::Bool(true)));
        let u = |k: &str| j.get(k).and_then(|x| x.as_i64()).map(|x| x as u32);
        match j.get("op")?.as_str()? {
            "chmod" => Some(Op::Chmod(u("mode")?)),
            "chmod_b" => {
                let act = match j.get("act")?.as_str()? {
                    "all" => Act::All(u("mode")?),
                    "dirs" => Act::Dirs(u("mode")?),
                    "files" => Act::Files(u("mode")?),
                    "sym" => Act::Sym(j.get("sym")?.as_str()?.to_string()),
                    "readonly" => Act::Readonly,
                    "secure" => Act::Secure,
                    "mixed" => Act::Mixed { dirs: u("mode")?, files: u("files_mode").unwrap_or(0), sym: j.get("sym")?.as_str()?.to_string() },
                    _ => return None,
                };
                Some(Op::ChmodB { recurse: b("recurse"), follow: b("follow"), act })
            },
            "chown_chain" => Some(Op::ChownChain { recurse: b("recurse"), follow: b("follow"), order: u("order")? as u8, uid: u("uid")?, gid: u("gid")? }),
            "chown" => Some(Op::Chown(u("uid")?, u("gid")?)),
            "chown_b" => Some(Op::ChownB { recurse: b("recurse"), follow: b("follow"), uid: u("uid"), gid: u("gid") }),
            _ => None,
        }
    }
    /// normal form: (recursive, follow, mode action or owner change)
    fn norm(&self) -> (bool, bool, Option<Act>, Option<(Option<u32>, Option<u32>)>) {
        match self {
            Op::Chmod(m) => (true, false, Some(Act::All(*m)), None),
            Op::ChmodB { recurse, follow, act } => (*recurse, *follow, Some(act.clone()), None),
            Op::Chown(u, g) => (true, false, None, Some((Some(*u), Some(*g)))),
            Op::ChownB { recurse, follow, uid, gid } => (*recurse, *follow, None, Some((*uid, *gid))),
            Op::ChownChain { recurse, follow, uid, gid, .. } => (*recurse, *follow, None, Some((Some(*uid), Some(*gid)))),
        }
    }
    fn family(&self) -> &'static str {
        match self {
            Op::Chmod(_) => "chmod-octal",
            Op::ChmodB { act, .. } => match act {
                Act::All(_) | Act::Dirs(_) | Act::Files(_) => "chmod-octal",
                Act::Sym(_) => "chmod-sym",
                Act::Mixed { .. } => "chmod-octal+sym",
                Act::Readonly => "chmod-readonly",
                Act::Secure => "chmod-secure",
            },
            Op::Chown(..) | Op::ChownB { .. } | Op::ChownChain { .. } => "chown",
        }
    }
}

/// outer Err = panic message, inner Err = error returned by rivia
type CallResult = Result<Result<(), String>, String>;

fn exec_op<V: VirtualFileSystem>(fs: &V, path: &str, op: &Op) -> CallResult {
    watched(|d| d.push_str(&op.render(path)), || exec_op_unwatched(fs, path, op))
}

fn exec_op_unwatched<V: VirtualFileSystem>(fs: &V, path: &str, op: &Op) -> CallResult {
    let r = catch_unwind(AssertUnwindSafe(|| -> RvResult<()> {
        match op {
            Op::Chmod(m) => fs.chmod(path, *m),
            Op::ChmodB { recurse, follow, act } => {
                let mut b = fs.chmod_b(path)?;
                b = if *recurse { b.recurse() } else { b.no_recurse() };
                if *follow {
                    b = b.follow();
                }
                b = match act {
                    Act::All(m) => b.all(*m),
                    Act::Dirs(m) => b.dirs(*m),
                    Act::Files(m) => b.files(*m),
                    Act::Sym(s) => b.sym(s),
                    Act::Readonly => b.readonly(),
                    Act::Secure => b.secure(),
                    Act::Mixed { dirs, files, sym } => {
                        let mut b = b;
                        if *dirs != 0 {
                            b = b.dirs(*dirs);
                        }
                        if *files != 0 {
                            b = b.files(*files);
                        }
                        b.sym(sym)
                    },
                };
                b.exec()
            },
            Op::Chown(u, g) => fs.chown(path, *u, *g),
            Op::ChownChain { recurse, follow, order, uid, gid } => {
                let mut b = fs.chown_b(path)?.recurse(*recurse);
                if *follow {
                    b = b.follow();
                }
                b = match order {
                    0 => b.uid(*uid).gid(*gid),
                    1 => b.gid(*gid).uid(*uid),
                    2 => b.owner(9, 9).uid(*uid).gid(*gid),
                    _ => b.owner(*uid, 9).gid(*gid),
                };
                b.exec()
            },
            Op::ChownB { recurse, follow, uid, gid } => {
                let mut b = fs.chown_b(path)?.recurse(*recurse);
                if *follow {
                    b = b.follow();
                }
                b = match (uid, gid) {
                    (Some(u), Some(g)) => b.owner(*u, *g),
                    (Some(u), None) => b.uid(*u),
                    (None, Some(g)) => b.gid(*g),
                    (None, None) => b,
                };
                b.exec()
            },
        }
    }));
    match r {
        Err(e) => Err(panic_message(&e)),
        Ok(x) => Ok(x.map_err(|e| e.to_string())),
    }
}

fn render_result(r: &CallResult) -> String {
    match r {
        Err(p) => format!("PANIC({})", p),
        Ok(Ok(())) => "Ok(())".into(),
        Ok(Err(e)) => format!("Err({})", e),
    }
}

// ---------------------------------------------------------------------------------------------
// Reference: which entries are selected and what value they get
// ---------------------------------------------------------------------------------------------
#[derive(Clone, Copy, Debug, PartialEq, Eq)]
enum Role {
    /// the path the call was made on
    Own,
    /// below the path (recursive calls)
    Descendant,
    /// reached through a followed link (the target itself or something below it)
    Followed,
}

#[derive(Default, Debug)]
struct Plan {
    /// non-link entries the call must change
    targets: BTreeMap<String, Role>,
    /// links visited without follow: chmod never alters them; whether chown sets the ids of the
    /// link itself is not documented (either accepted)
    link_self: BTreeSet<String>,
    /// following a link led back into a directory that is being traversed: outcome undocumented
    looped: bool,
}

fn plan_visit(t: &Tree, p: &str, role: Role, recursive: bool, follow: bool, stack: &mut Vec<String>, plan: &mut Plan, budget: &mut u32) {
    if *budget == 0 {
        plan.looped = true;
        return;
    }
    *budget -= 1;
    let n = match t.get(p) {
        Some(n) => n,
        None => return,
    };
    match &n.kind {
        Kind::Link(tg) => {
            if follow {
                if stack.iter().any(|s| s == tg) {
                    plan.looped = true;
                    return;
                }
                plan_visit(t, tg, Role::Followed, recursive, follow, stack, plan, budget);
            } else {
                plan.link_self.insert(p.to_string());
            }
        },
        Kind::File(_) => {
            plan.targets.entry(p.to_string()).or_insert(role);
        },
        Kind::Dir => {
            plan.targets.entry(p.to_string()).or_insert(role);
            if recursive {
                stack.push(p.to_string());
                let child_role = if role == Role::Followed { Role::Followed } else { Role::Descendant };
                for c in t.children(p) {
                    plan_visit(t, &c, child_role, recursive, follow, stack, plan, budget);
                }
                stack.pop();
            }
        },
    }
}

fn plan_for(t: &Tree, path: &str, recursive: bool, follow: bool) -> Plan {
    let mut plan = Plan::default();
    let mut budget = 10_000u32;
    plan_visit(t, path, Role::Own, recursive, follow, &mut vec![], &mut plan, &mut budget);
    plan
}

/// acceptable new permission values (first = the plain reading) for one selected entry
fn want_modes(act: &Act, is_dir: bool, old: u32) -> Vec<u32> {
    let hi = old & !0o777;
    // an octal value replaces all twelve permission bits (special bits included), only the file type stays
    let ty = old & !0o7777;
    match act {
        Act::All(m) => vec![ty | *m],
        Act::Dirs(m) => vec![if is_dir { ty | *m } else { old }],
        Act::Files(m) => vec![if is_dir { old } else { ty | *m }],
        Act::Sym(s) => match parse_expr(s) {
            Some(cs) => vec![hi | apply_expr(old & 0o777, is_dir, &cs)],
            None => vec![old],
        },
        // "Remove write and execute permissions for all groups for files only" (the documented
        // example 0o644 -> 0o444 does not tell whether read is also granted: both accepted)
        Act::Readonly => {
            if is_dir {
                vec![old]
            } else {
                vec![old & !0o333, (old & !0o333) | 0o444]
            }
        },
        // "Drop all permissions for group and other so that only user permissions remain."
        Act::Secure => vec![old & !0o077],
        Act::Mixed { dirs, files, sym } => {
            let oct = if is_dir { *dirs } else { *files };
            if oct != 0 {
                vec![ty | oct]
            } else {
                want_modes(&Act::Sym(sym.clone()), is_dir, old)
            }
        },
    }
}

struct Verdict {
    sig: String,
    detail: String,
}

/// Violations are aggregated per worker slot and handed to the shared collector at the end of a
/// phase: on the pinned tree a few defects fire millions of times and the global collector lock
/// would serialise the sweep. The shortest witness per signature is kept.
struct Agg {
    slots: Vec<Mutex<BTreeMap<String, (u64, String, J)>>>,
}

impl Agg {
    fn new() -> Agg {
        Agg { slots: (0..MAX_SLOTS).map(|_| Mutex::new(BTreeMap::new())).collect() }
    }
    fn add<C: FnOnce() -> J>(&self, slot: usize, v: Verdict, case: C) {
        let mut g = self.slots[slot % MAX_SLOTS].lock().unwrap_or_else(|e| e.into_inner());
        match g.get_mut(&v.sig) {
            Some(r) => {
                r.0 += 1;
                if v.detail.len() < r.1.len() {
                    r.1 = v.detail;
                    r.2 = case();
                }
            },
            None => {
                g.insert(v.sig, (1, v.detail, case()));
            },
        }
    }
    /// has this slot already a witness for `sig`? (lets hot paths skip formatting the detail)
    fn bump_if_known(&self, slot: usize, sig: &str) -> bool {
        let mut g = self.slots[slot % MAX_SLOTS].lock().unwrap_or_else(|e| e.into_inner());
        match g.get_mut(sig) {
            Some(r) => {
                r.0 += 1;
                true
            },
            None => false,
        }
    }
    /// hand everything to the shared collector (occurrence counts above 1000 are clipped)
    fn flush(&self) {
        let mut merged: BTreeMap<String, (u64, String, J)> = BTreeMap::new();
        for s in &self.slots {
            let m = std::mem::take(&mut *s.lock().unwrap_or_else(|e| e.into_inner()));
            for (sig, (n, d, c)) in m {
                match merged.get_mut(&sig) {
                    Some(r) => {
                        r.0 += n;
                        if d.len() < r.1.len() {
                            r.1 = d;
                            r.2 = c;
                        }
                    },
                    None => {
                        merged.insert(sig, (n, d, c));
                    },
                }
            }
        }
        for (sig, (n, d, c)) in merged {
            for _ in 0..n.min(1000) {
                let (d2, c2) = (d.clone(), c.clone());
                vio(&sig, move || d2, move || c2);
            }
        }
    }
}

fn kind_detail(t: &Tree, p: &str) -> String {
    match t.get(p).map(|n| &n.kind) {
        Some(Kind::Dir) => "dir".into(),
        Some(Kind::File(_)) => "file".into(),
        Some(Kind::Link(tg)) => format!("link>{}", t.kind(tg)),
        None => "missing".into(),
    }
}

fn node_str(n: &Node) -> String {
    format!("{} mode={:o} owner={}:{}", n.kind_name(), n.mode, n.uid, n.gid)
}

/// Compare the observed post tree with the reference. Pure function of the abstract trees, used
/// for both backends.
fn judge(backend: &str, pre: &Tree, post: &Tree, path: &str, op: &Op, res: &CallResult) -> Option<Verdict> {
    let (recursive, follow, act, own) = op.norm();
    let fam = op.family();
    let fl = if follow { "+follow" } else { "" };
    let head = || format!("[{}] tree [{}]; call {} -> {}", backend, pre.render(), op.render(path), render_result(res));
    if let Err(p) = res {
        return Some(Verdict { sig: format!("{} {} panic", backend, fam), detail: format!("{}; panicked: {}", head(), p) });
    }
    let plan = plan_for(pre, path, recursive, follow);
    let sym_ok = match &act {
        Some(Act::Sym(s)) => parse_expr(s).is_some(),
        _ => true,
    };
    let failed = matches!(res, Ok(Err(_)));
    // strict: the call is fully specified and succeeded; otherwise only "nothing outside the
    // selected entries changed, and selected entries hold the old or the requested value"
    let strict = !plan.looped && sym_ok && !failed;

    // octal for one kind plus an expression whose first clause is malformed: when some selected entry needs the
    // expression (no octal value for its kind), the call reports an error and changes nothing - whatever it
    // could already have applied to entries of the other kind
    if let Some(Act::Mixed { dirs, files, sym }) = &act {
        if parse_expr(sym).is_none() && !plan.looped {
            let needs_expr = plan.targets.keys().any(|p| match pre.nodes.get(p) {
                Some(n) if n.is_dir() => *dirs == 0,
                Some(n) if n.is_file() => *files == 0,
                _ => false,
            });
            if needs_expr {
                if !failed {
                    return Some(Verdict { sig: format!("{} {} · malformed first clause not rejected", backend, fam), detail: head() });
                }
                if let Some((p, _)) = pre.nodes.iter().find(|(p, n)| post.nodes.get(*p) != Some(*n)) {
                    return Some(Verdict {
                        sig: format!("{} {} · malformed first clause rejected but state changed", backend, fam),
                        detail: format!("{}; {} was {:?} and is now {:?}", head(), p, pre.nodes[p], post.nodes.get(p)),
                    });
                }
                return None;
            }
            // no selected entry needs the expression: whether it is parsed at all is left open
            return None;
        }
    }

    if pre.nodes.keys().ne(post.nodes.keys()) {
        return Some(Verdict {
            sig: format!("{} {} · set of entries changed", backend, fam),
            detail: format!("{}; entries before {:?} after {:?}", head(), pre.nodes.keys().collect::<Vec<_>>(), post.nodes.keys().collect::<Vec<_>>()),
        });
    }
    let link_targets_unfollowed: BTreeSet<&str> = plan
        .link_self
        .iter()
        .filter_map(|l| match &pre.nodes[l].kind {
            Kind::Link(t) => Some(t.as_str()),
            _ => None,
        })
        .collect();
    for (p, before) in &pre.nodes {
        let after = &post.nodes[p];
        let mut accept: Vec<Node> = vec![];
        let role: String;
        if let Some(r) = plan.targets.get(p) {
            role = match r {
                Role::Own => "own".into(),
                Role::Descendant => "descendant".into(),
                Role::Followed => "followed".into(),
            };
            if let Some(a) = &act {
                for m in want_modes(a, before.is_dir(), before.mode) {
                    accept.push(Node { mode: m, ..before.clone() });
                }
            }
            if let Some((u, g)) = own {
                accept.push(Node { uid: u.unwrap_or(before.uid), gid: g.unwrap_or(before.gid), ..before.clone() });
            }
            if !strict {
                accept.push(before.clone());
            }
        } else if plan.link_self.contains(p) {
            role = "unfollowed-link".into();
            accept.push(before.clone());
            if let Some((u, g)) = own {
                accept.push(Node { uid: u.unwrap_or(before.uid), gid: g.unwrap_or(before.gid), ..before.clone() });
            }
        } else {
            role = if link_targets_unfollowed.contains(p.as_str()) {
                "target-of-unfollowed-link".to_string()
            } else {
                "outside".to_string()
            };
            accept.push(before.clone());
        }
        if accept.iter().any(|a| a == after) {
            continue;
        }
        let want = &accept[0];
        let what = if after == before {
            "not-changed"
        } else if want == before {
            "changed-though-not-selected"
        } else {
            "wrong-value"
        };
        let kd = kind_detail(pre, p);
        // coarse classes for the two defect shapes that show up under many roles
        let mut sig = match what {
            "wrong-value" => format!("{} {} · selected entry set to a wrong value", backend, fam),
            "not-changed" => format!("{} {}{} · selected entry not changed · {}", backend, fam, fl, role),
            _ => format!("{} {}{} · unselected entry changed · {}", backend, fam, fl, role),
        };
        if what == "not-changed" {
            if let Some(Act::Sym(s)) = &act {
                if let Some(cs) = parse_expr(s) {
                    let first_sel = cs[0].target == b'a' || (cs[0].target == b'd') == before.is_dir();
                    if cs.len() >= 2 && !first_sel {
                        sig = format!("{} chmod-sym · clauses after a kind-mismatching first clause ignored", backend);
                    }
                }
            }
            if role == "followed" && matches!(act, Some(Act::Sym(_)) | Some(Act::Readonly) | Some(Act::Secure)) && !sig.contains("kind-mismatching") {
                sig = format!("{} chmod symbolic/preset +follow · entry reached through a link not changed", backend);
            }
        }
        if let Some(Act::All(0)) | Some(Act::Dirs(0)) | Some(Act::Files(0)) = &act {
            if what == "not-changed" {
                sig = format!("{} chmod-octal · mode 0 ignored (entry keeps its old permissions)", backend);
            }
        }
        return Some(Verdict {
            sig,
            detail: format!(
                "{}; entry {} ({}, role {}): before [{}], expected [{}], observed [{}]; tree after [{}]",
                head(),
                p,
                kd,
                role,
                node_str(before),
                node_str(want),
                node_str(after),
                post.render()
            ),
        });
    }
    if failed && !plan.looped && sym_ok {
        return Some(Verdict {
            sig: format!("{} {}{} · well-formed call on an existing path returned Err", backend, fam, fl),
            detail: head(),
        });
    }
    None
}

/// expected successor for counting "non-trivial" transitions (reference changes something)
fn ref_changes_something(pre: &Tree, path: &str, op: &Op) -> bool {
    let (recursive, follow, act, own) = op.norm();
    let plan = plan_for(pre, path, recursive, follow);
    plan.targets.keys().any(|p| {
        let n = &pre.nodes[p];
        match (&act, own) {
            (Some(a), _) => want_modes(a, n.is_dir(), n.mode)[0] != n.mode,
            (None, Some((u, g))) => u.map(|x| x != n.uid).unwrap_or(false) || g.map(|x| x != n.gid).unwrap_or(false),
            _ => false,
        }
    })
}

/// Memfs only: complete-dump comparison. Everything except the mode (chmod) / owner (chown) of the
/// selected entries must be byte-identical, and no entry may lose or change its file-type bits.
fn raw_diff(pre: &Dump, post: &Dump, pre_tree: &Tree, path: &str, op: &Op) -> Option<Verdict> {
    let (recursive, follow, act, _own) = op.norm();
    let fam = op.family();
    let plan = plan_for(pre_tree, path, recursive, follow);
    let head = || format!("[memfs] tree [{}]; call {}", pre_tree.render(), op.render(path));
    if pre.cwd != post.cwd || pre.root != post.root || pre.files != post.files || pre.poisoned != post.poisoned {
        return Some(Verdict { sig: format!("memfs {} · cwd/root/file data changed", fam), detail: head() });
    }
    if pre.entries.len() != post.entries.len() {
        return Some(Verdict { sig: format!("memfs {} · set of entries changed", fam), detail: head() });
    }
    for (a, b) in pre.entries.iter().zip(post.entries.iter()) {
        if a.mode & !0o7777 != b.mode & !0o7777 {
            return Some(Verdict {
                sig: format!("memfs {} · file-type bits changed", fam),
                detail: format!("{}; entry {} mode {:o} -> {:o}", head(), a.key, a.mode, b.mode),
            });
        }
        let mut a2 = a.clone();
        let touch = plan.targets.contains_key(&a.key) || plan.link_self.contains(&a.key);
        if touch {
            if act.is_some() {
                a2.mode = b.mode;
            } else {
                a2.uid = b.uid;
                a2.gid = b.gid;
            }
        }
        if &a2 != b {
            return Some(Verdict {
                sig: format!("memfs {} · entry record differs beyond the requested field", fam),
                detail: format!("{}; before {:?} after {:?}", head(), a, b),
            });
        }
    }
    None
}

// ---------------------------------------------------------------------------------------------
// is_exec / is_readonly agree with mode()
// ---------------------------------------------------------------------------------------------
fn check_queries<V: VirtualFileSystem>(backend: &str, fs: &V, t: &Tree, prefix: &str) -> Option<Verdict> {
    for p in t.nodes.keys() {
        let full = reroot(prefix, p);
        let kd = t.kind(p);
        let r = catch_unwind(AssertUnwindSafe(|| {
            let m = fs.mode(&full).map_err(|e| e.to_string());
            let (x, ro) = (fs.is_exec(&full), fs.is_readonly(&full));
            let e = fs.entry(&full).map(|e| (e.mode(), e.is_exec(), e.is_readonly())).map_err(|e| e.to_string());
            (m, x, ro, e)
        }));
        let (m, x, ro, e) = match r {
            Ok(v) => v,
            Err(pm) => {
                return Some(Verdict {
                    sig: format!("{} mode/is_exec/is_readonly panic", backend),
                    detail: format!("[{}] tree [{}] query on {} panicked: {}", backend, t.render(), p, panic_message(&pm)),
                })
            },
        };
        let m = match m {
            Ok(m) => m,
            Err(err) => {
                return Some(Verdict {
                    sig: format!("{} mode() fails on existing {}", backend, kd),
                    detail: format!("[{}] tree [{}]: mode({}) = Err({})", backend, t.render(), p, err),
                })
            },
        };
        if x != (m & 0o111 != 0) {
            return Some(Verdict {
                sig: format!("{} vfs.is_exec disagrees with vfs.mode · {}", backend, kd),
                detail: format!("[{}] tree [{}]: mode({}) = {:o} but is_exec = {}", backend, t.render(), p, m, x),
            });
        }
        if ro != (m & 0o222 == 0) {
            return Some(Verdict {
                sig: format!("{} vfs.is_readonly disagrees with vfs.mode · {}", backend, kd),
                detail: format!("[{}] tree [{}]: mode({}) = {:o} but is_readonly = {}", backend, t.render(), p, m, ro),
            });
        }
        match e {
            Ok((em, ex, ero)) => {
                if ex != (em & 0o111 != 0) || ero != (em & 0o222 == 0) {
                    return Some(Verdict {
                        sig: format!("{} entry.is_exec/is_readonly disagrees with entry.mode · {}", backend, kd),
                        detail: format!("[{}] tree [{}]: entry({}): mode {:o} is_exec {} is_readonly {}", backend, t.render(), p, em, ex, ero),
                    });
                }
            },
            Err(err) => {
                return Some(Verdict {
                    sig: format!("{} entry() fails on existing {}", backend, kd),
                    detail: format!("[{}] tree [{}]: entry({}) = Err({})", backend, t.render(), p, err),
                })
            },
        }
    }
    None
}

// ---------------------------------------------------------------------------------------------
// Part (i): one-entry fixtures on Memfs
// ---------------------------------------------------------------------------------------------
#[derive(Clone, Copy, Debug, PartialEq, Eq)]
pub enum Fx {
    File,
    Dir,
    /// link to a file, call on the link without follow
    Link,
    /// link to a file, call on the link with follow
    LinkFollowFile,
    /// link to a directory, call on the link with follow
    LinkFollowDir,
}

const FX_ALL: [Fx; 5] = [Fx::File, Fx::Dir, Fx::Link, Fx::LinkFollowFile, Fx::LinkFollowDir];

impl Fx {
    fn name(&self) -> &'static str {
        match self {
            Fx::File => "file",
            Fx::Dir => "dir",
            Fx::Link => "link>file",
            Fx::LinkFollowFile => "link>file+follow",
            Fx::LinkFollowDir => "link>dir+follow",
        }
    }
    fn from_name(s: &str) -> Option<Fx> {
        FX_ALL.iter().copied().find(|k| k.name() == s)
    }
    fn follow(&self) -> bool {
        matches!(self, Fx::LinkFollowFile | Fx::LinkFollowDir)
    }
    fn via_link(&self) -> bool {
        !matches!(self, Fx::File | Fx::Dir)
    }
    /// is the entry that holds the mode under test a directory
    fn subject_is_dir(&self) -> bool {
        matches!(self, Fx::Dir | Fx::LinkFollowDir)
    }
    fn subject_type(&self) -> u32 {
        if self.subject_is_dir() {
            TYPE_DIR
        } else {
            TYPE_FILE
        }
    }
    /// path holding the mode under test
    fn subject(&self) -> &'static str {
        if self.via_link() {
            "/t"
        } else {
            "/e"
        }
    }
}

/// fresh Memfs with the entry under test holding permission bits `m`; the call is made on "/e"
fn build_fixture(k: Fx, m: u32) -> Result<Memfs, String> {
    let fs = Memfs::new();
    let e = |x: RvError| x.to_string();
    let subj = k.subject();
    if k.subject_is_dir() {
        fs.mkdir_m(subj, m).map_err(e)?;
    } else {
        fs.mkfile_m(subj, m).map_err(e)?;
    }
    // creation with a mode is not C11's business: fall back to chmod itself, which is
    if m != 0 && fs.mode(subj).map_err(e)? != k.subject_type() | m {
        fs.chmod(subj, m).map_err(e)?;
    }
    if m == 0 && fs.mode(subj).map_err(e)? != k.subject_type() {
        // octal 0 cannot be requested on the pinned tree (reported separately): reach it symbolically
        fs.chmod_b(subj).map_err(e)?.no_recurse().sym("a:a-rwx").exec().map_err(e)?;
    }
    if k.via_link() {
        fs.symlink("/e", "/t").map_err(e)?;
    }
    let got = fs.mode(subj).map_err(e)?;
    if got != k.subject_type() | m {
        return Err(format!("fixture {}: wanted mode {:o} on {}, got {:o}", k.name(), k.subject_type() | m, subj, got));
    }
    if k.via_link() && fs.mode("/e").map_err(e)? != LINK_MODE {
        return Err(format!("fixture {}: link mode {:o}", k.name(), fs.mode("/e").unwrap_or(0)));
    }
    Ok(fs)
}

fn run_sym(fs: &Memfs, k: Fx, expr: &str, recurse: bool) -> CallResult {
    exec_op(fs, "/e", &Op::ChmodB { recurse, follow: k.follow(), act: Act::Sym(expr.to_string()) })
}


/// why would rivia have accepted this malformed first clause (coarse classes for signatures)
fn malformed_reason(k: Fx, expr: &str) -> &'static str {
    let first = expr.split(',').next().unwrap_or("");
    let c0 = first.as_bytes().first().copied().unwrap_or(0);
    if k.via_link() {
        "entry is a link"
    } else if first.bytes().take_while(|b| matches!(b, b'd' | b'f' | b'a')).any(|b| (b == b'd' && !k.subject_is_dir()) || (b == b'f' && k.subject_is_dir())) {
        "target letter does not match the entry kind"
    } else if c0 == b':' {
        "target letter missing"
    } else if {
        // collapse a run of target letters to one, then: is it a proper prefix of a well-formed clause?
        let run = first.bytes().take_while(|b| matches!(b, b'd' | b'f' | b'a')).count();
        let norm = if run >= 2 { format!("a{}", &first[run..]) } else { first.to_string() };
        ["r", "+r", "u+r", ":u+r", "a:u+r"].iter().any(|suffix| parse_clause(&format!("{}{}", norm, suffix)).is_some())
    } {
        "clause truncated"
    } else {
        "other"
    }
}

/// One evaluation of `chmod_b("/e").sym(expr)` on fixture (k, m). Handles every string: the full
/// oracle for well-formed expressions, "Err and nothing changed" for a malformed first clause,
/// "no panic" otherwise. `deep` additionally compares the complete dump.
fn check_sym_case(base: &Memfs, base_dump: Option<&Dump>, k: Fx, m: u32, expr: &str, recurse: bool, deep: bool, known: &dyn Fn(&str) -> bool) -> Option<Verdict> {
    let fs = base.verif_deep_clone();
    let res = run_sym(&fs, k, expr, recurse);
    let head = || {
        format!(
            "[memfs] {} with mode {:o}{}: chmod_b(\"/e\").{}{}.sym({:?}).exec() -> {}",
            k.name(),
            k.subject_type() | m,
            if k.via_link() { " behind link /e -> /t" } else { "" },
            if recurse { "recurse()" } else { "no_recurse()" },
            if k.follow() { ".follow()" } else { "" },
            expr,
            render_result(&res)
        )
    };
    if let Err(p) = &res {
        return Some(Verdict { sig: "memfs chmod-sym panic".into(), detail: format!("{}; panicked: {}", head(), p) });
    }
    let observed = catch_unwind(AssertUnwindSafe(|| (fs.mode("/e").ok(), if k.via_link() { fs.mode("/t").ok() } else { None })));
    let (e_mode, t_mode) = match observed {
        Ok(x) => x,
        Err(p) => return Some(Verdict { sig: "memfs mode() panic".into(), detail: format!("{}; mode() panicked: {}", head(), panic_message(&p)) }),
    };
    let subj_mode = if k.via_link() { t_mode } else { e_mode };
    let old_full = k.subject_type() | m;
    let unchanged = |fs: &Memfs| base_dump.map(|d| &fs.verif_dump() == d);

    if let Some(cs) = parse_expr(expr) {
        // fully well-formed
        let want_perm = if k == Fx::Link { m } else { apply_expr(m, k.subject_is_dir(), &cs) };
        let want_full = k.subject_type() | want_perm;
        if matches!(res, Ok(Err(_))) {
            return Some(Verdict { sig: format!("memfs chmod-sym · well-formed expression rejected · {}", k.name()), detail: head() });
        }
        if k.via_link() && e_mode != Some(LINK_MODE) {
            return Some(Verdict {
                sig: "memfs chmod-sym · the link itself altered".into(),
                detail: format!("{}; mode(/e) = {:o}, expected {:o}", head(), e_mode.unwrap_or(0), LINK_MODE),
            });
        }
        if subj_mode != Some(want_full) {
            let got = subj_mode.unwrap_or(0);
            let first_sel = cs[0].target == b'a' || (cs[0].target == b'd') == k.subject_is_dir();
            let sig = if k == Fx::Link {
                "memfs chmod-sym · link target altered without follow".to_string()
            } else if got == old_full && cs.len() >= 2 && !first_sel {
                "memfs chmod-sym · clauses after a kind-mismatching first clause ignored".to_string()
            } else if got == old_full && k.follow() {
                "memfs chmod symbolic/preset +follow · entry reached through a link not changed".to_string()
            } else if got & !0o777 != want_full & !0o777 {
                format!("memfs chmod-sym · file-type bits changed · {}", k.name())
            } else {
                "memfs chmod-sym · selected entry set to a wrong value".to_string()
            };
            if known(&sig) {
                return None; // already witnessed by this worker slot: counted there, no new detail needed
            }
            return Some(Verdict {
                sig,
                detail: format!("{}; mode({}) = {:o}, reference grammar gives {:o}", head(), k.subject(), got, want_full),
            });
        }
        if deep {
            // everything but the subject's mode must be identical to the base dump
            if let Some(d) = base_dump {
                let mut after = fs.verif_dump();
                for e in after.entries.iter_mut() {
                    if e.key == k.subject() {
                        e.mode = old_full;
                    }
                }
                if &after != d {
                    return Some(Verdict {
                        sig: "memfs chmod-sym · entry record differs beyond the requested field".into(),
                        detail: format!("{}; dump before {:?} after {:?}", head(), d.entries, fs.verif_dump().entries),
                    });
                }
            }
        }
        return None;
    }
    if classify_first(expr) == FirstClause::Malformed {
        let reason = malformed_reason(k, expr);
        if matches!(res, Ok(Ok(()))) {
            let ch = if unchanged(&fs) == Some(false) { " and state changed" } else { "" };
            return Some(Verdict {
                sig: format!("memfs chmod-sym · malformed first clause not rejected{} · {}", ch, reason),
                detail: format!("{}; the first clause does not match [dfa]:[ugoa]+[-+=][rwx]+ so Err was required", head()),
            });
        }
        if unchanged(&fs) == Some(false) {
            return Some(Verdict {
                sig: "memfs chmod-sym · malformed first clause rejected but state changed".into(),
                detail: format!("{}; dump after {:?}", head(), fs.verif_dump().entries),
            });
        }
    }
    None
}

const QUICK_MODES: [u32; 32] = [
    0o000, 0o777, 0o400, 0o200, 0o100, 0o040, 0o020, 0o010, 0o004, 0o002, 0o001, 0o377, 0o577, 0o677, 0o737, 0o757, 0o767, 0o773, 0o775,
    0o776, 0o644, 0o755, 0o600, 0o700, 0o444, 0o555, 0o222, 0o111, 0o070, 0o007, 0o750, 0o123,
];

struct Counters {
    evals: AtomicU64,
    nontrivial: AtomicU64,
    malformed_inputs: AtomicU64,
    malformed_must_err: AtomicU64,
    transitions: AtomicU64,
    setup_failed: AtomicU64,
    lenient: AtomicU64,
    stale_trees: AtomicU64,
}

/// readonly()/secure() on a one-entry fixture
fn check_preset_case(base: &Memfs, k: Fx, m: u32, act: &Act, recurse: bool) -> Option<Verdict> {
    let fs = base.verif_deep_clone();
    let op = Op::ChmodB { recurse, follow: k.follow(), act: act.clone() };
    let res = exec_op(&fs, "/e", &op);
    let head = || format!("[memfs] {} with mode {:o}: {} -> {}", k.name(), k.subject_type() | m, op.render("/e"), render_result(&res));
    match &res {
        Err(p) => return Some(Verdict { sig: format!("memfs {} panic", op.family()), detail: format!("{}; panicked: {}", head(), p) }),
        Ok(Err(_)) => return Some(Verdict { sig: format!("memfs {} · call on an existing path returned Err", op.family()), detail: head() }),
        _ => {},
    }
    let old = k.subject_type() | m;
    let want = if k == Fx::Link { vec![old] } else { want_modes(act, k.subject_is_dir(), old) };
    let got = fs.mode(k.subject()).unwrap_or(0);
    if k.via_link() && fs.mode("/e").ok() != Some(LINK_MODE) {
        return Some(Verdict { sig: format!("memfs {} · the link itself altered", op.family()), detail: head() });
    }
    if !want.contains(&got) {
        let sig = if got == old && k.follow() {
            "memfs chmod symbolic/preset +follow · entry reached through a link not changed".to_string()
        } else if k == Fx::Link {
            format!("memfs {} · link target altered without follow", op.family())
        } else {
            format!("memfs {} · selected entry set to a wrong value", op.family())
        };
        return Some(Verdict { sig, detail: format!("{}; mode({}) = {:o}, documented result {:o}", head(), k.subject(), got, want[0]) });
    }
    None
}

fn sym_case_json(k: Fx, m: u32, expr: &str, recurse: bool) -> J {
    J::obj([("part", J::s("sym")), ("kind", J::s(k.name())), ("mode", J::i(m)), ("expr", J::s(expr)), ("recurse", J::Bool(recurse))])
}

fn fixture_or_vio(k: Fx, m: u32, c: &Counters) -> Option<Memfs> {
    match catch_unwind(AssertUnwindSafe(|| build_fixture(k, m))) {
        Ok(Ok(fs)) => Some(fs),
        Ok(Err(e)) => {
            c.setup_failed.fetch_add(1, Ordering::Relaxed);
            vio(
                "memfs chmod-octal · mkfile_m/mkdir_m/chmod cannot establish the requested mode on a fresh entry",
                || format!("fixture {} mode {:o}: {}", k.name(), m, e),
                || J::obj([("part", J::s("fixture")), ("kind", J::s(k.name())), ("mode", J::i(m))]),
            );
            None
        },
        Err(p) => {
            c.setup_failed.fetch_add(1, Ordering::Relaxed);
            vio("memfs fixture setup panic", || format!("fixture {} mode {:o}: {}", k.name(), m, panic_message(&p)), || {
                J::obj([("part", J::s("fixture")), ("kind", J::s(k.name())), ("mode", J::i(m))])
            });
            None
        },
    }
}

fn grammar_sweep(ctx: &Ctx, c: &Counters, agg: &Agg, modes: &[u32], both_flags_for_pairs: bool) {
    let clauses = all_clauses();
    let parsed: Vec<Clause> = clauses.iter().map(|s| parse_clause(s).unwrap()).collect();
    let nc = clauses.len() as u64;
    let units = modes.len() as u64 * FX_ALL.len() as u64 * nc;
    par_for(ctx.threads, units, 8, |slot, u| {
        let i1 = (u % nc) as usize;
        let k = FX_ALL[((u / nc) % FX_ALL.len() as u64) as usize];
        let m = modes[(u / nc / FX_ALL.len() as u64) as usize];
        let base = match fixture_or_vio(k, m, c) {
            Some(b) => b,
            None => return,
        };
        let base_dump = base.verif_dump();
        let mut n = 0u64;
        let mut nt = 0u64;
        let mut one = |expr: &str, cs: &[Clause], recurse: bool, serial: u64| {
            n += 1;
            if k != Fx::Link && apply_expr(m, k.subject_is_dir(), cs) != m {
                nt += 1;
            }
            let deep = serial % 61 == 0;
            if let Some(v) = check_sym_case(&base, Some(&base_dump), k, m, expr, recurse, deep, &|sig| agg.bump_if_known(slot, sig)) {
                agg.add(slot, v, || sym_case_json(k, m, expr, recurse));
            }
        };
        if i1 == 0 {
            for act in [Act::Readonly, Act::Secure] {
                for recurse in [true, false] {
                    if let Some(v) = check_preset_case(&base, k, m, &act, recurse) {
                        let a2 = act.clone();
                        agg.add(slot, v, move || {
                            let mut j = Op::ChmodB { recurse, follow: k.follow(), act: a2 }.to_json();
                            j.set("part", J::s("preset"));
                            j.set("kind", J::s(k.name()));
                            j.set("base_mode", J::i(m));
                            j
                        });
                    }
                }
            }
        }
        // single clause, both recursion settings
        one(&clauses[i1], &parsed[i1..i1 + 1], true, 0);
        one(&clauses[i1], &parsed[i1..i1 + 1], false, 1);
        // ordered pairs (c1, c2)
        let mut expr = String::with_capacity(16);
        for i2 in 0..clauses.len() {
            expr.clear();
            expr.push_str(&clauses[i1]);
            expr.push(',');
            expr.push_str(&clauses[i2]);
            let cs = [parsed[i1], parsed[i2]];
            let serial = u * nc + i2 as u64;
            if both_flags_for_pairs && k.subject_is_dir() {
                one(&expr, &cs, true, serial);
                one(&expr, &cs, false, serial + 7);
            } else {
                one(&expr, &cs, (i1 + i2) % 2 == 0, serial);
            }
        }
        c.evals.fetch_add(n, Ordering::Relaxed);
        c.nontrivial.fetch_add(nt, Ordering::Relaxed);
    });
}

const MALFORMED_ALPHA: [&str; 14] = ["d", "f", "a", ":", "u", "g", "o", "+", "-", "=", "r", "w", "x", ","];

fn malformed_sweep(ctx: &Ctx, c: &Counters, agg: &Agg, max_len: u32) {
    let n = count_upto(MALFORMED_ALPHA.len() as u64, max_len);
    let kinds = [Fx::File, Fx::Dir, Fx::Link];
    let bases: Vec<(Fx, u32, Memfs, Dump)> = kinds
        .iter()
        .filter_map(|&k| {
            let m = if k == Fx::Dir { 0o755 } else { 0o644 };
            fixture_or_vio(k, m, c).map(|fs| {
                let d = fs.verif_dump();
                (k, m, fs, d)
            })
        })
        .collect();
    // Memfs holds an Arc<RwLock>; clone per thread through the hook so threads do not contend
    par_for(ctx.threads, n, 2048, |slot, i| {
        let mut s = String::new();
        nth_string(&MALFORMED_ALPHA, i, &mut s);
        let class = classify_first(&s);
        c.malformed_inputs.fetch_add(1, Ordering::Relaxed);
        if class == FirstClause::Malformed {
            c.malformed_must_err.fetch_add(1, Ordering::Relaxed);
        }
        for (k, m, fs, d) in &bases {
            let recurse = i % 2 == 0;
            c.evals.fetch_add(1, Ordering::Relaxed);
            if let Some(v) = check_sym_case(fs, Some(d), *k, *m, &s, recurse, true, &|_| false) {
                agg.add(slot, v, || sym_case_json(*k, *m, &s, recurse));
            }
        }
    });
}

// ---------------------------------------------------------------------------------------------
// Part (ii): trees
// ---------------------------------------------------------------------------------------------
const SYMS: [&str; 5] = ["a:o+w", "f:ug-r", "d:g=w", "f:a+x,d:o-x", "d:u-w,f:g+w"];
const OCT: [u32; 3] = [0o750, 0o604, 0o4711];

// ---------------------------------------------------------------------------------------------
// Deep chain: recursion must reach every level, not only the few the enumerated trees have. One
// chain of DEEP nested directories with a file at the bottom (deeper than any constant in rivia: the
// descriptor cap is 50), recursive chmod (octal, symbolic) and chown on its top; every level is read back.
// ---------------------------------------------------------------------------------------------
const DEEP: usize = 300;

fn deep_chain<V: VirtualFileSystem>(backend: &str, fs: &V, top: &str, with_chown: bool) -> Vec<(Verdict, J)> {
    let mut out = vec![];
    let mut dirs: Vec<String> = vec![top.to_string()];
    for _ in 0..DEEP {
        dirs.push(format!("{}/a", dirs.last().unwrap()));
    }
    let file = format!("{}/f", dirs.last().unwrap());
    let setup = catch_unwind(AssertUnwindSafe(|| -> RvResult<()> {
        fs.mkdir_m(dirs.last().unwrap(), 0o755)?;
        fs.mkfile_m(&file, 0o644)?;
        Ok(())
    }));
    if !matches!(setup, Ok(Ok(()))) {
        out.push((Verdict { sig: format!("{} deep chain · cannot be built", backend), detail: format!("mkdir_m/mkfile_m of a chain of {} directories failed: {:?}", DEEP, setup.map(|r| r.map_err(|e| e.to_string()))) }, J::obj([("part", J::s("deep-chain"))])));
        return out;
    }
    let mut ops: Vec<(Op, Box<dyn Fn(bool, u32) -> u32>)> = vec![
        (Op::Chmod(0o750), Box::new(|_d, _old| 0o750)),
        (Op::ChmodB { recurse: true, follow: false, act: Act::Dirs(0o711) }, Box::new(|d, old| if d { 0o711 } else { old })),
        (Op::ChmodB { recurse: true, follow: false, act: Act::Sym("a:o-rx,f:u+x".into()) }, Box::new(|d, old| if d { old & !0o005 } else { (old & !0o005) | 0o100 })),
    ];
    if with_chown {
        ops.push((Op::Chown(5, 7), Box::new(|_d, old| old)));
    }
    let mut cur_mode_dir = 0o755u32;
    let mut cur_mode_file = 0o644u32;
    for (op, want) in ops {
        let res = exec_op(fs, top, &op);
        let case = J::obj([("part", J::s("deep-chain")), ("depth", J::i(DEEP as i64)), ("call", op.to_json())]);
        if !matches!(res, Ok(Ok(()))) {
            out.push((Verdict { sig: format!("{} {} · deep chain · call failed", backend, op.family()), detail: format!("{} on a chain of {} directories: {}", op.render(top), DEEP, render_result(&res)) }, case));
            continue;
        }
        let (wd, wf) = (want(true, cur_mode_dir), want(false, cur_mode_file));
        let mut first_bad: Option<String> = None;
        for (level, p) in dirs.iter().enumerate().chain(std::iter::once((DEEP + 1, &file))) {
            let is_dir = p != &file;
            let m = fs.mode(p).map(|x| x & 0o7777).unwrap_or(u32::MAX);
            let o = fs.owner(p).unwrap_or((u32::MAX, u32::MAX));
            let mode_ok = m == if is_dir { wd } else { wf };
            let own_ok = !matches!(op, Op::Chown(..)) || o == (5, 7);
            if !mode_ok || !own_ok {
                first_bad = Some(format!("level {} ({}): mode {:o} owner {}:{}, expected mode {:o}{}", level, if is_dir { "dir" } else { "file" }, m, o.0, o.1, if is_dir { wd } else { wf }, if matches!(op, Op::Chown(..)) { " owner 5:7" } else { "" }));
                break;
            }
        }
        if let Some(b) = first_bad {
            out.push((Verdict { sig: format!("{} {} · deep chain · a level below the top was not reached", backend, op.family()), detail: format!("{} on a chain of {} directories with a file at the bottom: {}", op.render(top), DEEP, b) }, case));
        }
        cur_mode_dir = wd;
        cur_mode_file = wf;
    }
    out
}

fn chmod_ops() -> Vec<Op> {
    let mut v = vec![Op::Chmod(0o750), Op::Chmod(0o604), Op::Chmod(0o444)];
    for recurse in [true, false] {
        for follow in [false, true] {
            for m in OCT {
                v.push(Op::ChmodB { recurse, follow, act: Act::All(m) });
                v.push(Op::ChmodB { recurse, follow, act: Act::Dirs(m) });
                v.push(Op::ChmodB { recurse, follow, act: Act::Files(m) });
            }
            for s in SYMS {
                v.push(Op::ChmodB { recurse, follow, act: Act::Sym(s.to_string()) });
            }
            v.push(Op::ChmodB { recurse, follow, act: Act::Readonly });
            v.push(Op::ChmodB { recurse, follow, act: Act::Secure });
        }
        // octal for one kind, expression for the other; octal for both kinds beats the expression
        v.push(Op::ChmodB { recurse, follow: false, act: Act::Mixed { dirs: 0o700, files: 0, sym: "f:a-w".into() } });
        v.push(Op::ChmodB { recurse, follow: false, act: Act::Mixed { dirs: 0, files: 0o600, sym: "d:go+w".into() } });
        v.push(Op::ChmodB { recurse, follow: false, act: Act::Mixed { dirs: 0o711, files: 0o640, sym: "a:a=rwx".into() } });
        // ... and with a malformed first clause: an error, and nothing changed, wherever the expression is needed
        v.push(Op::ChmodB { recurse, follow: false, act: Act::Mixed { dirs: 0, files: 0o600, sym: ":u+x".into() } });
        v.push(Op::ChmodB { recurse, follow: false, act: Act::Mixed { dirs: 0o700, files: 0, sym: "f:u+q".into() } });
    }
    v
}

fn chown_ops() -> Vec<Op> {
    let mut v = vec![Op::Chown(5, 7)];
    for order in 0..4u8 {
        v.push(Op::ChownChain { recurse: order % 2 == 0, follow: false, order, uid: 5, gid: 7 });
    }
    for recurse in [true, false] {
        for follow in [false, true] {
            for (uid, gid) in [(Some(5), None), (None, Some(7)), (Some(5), Some(7))] {
                v.push(Op::ChownB { recurse, follow, uid, gid });
            }
        }
    }
    v
}

fn tree_space(max_entries: usize) -> TreeSpace {
    TreeSpace {
        names: vec!["a", "ab"],
        max_depth: 2,
        max_entries,
        contents: vec![b"x".to_vec()],
        links: LinkDomain::Resolving,
        extra_targets: vec![],
        target_depth: 2,
    }
}

const ALT_MODES: [u32; 5] = [0o644, 0o600, 0o755, 0o700, 0o444];

/// the tree itself plus every "one entry holds a non-default mode" variant
fn mode_variants(t: &Tree, dir_modes: &[u32]) -> Vec<Tree> {
    let mut out = vec![t.clone()];
    for (p, n) in &t.nodes {
        let alts: &[u32] = match n.kind {
            Kind::Link(_) => continue,
            Kind::Dir => dir_modes,
            Kind::File(_) => &ALT_MODES,
        };
        for &m in alts {
            if m != n.mode {
                let mut t2 = t.clone();
                t2.nodes.get_mut(p).unwrap().mode = m;
                out.push(t2);
            }
        }
    }
    out
}

fn tree_to_json(t: &Tree) -> J {
    J::arr(t.nodes.iter().map(|(p, n)| {
        let (k, v) = match &n.kind {
            Kind::Dir => ("dir", String::new()),
            Kind::File(d) => ("file", String::from_utf8_lossy(d).into_owned()),
            Kind::Link(t) => ("link", t.clone()),
        };
        J::obj([("path", J::s(p)), ("kind", J::s(k)), ("val", J::s(v)), ("mode", J::i(n.mode)), ("uid", J::i(n.uid)), ("gid", J::i(n.gid))])
    }))
}

fn tree_from_json(j: &J) -> Option<Tree> {
    let mut t = Tree::new();
    for e in j.as_arr()? {
        let val = e.get("val")?.as_str()?.to_string();
        let kind = match e.get("kind")?.as_str()? {
            "dir" => Kind::Dir,
            "file" => Kind::File(val.into_bytes()),
            "link" => Kind::Link(val),
            _ => return None,
        };
        t.insert(
            e.get("path")?.as_str()?,
            Node { kind, mode: e.get("mode")?.as_i64()? as u32, uid: e.get("uid")?.as_i64()? as u32, gid: e.get("gid")?.as_i64()? as u32, lk: 0 },
        );
    }
    Some(t)
}

fn tree_case_json(part: &str, t: &Tree, path: &str, op: &Op) -> J {
    J::obj([("part", J::s(part)), ("tree", tree_to_json(t)), ("path", J::s(path)), ("call", op.to_json())])
}

fn tree_hash(t: &Tree) -> u64 {
    let mut h = std::collections::hash_map::DefaultHasher::new();
    t.hash(&mut h);
    h.finish()
}

struct StateSet {
    shards: Vec<Mutex<HashSet<u64>>>,
}

impl StateSet {
    fn new() -> StateSet {
        StateSet { shards: (0..64).map(|_| Mutex::new(HashSet::new())).collect() }
    }
    /// true when newly inserted
    fn insert(&self, h: u64) -> bool {
        self.shards[(h % 64) as usize].lock().unwrap_or_else(|e| e.into_inner()).insert(h)
    }
    fn len(&self) -> u64 {
        self.shards.iter().map(|s| s.lock().unwrap_or_else(|e| e.into_inner()).len() as u64).sum()
    }
}

/// One transition on Memfs from a live pre-state; returns the successor when the call succeeded
/// with a fully specified (order independent) result.
fn memfs_transition(pre_fs: &Memfs, pre_dump: &Dump, pre: &Tree, path: &str, op: &Op, c: &Counters) -> (Option<Verdict>, Option<(Memfs, Tree)>) {
    let fs = pre_fs.verif_deep_clone();
    let res = exec_op(&fs, path, op);
    c.transitions.fetch_add(1, Ordering::Relaxed);
    let post_dump = fs.verif_dump();
    let post = match abstract_dump(&post_dump) {
        Ok(t) => t,
        Err(e) => {
            return (
                Some(Verdict {
                    sig: format!("memfs {} · state after the call is not a tree", op.family()),
                    detail: format!("[memfs] tree [{}]; call {} -> {}; {}", pre.render(), op.render(path), render_result(&res), e),
                }),
                None,
            )
        },
    };
    if let Some(v) = judge("memfs", pre, &post, path, op, &res) {
        return (Some(v), None);
    }
    if let Some(v) = raw_diff(pre_dump, &post_dump, pre, path, op) {
        return (Some(v), None);
    }
    let (recursive, follow, _, _) = op.norm();
    let specified = matches!(res, Ok(Ok(()))) && !plan_for(pre, path, recursive, follow).looped;
    if !specified {
        c.lenient.fetch_add(1, Ordering::Relaxed);
        return (None, None);
    }
    (None, Some((fs, post)))
}

thread_local! {
    /// build the initial Memfs so that every link records the *other* kind than its target has now
    static STALE: std::cell::Cell<bool> = const { std::cell::Cell::new(false) };
}

/// The same tree, reached through a history after which the kind a link recorded at its creation is stale:
/// every link target that is a regular file or an empty directory had the other kind while the links were
/// made and was re-created as what the tree says afterwards. None when the tree has no such target.
fn materialize_memfs_stale(tree: &Tree) -> Result<Option<Memfs>, String> {
    let mut targets: Vec<String> = vec![];
    for n in tree.nodes.values() {
        if let Kind::Link(t) = &n.kind {
            if let Some(tn) = tree.nodes.get(t) {
                let flippable = tn.is_file() || (tn.is_dir() && tree.children(t).is_empty());
                if flippable && !targets.contains(t) {
                    targets.push(t.clone());
                }
            }
        }
    }
    if targets.is_empty() {
        return Ok(None);
    }
    let mut flipped = tree.clone();
    for t in &targets {
        let n = if tree.nodes[t].is_file() { Node::dir() } else { Node::file(b"") };
        flipped.insert(t, n);
    }
    let fs = materialize_memfs(&flipped, "/")?;
    let e = |x: RvError| x.to_string();
    for t in &targets {
        let n = &tree.nodes[t];
        fs.remove(t).map_err(e)?;
        match &n.kind {
            Kind::File(d) => {
                fs.write_all(t, d).map_err(e)?;
                fs.chmod_b(t).map_err(e)?.no_recurse().all(n.mode).exec().map_err(e)?;
            },
            _ => {
                fs.mkdir_m(t, n.mode).map_err(e)?;
            },
        }
    }
    Ok(Some(fs))
}

/// Breadth-first exploration from one initial configuration, `depth` levels, every (entry, op) at
/// every configuration. New configurations (globally) get the is_exec/is_readonly check.
fn explore_memfs(slot: usize, agg: &Agg, init: &Tree, ops: &[Op], depth: u32, states: &StateSet, c: &Counters) {
    let stale = STALE.with(|x| x.get());
    let part = if stale { "memfs-tree-stale" } else { "memfs-tree" };
    let fs0 = match catch_unwind(AssertUnwindSafe(|| if stale { materialize_memfs_stale(init).map(|x| x.expect("stale variant exists")) } else { materialize_memfs(init, "/") })) {
        Ok(Ok(fs)) => fs,
        Ok(Err(e)) => {
            c.setup_failed.fetch_add(1, Ordering::Relaxed);
            let t2 = init.clone();
            vio(
                "memfs setup · tree cannot be materialised through mkdir_m/write_all/chmod_b/symlink",
                || format!("tree [{}]: {}", init.render(), e),
                move || J::obj([("part", J::s("setup")), ("tree", tree_to_json(&t2))]),
            );
            return;
        },
        Err(p) => {
            c.setup_failed.fetch_add(1, Ordering::Relaxed);
            let t2 = init.clone();
            vio("memfs setup panic", || format!("tree [{}]: {}", init.render(), panic_message(&p)), move || {
                J::obj([("part", J::s("setup")), ("tree", tree_to_json(&t2))])
            });
            return;
        },
    };
    let query = |fs: &Memfs, t: &Tree| {
        if let Some(v) = check_queries("memfs", fs, t, "/") {
            agg.add(slot, v, || J::obj([("part", J::s("memfs-query")), ("tree", tree_to_json(t))]));
        }
    };
    if states.insert(tree_hash(init)) {
        query(&fs0, init);
    }
    let mut local: HashSet<u64> = HashSet::new();
    local.insert(tree_hash(init));
    let mut level: Vec<(Memfs, Tree)> = vec![(fs0, init.clone())];
    for d in 0..depth {
        let mut next: Vec<(Memfs, Tree)> = vec![];
        for (fs, t) in &level {
            let dump = fs.verif_dump();
            for path in t.nodes.keys() {
                for op in ops {
                    if ref_changes_something(t, path, op) {
                        c.nontrivial.fetch_add(1, Ordering::Relaxed);
                    }
                    let (v, succ) = memfs_transition(fs, &dump, t, path, op, c);
                    if let Some(v) = v {
                        agg.add(slot, v, || tree_case_json(part, t, path, op));
                    }
                    if let Some((sfs, st)) = succ {
                        let h = tree_hash(&st);
                        if states.insert(h) {
                            query(&sfs, &st);
                        }
                        if d + 1 < depth && local.insert(h) {
                            next.push((sfs, st));
                        }
                    }
                }
            }
        }
        level = next;
        if level.is_empty() {
            break;
        }
    }
}

/// octal values and presets on the one-entry fixtures expressed as trees (all 512 values)
fn octal_and_presets(ctx: &Ctx, c: &Counters, agg: &Agg, states: &StateSet) {
    let mk = |dir: bool, link: bool, m: u32| {
        let mut t = Tree::new();
        let n = if dir { Node::dir() } else { Node::file(b"x") };
        if link {
            t.insert("/t", n.with_mode(m));
            t.insert("/e", Node::link("/t"));
        } else {
            t.insert("/e", n.with_mode(m));
        }
        t
    };
    // (a) every octal value requested on default-mode entries
    let bases: Vec<Tree> = vec![mk(false, false, 0o644), mk(true, false, 0o755), mk(false, true, 0o644), mk(true, true, 0o755)];
    par_for(ctx.threads, 512, 4, |slot, m| {
        let m = m as u32;
        let mut ops = vec![Op::Chmod(m)];
        for recurse in [true, false] {
            for follow in [false, true] {
                ops.push(Op::ChmodB { recurse, follow, act: Act::All(m) });
                ops.push(Op::ChmodB { recurse, follow, act: Act::Dirs(m) });
                ops.push(Op::ChmodB { recurse, follow, act: Act::Files(m) });
            }
        }
        for t in &bases {
            explore_memfs(slot, agg, t, &ops, 1, states, c);
        }
    });
    // (b) presets from every initial value (file mode 0 cannot be set up through the tree
    // materialiser on the pinned tree; it is covered by the fixture sweep instead)
    let mut presets = vec![];
    for recurse in [true, false] {
        for follow in [false, true] {
            presets.push(Op::ChmodB { recurse, follow, act: Act::Readonly });
            presets.push(Op::ChmodB { recurse, follow, act: Act::Secure });
        }
    }
    par_for(ctx.threads, 512, 4, |slot, m| {
        let m = m as u32;
        for (dir, link) in [(false, false), (true, false), (false, true), (true, true)] {
            if m == 0 {
                continue; // initial mode 0 cannot be set up through the tree materialiser; covered by the fixture sweep
            }
            explore_memfs(slot, agg, &mk(dir, link, m), &presets, 1, states, c);
        }
    });
}

fn memfs_trees(ctx: &Ctx, c: &Counters, agg: &Agg, states: &StateSet) -> (usize, usize, usize) {
    let trees = enum_trees(&tree_space(ctx.tier.pick(4, 6)));
    let chm = chmod_ops();
    let mut all = chm.clone();
    all.extend(chown_ops());
    let dir_modes = ALT_MODES;
    let n_init = AtomicU64::new(0);
    par_each(ctx.threads, &trees, |slot, _i, t| {
        if t.nodes.is_empty() {
            return;
        }
        for (vi, tv) in mode_variants(t, &dir_modes).iter().enumerate() {
            n_init.fetch_add(1, Ordering::Relaxed);
            // owner changes do not depend on modes: run them on the default-mode variant only
            explore_memfs(slot, agg, tv, if vi == 0 { &all } else { &chm }, 1, states, c);
        }
    });
    // the same trees reached through a history that leaves the kind recorded in each link stale (only the
    // calls that follow links can tell): chmod calls, default modes
    let n_stale = AtomicU64::new(0);
    par_each(ctx.threads, &trees, |slot, _i, t| {
        if matches!(materialize_memfs_stale(t), Ok(Some(_))) {
            n_stale.fetch_add(1, Ordering::Relaxed);
            STALE.with(|x| x.set(true));
            explore_memfs(slot, agg, t, &chm, 1, &StateSet::new(), c);
            STALE.with(|x| x.set(false));
        }
    });
    c.stale_trees.store(n_stale.load(Ordering::Relaxed), Ordering::Relaxed);
    // depth-bounded closure: configurations reached by one call are expanded again
    let small_n = ctx.tier.pick(2, 4);
    let small: Vec<&Tree> = trees.iter().filter(|t| !t.nodes.is_empty() && t.nodes.len() <= small_n).collect();
    par_each(ctx.threads, &small, |slot, _i, t| {
        explore_memfs(slot, agg, t, &all, 2, states, c);
    });
    (trees.len(), n_init.load(Ordering::Relaxed) as usize, small.len())
}

// ---------------------------------------------------------------------------------------------
// Stdfs half (single-threaded root worker processes, private sandbox)
// ---------------------------------------------------------------------------------------------
const STD_DIR_MODES: [u32; 2] = [0o755, 0o700];

/// model tree with the owners the sandbox really has (root creates everything as 0:0)
fn with_owner(t: &Tree, uid: u32, gid: u32) -> Tree {
    let mut t2 = t.clone();
    for n in t2.nodes.values_mut() {
        n.uid = uid;
        n.gid = gid;
    }
    t2
}

/// (re)create `t` in the sandbox and return the observed pre-state; Err = machinery problem
fn stdfs_setup(sb: &Sandbox, t: &Tree) -> Result<Tree, String> {
    sb.reset();
    materialize_disk(t, &sb.root).map_err(|e| format!("materialize_disk: {}", e))?;
    let pre = observe_disk(&sb.root).map_err(|e| format!("observe_disk: {}", e))?;
    let (uid, gid) = pre.nodes.values().next().map(|n| (n.uid, n.gid)).unwrap_or((0, 0));
    if !pre.eq_modulo_lk(&with_owner(t, uid, gid)) {
        return Err(format!("sandbox holds [{}] instead of [{}]", pre.render(), t.render()));
    }
    Ok(pre)
}

/// one Stdfs transition; `pre` is the observed state currently in the sandbox
fn stdfs_transition(sb: &Sandbox, pre: &Tree, path: &str, op: &Op) -> (Option<Verdict>, Option<Tree>) {
    let fs = Stdfs::new();
    let full = reroot(&sb.root, path);
    let res = exec_op(&fs, &full, op);
    let post = match observe_disk(&sb.root) {
        Ok(t) => t,
        Err(e) => {
            return (
                Some(Verdict {
                    sig: format!("stdfs {} · sandbox unreadable after the call", op.family()),
                    detail: format!("[stdfs] tree [{}]; call {} -> {}; observe: {}", pre.render(), op.render(path), render_result(&res), e),
                }),
                None,
            )
        },
    };
    (judge("stdfs", pre, &post, path, op, &res), Some(post))
}

pub fn stdfs_worker(w: &mut WorkerCtx) {
    unsafe {
        libc::umask(0o022);
        libc::alarm(w.tier.pick(300, 1500));
    }
    if unsafe { libc::geteuid() } != 0 {
        w.count("stdfs_skipped_not_root", 1);
        return;
    }
    let _wd = start_call_watchdog(std::time::Duration::from_secs(20), move |call| {
        let line = J::obj([("sig", J::s("stdfs chmod/chown · hang")), ("n", J::i(1)), ("detail", J::s(format!("{} did not return within 20 s", call))), ("case", J::obj([("part", J::s("hang")), ("call", J::s(call.clone()))]))]);
        println!("V\t{}", line.to_string());
        println!("DONE");
        std::process::exit(0);
    });
    let sb = Sandbox::new(&format!("c11.{}", w.shard));
    let trees = enum_trees(&tree_space(w.tier.pick(3, 4)));
    if w.shard == 0 {
        sb.reset();
        let top = format!("{}/e", sb.root);
        for (v, case) in deep_chain("stdfs", &Stdfs::new(), &top, true) {
            w.vio(&v.sig, || v.detail, move || case);
        }
        w.count("transitions", 4);
        sb.reset();
    }
    let mut chm = chmod_ops();
    chm.push(Op::ChmodB { recurse: false, follow: false, act: Act::All(0) });
    let mut all = chm.clone();
    all.extend(chown_ops());
    let mut idx = 0u64;
    let mut nsamples = 0;
    let mut seen: HashSet<u64> = HashSet::new();
    for t in &trees {
        if t.nodes.is_empty() {
            continue;
        }
        for (vi, tv) in mode_variants(t, &STD_DIR_MODES).iter().enumerate() {
            idx += 1;
            if !w.mine(idx) {
                continue;
            }
            let ops = if vi == 0 { &all } else { &chm };
            // distinct configurations are counted per initial configuration so that the total does
            // not depend on how the work is sharded over worker processes
            seen.clear();
            let mut cur: Option<Tree> = None;
            for path in tv.nodes.keys() {
                for op in ops.iter() {
                    let pre = match cur.take() {
                        Some(p) => p,
                        None => match stdfs_setup(&sb, tv) {
                            Ok(p) => {
                                if seen.insert(tree_hash(&p)) {
                                    w.count("states", 1);
                                    if let Some(v) = check_queries("stdfs", &Stdfs::new(), &p, &sb.root) {
                                        let t2 = p.clone();
                                        w.vio(&v.sig, || v.detail, move || J::obj([("part", J::s("stdfs-query")), ("tree", tree_to_json(&t2))]));
                                    }
                                }
                                p
                            },
                            Err(e) => {
                                w.count("setup_failed", 1);
                                eprintln!("machinery: stdfs setup: {}", e);
                                continue;
                            },
                        },
                    };
                    w.count("transitions", 1);
                    if ref_changes_something(&pre, path, op) {
                        w.count("nontrivial", 1);
                    }
                    let (v, post) = stdfs_transition(&sb, &pre, path, op);
                    if let Some(v) = v {
                        let (t2, p2, o2) = (pre.clone(), path.clone(), op.clone());
                        w.vio(&v.sig, || v.detail, move || tree_case_json("stdfs-tree", &t2, &p2, &o2));
                    }
                    match post {
                        Some(post) if post == pre => cur = Some(pre),
                        Some(post) => {
                            if seen.insert(tree_hash(&post)) {
                                w.count("states", 1);
                                if let Some(v) = check_queries("stdfs", &Stdfs::new(), &post, &sb.root) {
                                    let t2 = post.clone();
                                    w.vio(&v.sig, || v.detail, move || J::obj([("part", J::s("stdfs-query")), ("tree", tree_to_json(&t2))]));
                                }
                            }
                            if nsamples < 4 && idx % 7 == 0 {
                                nsamples += 1;
                                w.sample(J::obj([
                                    ("backend", J::s("stdfs")),
                                    ("tree", J::s(pre.render())),
                                    ("call", J::s(op.render(path))),
                                    ("after", J::s(post.render())),
                                ]));
                            }
                        },
                        None => {},
                    }
                }
            }
            w.count("initial_configurations", 1);
        }
    }
}

// ---------------------------------------------------------------------------------------------
// Driver
// ---------------------------------------------------------------------------------------------
pub fn run(ctx: &Ctx) -> i32 {
    quiet_panics();
    if let Err(e) = crate::models::ref_mode::self_test() {
        eprintln!("machinery: reference self test failed: {}", e);
        return 2;
    }
    if let Some(p) = &ctx.replay {
        return replay(ctx, p);
    }
    // a chmod/chown call that does not return is a violation (it neither applies the mode nor reports an error)
    let hang_limit = ctx.tier.pick(10u64, 30u64);
    let hprop = ctx.prop.clone();
    let wd = start_call_watchdog(std::time::Duration::from_secs(hang_limit), move |call| {
        let sig = "memfs chmod/chown · hang".to_string();
        let detail = format!("{} did not return within {} s", call, hang_limit);
        eprintln!("HANG: {}", detail);
        let c2 = call.clone();
        vio(&sig, move || detail, move || J::obj([("part", J::s("hang")), ("call", J::s(c2))]));
        std::process::exit(crate::props::hang_exit(&hprop, &sig));
    });
    let c = Counters {
        evals: AtomicU64::new(0),
        nontrivial: AtomicU64::new(0),
        malformed_inputs: AtomicU64::new(0),
        malformed_must_err: AtomicU64::new(0),
        transitions: AtomicU64::new(0),
        setup_failed: AtomicU64::new(0),
        lenient: AtomicU64::new(0),
        stale_trees: AtomicU64::new(0),
    };
    let states = StateSet::new();

    // (ii) first: its witnesses are the most readable ones for the shared signatures
    let t0 = std::time::Instant::now();
    let agg = Agg::new();
    let (n_trees, n_init, n_closure) = memfs_trees(ctx, &c, &agg, &states);
    octal_and_presets(ctx, &c, &agg, &states);
    for (v, case) in deep_chain("memfs", &Memfs::new(), "/e", true) {
        agg.add(0, v, || case);
    }
    c.transitions.fetch_add(4, Ordering::Relaxed);
    agg.flush();
    let t_trees = t0.elapsed().as_secs_f64();
    let memfs_transitions = c.transitions.load(Ordering::Relaxed);
    let memfs_nontrivial = c.nontrivial.load(Ordering::Relaxed);

    // Stdfs half
    let t0 = std::time::Instant::now();
    let mut g = Gathered::default();
    let is_root = unsafe { libc::geteuid() } == 0;
    if is_root {
        crate::engines::sandbox::sweep_stale();
        run_workers(ctx, &Launch { name: "c11-stdfs".into(), nshards: ctx.threads as u64, extra: vec![], uid: None, env: None }, &mut g);
    }
    let t_stdfs = t0.elapsed().as_secs_f64();
    if !g.failed.is_empty() {
        for f in &g.failed {
            eprintln!("machinery: {}", f);
        }
        return 2;
    }
    if g.c("setup_failed") > 0 {
        eprintln!("machinery: {} stdfs sandbox setups failed", g.c("setup_failed"));
        return 2;
    }

    // (i) grammar
    let t0 = std::time::Instant::now();
    let all_modes: Vec<u32> = (0..512).collect();
    let mut modes: &[u32] = ctx.tier.pick(&QUICK_MODES[..], &all_modes[..]);
    if std::env::var("C11_DEV_FEW_MODES").is_ok() {
        modes = &QUICK_MODES[..4]; // development knob only; the evidence states the number of values used
    }
    let before = c.evals.load(Ordering::Relaxed);
    grammar_sweep(ctx, &c, &agg, modes, ctx.tier == Tier::Thorough);
    let grammar_evals = c.evals.load(Ordering::Relaxed) - before;
    let grammar_nontrivial = c.nontrivial.load(Ordering::Relaxed) - memfs_nontrivial;
    let t_grammar = t0.elapsed().as_secs_f64();
    let t0 = std::time::Instant::now();
    let max_len = ctx.tier.pick(4, 5);
    malformed_sweep(ctx, &c, &agg, max_len);
    agg.flush();
    let t_malformed = t0.elapsed().as_secs_f64();

    let transitions = memfs_transitions + g.c("transitions");
    let nstates = states.len() + g.c("states");
    let evaluations = c.evals.load(Ordering::Relaxed) + transitions;
    let nontrivial = c.nontrivial.load(Ordering::Relaxed) + g.c("nontrivial") + c.malformed_must_err.load(Ordering::Relaxed);

    // samples: a few actual cases of this run
    let mut samples = vec![];
    for (k, m, expr) in [(Fx::File, 0o644u32, "f:ug+x,a:o-r"), (Fx::Dir, 0o755, "f:a+w,d:go-rx"), (Fx::Link, 0o600, "a:a=rwx"), (Fx::File, 0o644, "f:u+")] {
        if let Some(fs) = fixture_or_vio(k, m, &c) {
            let f2 = fs.verif_deep_clone();
            let res = run_sym(&f2, k, expr, true);
            samples.push(J::obj([
                ("fixture", J::s(format!("{} mode {:o}", k.name(), m))),
                ("sym", J::s(expr)),
                ("result", J::s(render_result(&res))),
                ("mode_after", J::s(format!("{:o}", f2.mode(k.subject()).unwrap_or(0)))),
                ("reference", J::s(match parse_expr(expr) {
                    Some(cs) => format!("{:o}", k.subject_type() | if k == Fx::Link { m } else { apply_expr(m, k.subject_is_dir(), &cs) }),
                    None => format!("{:?}", classify_first(expr)),
                })),
            ]));
        }
    }
    samples.extend(g.samples.iter().cloned());

    let cov = J::obj([
        ("evaluations", J::i(evaluations)),
        ("distinct_nontrivial", J::i(nontrivial)),
        ("rule", J::s(
            "evaluations = grammar/malformed sweep calls + tree transitions (each enumerated case is distinct by construction: \
             distinct (fixture, mode, expression, recursion flag) or (configuration, entry, call)); non-trivial = the reference \
             changes at least one mode/owner (grammar and tree cases) or demands an error (malformed first clause)",
        )),
        ("states", J::i(nstates)),
        ("transitions", J::i(transitions)),
        ("traces_validated_against_impl", J::i(transitions)),
        ("exhaustive", J::Bool(true)),
        ("bounds", J::s(format!(
            "(i) {} permission values x 378 single clauses (both recursion flags) and 142884 ordered clause pairs ({}) x 5 fixtures \
             (file, dir, link>file no follow, link>file follow, link>dir follow); every string of length <= {} over 14 symbols x \
             (file, dir, link); all 512 octal values x chmod/all/dirs/files x recurse x follow and readonly()/secure() from the \
             511 non-zero initial values on 4 one-entry fixtures (initial value 0: fixture sweep). (ii) Memfs: all {} trees over names {{a,b}}, depth <= 2, <= {} entries \
             (files, dirs, resolving links), {} initial configurations (default modes + one entry at a time set to each of \
             644/600/755/700/444), every entry as target, {} chmod calls (+{} chown calls on default-mode configurations); \
             closure of depth 2 from the {} trees with <= {} entries. Stdfs (root, sandbox): trees with <= {} entries, directory \
             modes from 755/700, same calls, one step",
            modes.len(),
            if ctx.tier == Tier::Thorough { "both recursion flags on directory fixtures, alternating with index parity on the others" } else { "recursion flag alternating with index parity" },
            max_len,
            n_trees,
            ctx.tier.pick(4, 6),
            n_init,
            chmod_ops().len(),
            chown_ops().len(),
            n_closure,
            ctx.tier.pick(2, 4),
            ctx.tier.pick(3, 4),
        ))),
        ("samples", J::Arr(samples)),
        ("grammar_evaluations", J::i(grammar_evals)),
        ("grammar_nontrivial", J::i(grammar_nontrivial)),
        ("malformed_sweep_inputs", J::i(c.malformed_inputs.load(Ordering::Relaxed))),
        ("malformed_first_clause_inputs", J::i(c.malformed_must_err.load(Ordering::Relaxed))),
        ("memfs_transitions", J::i(memfs_transitions)),
        ("memfs_configurations", J::i(states.len())),
        ("stdfs_transitions", J::i(g.c("transitions"))),
        ("stdfs_configurations_distinct_per_initial_configuration_summed", J::i(g.c("states"))),
        ("stdfs_ran", J::Bool(is_root && g.c("stdfs_skipped_not_root") == 0)),
        ("order_dependent_or_undocumented_transitions_held_to_weak_check", J::i(c.lenient.load(Ordering::Relaxed))),
        ("memfs_trees_also_run_with_stale_link_kinds", J::i(c.stale_trees.load(Ordering::Relaxed))),
        ("setup_failed", J::i(c.setup_failed.load(Ordering::Relaxed))),
        ("wall_split_s", J::s(format!("memfs trees {:.1}, stdfs {:.1}, grammar {:.1}, malformed {:.1}", t_trees, t_stdfs, t_grammar, t_malformed))),
    ]);
    wd.store(true, Ordering::Relaxed);
    finish(ctx, Evidence {
        level: "model_checking",
        coverage: cov,
        assumptions: vec![
            "reference grammar [dfa]:[ugoa]+[-+=][rwx]+ applied clause by clause; a clause whose target letter does not match the entry kind is skipped".into(),
            "undocumented points accepted either way: several target letters before the colon, empty expression, malformed later clause, whether readonly() also grants read, whether chown without follow sets the ids of a link itself, outcome when a followed link leads back into a directory being traversed".into(),
            "a failing or undocumented recursive call is only required to leave entries outside the selected set untouched and selected entries at the old or the requested value (hash-order caveat)".into(),
            "Stdfs half needs root (chown); it is skipped, and reported as not run, otherwise".into(),
            "link chains and dangling links are outside the tree family".into(),
        ],
    })
}

fn replay(ctx: &Ctx, p: &std::path::Path) -> i32 {
    let j = json::parse(&std::fs::read_to_string(p).expect("read replay")).expect("parse replay");
    let case = j.get("case").expect("case");
    let part = case.get("part").and_then(|x| x.as_str()).unwrap_or("");
    if part == "deep-chain" {
        let mut found = deep_chain("memfs", &Memfs::new(), "/e", true);
        if unsafe { libc::geteuid() } == 0 {
            let sb = Sandbox::new("c11.replay.deep");
            found.extend(deep_chain("stdfs", &Stdfs::new(), &format!("{}/e", sb.root), true));
        }
        for (v, _) in &found {
            println!("  {}: {}", v.sig, v.detail);
        }
        if found.is_empty() {
            println!("holds on this case");
            return 0;
        }
        println!("VIOLATION property={} replay={}", ctx.prop, p.display());
        return 1;
    }
    if part == "hang" {
        println!("replay C11: the recorded call {} did not return; a hang is re-observed by re-running ./check C11 (the watchdog reports the first call that does not return)", case.get("call").and_then(|x| x.as_str()).unwrap_or("?"));
        println!("VIOLATION property={} replay={}", ctx.prop, p.display());
        return 1;
    }
    let c = Counters {
        evals: AtomicU64::new(0),
        nontrivial: AtomicU64::new(0),
        malformed_inputs: AtomicU64::new(0),
        malformed_must_err: AtomicU64::new(0),
        transitions: AtomicU64::new(0),
        setup_failed: AtomicU64::new(0),
        lenient: AtomicU64::new(0),
        stale_trees: AtomicU64::new(0),
    };
    let verdict: Option<Verdict> = match part {
        "sym" => {
            let k = Fx::from_name(case.get("kind").and_then(|x| x.as_str()).unwrap_or("")).expect("kind");
            let m = case.get("mode").and_then(|x| x.as_i64()).expect("mode") as u32;
            let expr = case.get("expr").and_then(|x| x.as_str()).expect("expr");
            let recurse = matches!(case.get("recurse"), Some(J::Bool(true)));
            println!("replay C11 sym: fixture {} mode {:o}, expression {:?} ({:?}), recurse={}", k.name(), m, expr, classify_first(expr), recurse);
            match build_fixture(k, m) {
                Ok(fs) => {
                    let d = fs.verif_dump();
                    check_sym_case(&fs, Some(&d), k, m, expr, recurse, true, &|_| false)
                },
                Err(e) => Some(Verdict { sig: "memfs chmod-octal · mkfile_m/mkdir_m/chmod cannot establish the requested mode on a fresh entry".into(), detail: e }),
            }
        },
        "preset" => {
            let k = Fx::from_name(case.get("kind").and_then(|x| x.as_str()).unwrap_or("")).expect("kind");
            let m = case.get("base_mode").and_then(|x| x.as_i64()).expect("base_mode") as u32;
            match (Op::from_json(case), build_fixture(k, m)) {
                (Some(Op::ChmodB { recurse, act, .. }), Ok(fs)) => check_preset_case(&fs, k, m, &act, recurse),
                (_, Err(e)) => Some(Verdict { sig: "fixture".into(), detail: e }),
                _ => {
                    eprintln!("machinery: bad preset case");
                    return 2;
                },
            }
        },
        "fixture" => {
            let k = Fx::from_name(case.get("kind").and_then(|x| x.as_str()).unwrap_or("")).expect("kind");
            let m = case.get("mode").and_then(|x| x.as_i64()).expect("mode") as u32;
            build_fixture(k, m).err().map(|e| Verdict { sig: "fixture".into(), detail: e })
        },
        "memfs-tree" | "memfs-tree-stale" | "stdfs-tree" | "setup" | "memfs-query" | "stdfs-query" => {
            let t = tree_from_json(case.get("tree").expect("tree")).expect("tree json");
            let path = case.get("path").and_then(|x| x.as_str()).unwrap_or("").to_string();
            let op = case.get("call").and_then(Op::from_json);
            println!("replay C11 {}: tree [{}] {}", part, t.render(), op.as_ref().map(|o| o.render(&path)).unwrap_or_default());
            if part.starts_with("stdfs") {
                let sb = Sandbox::new("c11.replay");
                match stdfs_setup(&sb, &t) {
                    Err(e) => {
                        eprintln!("machinery: {}", e);
                        return 2;
                    },
                    Ok(pre) => match &op {
                        Some(op) => {
                            let (v, post) = stdfs_transition(&sb, &pre, &path, op);
                            if let Some(post) = post {
                                println!("observed after: [{}]", post.render());
                            }
                            v
                        },
                        None => check_queries("stdfs", &Stdfs::new(), &pre, &sb.root),
                    },
                }
            } else {
                let built = if part == "memfs-tree-stale" { materialize_memfs_stale(&t).and_then(|x| x.ok_or_else(|| "no stale variant".to_string())) } else { materialize_memfs(&t, "/") };
                match built {
                    Err(e) => Some(Verdict { sig: "memfs setup".into(), detail: e }),
                    Ok(fs) => match &op {
                        Some(op) => {
                            let (v, succ) = memfs_transition(&fs, &fs.verif_dump(), &t, &path, op, &c);
                            if let Some((_, post)) = succ {
                                println!("observed after: [{}]", post.render());
                            }
                            v
                        },
                        None => check_queries("memfs", &fs, &t, "/"),
                    },
                }
            }
        },
        other => {
            eprintln!("machinery: unknown replay part {:?}", other);
            return 2;
        },
    };
    match verdict {
        Some(v) => {
            println!("{}\n  signature: {}", v.detail, v.sig);
            println!("VIOLATION property={} replay={}", ctx.prop, p.display());
            1
        },
        None => {
            println!("holds: observed behaviour matches the reference");
            0
        },
    }
}

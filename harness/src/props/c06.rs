//! C06 File contents round-trip exactly: write truncates, append extends, read agrees.
//!
//! Every history up to a depth bound over two files (/d/a, /d/b) and the calls write_all,
//! write_lines, append_all, append_line, append_lines, write()+chunks+flush/drop,
//! append()+chunks+flush/drop, copy, move_p, remove is executed on the real code. After every step
//! the bytes the backend stores (Memfs: verif_dump; Stdfs: std::fs::read) and read_all / read /
//! read_lines / exists / is_file of BOTH files are compared with a byte-vector model
//! (`BTreeMap<path, Vec<u8>>`) written from the property statement.
//!
//! Memfs: level-synchronous exploration with deduplication by the complete canonical dump (equal
//! dump => equal futures), every distinct state reached by a history of length < depth is expanded
//! with every call of the alphabet, i.e. every history up to the depth is covered. A state is stored
//! as its shortest history and rebuilt by replaying that history on a fresh Memfs.
//! Stdfs: single-threaded worker processes, private tmpfs sandbox; the states (byte maps) reachable
//! in the model are materialised with std::fs, every call is run from every one of them.
use crate::common::json::{self, bytes_repr, J};
use crate::common::par::*;
use crate::common::report::*;
use crate::engines::sandbox::Sandbox;
use crate::engines::workers::{self, Gathered, Launch, WorkerCtx};
use crate::models::ops::{apply, Op, Outcome};
use rivia::prelude::*;
use std::collections::{BTreeMap, HashMap, HashSet};
use std::panic::{catch_unwind, AssertUnwindSafe};
use std::sync::atomic::{AtomicU64, Ordering};
use std::sync::{Arc, Mutex};

const DIR: &str = "/d";
const FA: &str = "/d/a";
const FB: &str = "/d/b";
const FILES: [&str; 2] = [FA, FB];

/// the byte-vector model: path -> content; absent = the file does not exist
type Model = BTreeMap<String, Vec<u8>>;

fn s(x: &str) -> String {
    x.to_string()
}

fn long_data() -> Vec<u8> {
    "ab".repeat(2500).into_bytes()
}

pub fn datas() -> Vec<Vec<u8>> {
    vec![b"".to_vec(), b"a".to_vec(), "é".as_bytes().to_vec(), b"\n".to_vec(), b"a\nb".to_vec(), b"a\r\n".to_vec(), b"a\r\r\nb\r".to_vec(), vec![0xFF], long_data()]
}

pub fn line_lists() -> Vec<Vec<String>> {
    vec![vec![], vec![s("")], vec![s("a")], vec![s("a"), s("é")], vec![s(""), s("b")], vec![s("b"), s("")], vec![s("c\n")]]
}

/// The call alphabet in logical coordinates (/d/a, /d/b)
pub fn alphabet() -> Vec<Op> {
    let mut ops = vec![];
    let long = long_data();
    for p in FILES {
        for d in datas() {
            ops.push(Op::WriteAll(s(p), d));
        }
        for d in datas() {
            ops.push(Op::AppendAll(s(p), d));
        }
        for l in line_lists() {
            ops.push(Op::WriteLines(s(p), l));
        }
        for l in line_lists() {
            ops.push(Op::AppendLines(s(p), l));
        }
        for l in ["", "a", "é", "a\nb"] {
            ops.push(Op::AppendLine(s(p), s(l)));
        }
        ops.push(Op::AppendLine(s(p), String::from_utf8(long.clone()).unwrap()));
        // write() handle: chunks, flush flags, then drop
        ops.push(Op::WriteHandle(s(p), vec![], vec![]));
        ops.push(Op::WriteHandle(s(p), vec![b"a".to_vec()], vec![false]));
        ops.push(Op::WriteHandle(s(p), vec![b"a".to_vec(), "é".as_bytes().to_vec()], vec![true, false]));
        ops.push(Op::WriteHandle(s(p), vec![vec![0xFF], b"\n".to_vec()], vec![false, true]));
        ops.push(Op::WriteHandle(s(p), vec![long.clone(), b"a".to_vec()], vec![false, false]));
        ops.push(Op::WriteHandle(s(p), vec![b"".to_vec(), b"a\nb".to_vec()], vec![true, true]));
        // append() handle
        ops.push(Op::AppendHandle(s(p), vec![], vec![]));
        ops.push(Op::AppendHandle(s(p), vec![b"a".to_vec()], vec![false]));
        ops.push(Op::AppendHandle(s(p), vec!["é".as_bytes().to_vec(), b"\n".to_vec()], vec![true, false]));
        ops.push(Op::AppendHandle(s(p), vec![long.clone()], vec![true]));
        ops.push(Op::AppendHandle(s(p), vec![vec![0xFF], b"a".to_vec()], vec![false, true]));
        ops.push(Op::Remove(s(p)));
    }
    ops.push(Op::Copy(s(FA), s(FB)));
    ops.push(Op::Copy(s(FB), s(FA)));
    ops.push(Op::MoveP(s(FA), s(FB)));
    ops.push(Op::MoveP(s(FB), s(FA)));
    ops
}

fn other(p: &str) -> &'static str {
    if p == FA {
        FB
    } else {
        FA
    }
}

// ---------------------------------------------------------------------------------------------
// The model (written from the statement; no rivia control flow)
// ---------------------------------------------------------------------------------------------
#[derive(Debug, Clone)]
enum Expect {
    /// the call must succeed and the stored contents must be exactly these
    Exact(Model),
    /// the call must fail (documented error: the source does not exist); contents unchanged
    MustFailUnchanged,
    /// either result (docs silent: remove of a missing file); contents unchanged
    EitherUnchanged,
    /// the docs leave the effect on `target` open (line helper outside the stated domain): either
    /// result, every other file untouched; for appends an existing content stays a prefix
    Open { target: String, keep_prefix: bool },
}

/// the statement's domain for the line helpers: non-empty lines without a line terminator
fn line_ok(l: &str) -> bool {
    !l.is_empty() && !l.contains('\n') && !l.contains('\r')
}
fn lines_ok(ls: &[String]) -> bool {
    !ls.is_empty() && ls.iter().all(|l| line_ok(l))
}
/// "line helpers add exactly one newline per line" is stated for every line; the only inputs the docs
/// leave open are those whose joined text is empty (no lines at all, or a single empty line), which
/// rivia treats as "nothing to write"
fn payload_defined(ls: &[String]) -> bool {
    !ls.join("\n").is_empty()
}
fn lines_payload(ls: &[String]) -> Vec<u8> {
    // exactly one newline per line
    let mut v = vec![];
    for l in ls {
        v.extend_from_slice(l.as_bytes());
        v.push(b'\n');
    }
    v
}

fn model_step(m: &Model, op: &Op) -> Expect {
    let old = |p: &String| m.get(p).cloned().unwrap_or_default();
    let set = |p: &String, d: Vec<u8>| {
        let mut m2 = m.clone();
        m2.insert(p.clone(), d);
        Expect::Exact(m2)
    };
    let cat = |a: Vec<u8>, b: &[u8]| {
        let mut a = a;
        a.extend_from_slice(b);
        a
    };
    match op {
        // a write replaces the whole content
        Op::WriteAll(p, d) => set(p, d.clone()),
        Op::WriteHandle(p, chunks, _) => set(p, chunks.concat()),
        Op::WriteLines(p, ls) => {
            if payload_defined(ls) {
                set(p, lines_payload(ls))
            } else {
                Expect::Open { target: p.clone(), keep_prefix: false }
            }
        },
        // an append adds at the end and never alters the existing prefix
        Op::AppendAll(p, d) => set(p, cat(old(p), d)),
        Op::AppendHandle(p, chunks, _) => set(p, cat(old(p), &chunks.concat())),
        Op::AppendLine(p, l) => {
            if !l.is_empty() {
                set(p, cat(cat(old(p), l.as_bytes()), b"\n"))
            } else {
                Expect::Open { target: p.clone(), keep_prefix: true }
            }
        },
        Op::AppendLines(p, ls) => {
            if payload_defined(ls) {
                set(p, cat(old(p), &lines_payload(ls)))
            } else {
                Expect::Open { target: p.clone(), keep_prefix: true }
            }
        },
        Op::Remove(p) => {
            if m.contains_key(p) {
                let mut m2 = m.clone();
                m2.remove(p);
                Expect::Exact(m2)
            } else {
                Expect::EitherUnchanged
            }
        },
        Op::Copy(a, b) => match m.get(a) {
            None => Expect::MustFailUnchanged,
            Some(d) => {
                let mut m2 = m.clone();
                m2.insert(b.clone(), d.clone());
                Expect::Exact(m2)
            },
        },
        Op::MoveP(a, b) => match m.get(a) {
            None => Expect::MustFailUnchanged,
            Some(d) => {
                let mut m2 = m.clone();
                m2.insert(b.clone(), d.clone());
                m2.remove(a);
                Expect::Exact(m2)
            },
        },
        _ => Expect::EitherUnchanged,
    }
}

/// reference for read_lines: pieces between '\n', a final terminator does not open another line
fn ref_lines(text: &str) -> Vec<&str> {
    let mut v: Vec<&str> = text.split('\n').collect();
    if v.last() == Some(&"") {
        v.pop();
    }
    v
}

/// observed lines agree with the reference; whether "\r\n" counts as one terminator is left open
fn lines_agree(reference: &[&str], got: &[String]) -> bool {
    reference.len() == got.len() && reference.iter().zip(got.iter()).all(|(r, g)| *r == g.as_str() || (r.ends_with('\r') && &r[..r.len() - 1] == g.as_str()))
}

fn content_class(b: &[u8]) -> &'static str {
    match std::str::from_utf8(b) {
        Err(_) => "invalid-utf8",
        Ok(t) => {
            if b.len() > 4096 {
                "long"
            } else if t.contains("\r\n") {
                "crlf"
            } else if t.contains('\n') {
                "newline"
            } else if !t.is_ascii() {
                "multibyte"
            } else if t.is_empty() {
                "empty"
            } else {
                "ascii"
            }
        },
    }
}

fn show(c: Option<&Vec<u8>>) -> String {
    match c {
        None => "<absent>".into(),
        Some(d) => format!("{:?}", bytes_repr(d)),
    }
}

fn show_model(m: &Model) -> String {
    format!("a={} b={}", show(m.get(FA)), show(m.get(FB)))
}

/// how the observed content relates to the expected one
fn diff_class(expected: Option<&Vec<u8>>, observed: Option<&Vec<u8>>, before: Option<&Vec<u8>>) -> &'static str {
    match (expected, observed) {
        (Some(_), None) => "file missing",
        (None, Some(_)) => "file still/again present",
        (Some(e), Some(o)) => {
            if Some(o) == before && Some(e) != before {
                "old content kept"
            } else if o.len() < e.len() && e.starts_with(o) {
                "bytes lost at the end"
            } else if o.len() < e.len() && e.ends_with(o) {
                "bytes lost at the start"
            } else if o.len() > e.len() && o.starts_with(e) {
                "extra bytes at the end"
            } else if o.len() > e.len() && o.ends_with(e) {
                "extra bytes at the start (not truncated)"
            } else {
                "different bytes"
            }
        },
        (None, None) => "same",
    }
}

// ---------------------------------------------------------------------------------------------
// Worlds: the real backends behind one small interface
// ---------------------------------------------------------------------------------------------
pub struct ApiObs {
    exists: Result<bool, String>,
    is_file: Result<bool, String>,
    read_all: Result<Result<String, String>, String>,
    read: Result<Result<Vec<u8>, String>, String>,
    read_lines: Result<Result<Vec<String>, String>, String>,
}

fn guarded<T, F: FnOnce() -> T>(f: F) -> Result<T, String> {
    catch_unwind(AssertUnwindSafe(f)).map_err(|e| panic_message(&e))
}

fn api_reads<V: VirtualFileSystem>(fs: &V, p: &str) -> ApiObs {
    ApiObs {
        exists: guarded(|| fs.exists(p)),
        is_file: guarded(|| fs.is_file(p)),
        read_all: guarded(|| fs.read_all(p).map_err(|e| e.to_string())),
        read: guarded(|| {
            fs.read(p).map_err(|e| e.to_string()).and_then(|mut h| {
                let mut buf = vec![];
                h.read_to_end(&mut buf).map_err(|e| e.to_string())?;
                Ok(buf)
            })
        }),
        read_lines: guarded(|| fs.read_lines(p).map_err(|e| e.to_string())),
    }
}

trait World {
    fn name(&self) -> &'static str;
    /// run the call (given in logical coordinates) on the real backend
    fn apply(&self, op: &Op) -> Outcome;
    /// independent observation of the stored bytes; Err = the namespace holds something else than
    /// the directory and the two plain files
    fn stored(&self) -> Result<Model, String>;
    fn reads(&self, logical: &str) -> ApiObs;
}

struct MemWorld {
    fs: Memfs,
}

impl MemWorld {
    fn fresh() -> MemWorld {
        let fs = Memfs::new();
        let o = apply(&fs, &Op::MkdirP(s(DIR)));
        if !o.ok {
            eprintln!("machinery: cannot create {} in a fresh Memfs: {}", DIR, o.brief());
            std::process::exit(2);
        }
        MemWorld { fs }
    }
}

fn stored_of_dump(d: &rivia::verif::Dump) -> Result<Model, String> {
    let mut m = Model::new();
    let data: BTreeMap<&str, &Vec<u8>> = d.files.iter().map(|f| (f.key.as_str(), &f.data)).collect();
    for e in &d.entries {
        match e.key.as_str() {
            "/" | DIR => {
                if !e.dir || e.link || e.file {
                    return Err(format!("{} is no longer a plain directory", e.key));
                }
            },
            FA | FB => {
                if !e.file || e.dir || e.link {
                    return Err(format!("{} is not a plain file (dir={} file={} link={})", e.key, e.dir, e.file, e.link));
                }
                match data.get(e.key.as_str()) {
                    Some(b) => {
                        m.insert(e.key.clone(), (*b).clone());
                    },
                    None => return Err(format!("file entry {} has no stored bytes", e.key)),
                }
            },
            other => return Err(format!("unexpected entry {}", other)),
        }
    }
    for f in &d.files {
        if !m.contains_key(&f.key) {
            return Err(format!("bytes stored under {} without a file entry ({:?})", f.key, bytes_repr(&f.data)));
        }
    }
    if d.poisoned {
        return Err("filesystem lock poisoned".into());
    }
    Ok(m)
}

impl World for MemWorld {
    fn name(&self) -> &'static str {
        "memfs"
    }
    fn apply(&self, op: &Op) -> Outcome {
        apply(&self.fs, op)
    }
    fn stored(&self) -> Result<Model, String> {
        stored_of_dump(&self.fs.verif_dump())
    }
    fn reads(&self, logical: &str) -> ApiObs {
        api_reads(&self.fs, logical)
    }
}

struct DiskWorld {
    root: String,
    fs: Stdfs,
}

impl DiskWorld {
    fn real(&self, logical: &str) -> String {
        format!("{}{}", self.root, logical)
    }
    /// put the byte map on disk with std::fs only
    fn materialize(&self, sb: &Sandbox, m: &Model) -> Result<(), String> {
        let dir = self.real(DIR);
        let clean = match self.stored() {
            Ok(_) => true,
            Err(_) => false,
        };
        if !clean {
            sb.reset();
        }
        if !std::path::Path::new(&dir).is_dir() {
            std::fs::create_dir(&dir).map_err(|e| format!("mkdir {}: {}", dir, e))?;
        }
        for p in FILES {
            let rp = self.real(p);
            match m.get(p) {
                Some(d) => {
                    // fresh inode every time: no state is carried over between cases
                    let _ = std::fs::remove_file(&rp);
                    std::fs::write(&rp, d).map_err(|e| format!("write {}: {}", rp, e))?
                },
                None => {
                    if std::fs::symlink_metadata(&rp).is_ok() {
                        std::fs::remove_file(&rp).map_err(|e| format!("rm {}: {}", rp, e))?;
                    }
                },
            }
        }
        Ok(())
    }
}

impl World for DiskWorld {
    fn name(&self) -> &'static str {
        "stdfs"
    }
    fn apply(&self, op: &Op) -> Outcome {
        let root = self.root.clone();
        apply(&self.fs, &op.map_paths(|p, _| format!("{}{}", root, p)))
    }
    fn stored(&self) -> Result<Model, String> {
        let mut m = Model::new();
        let mut top: Vec<String> = vec![];
        for e in std::fs::read_dir(&self.root).map_err(|e| format!("read_dir {}: {}", self.root, e))? {
            top.push(e.map_err(|e| e.to_string())?.file_name().to_string_lossy().into_owned());
        }
        if top != vec![s("d")] {
            return Err(format!("sandbox root holds {:?} instead of just the directory d", top));
        }
        let dir = self.real(DIR);
        let md = std::fs::symlink_metadata(&dir).map_err(|e| e.to_string())?;
        if !md.is_dir() {
            return Err(format!("{} is no longer a plain directory", DIR));
        }
        for e in std::fs::read_dir(&dir).map_err(|e| format!("read_dir {}: {}", dir, e))? {
            let name = e.map_err(|e| e.to_string())?.file_name().to_string_lossy().into_owned();
            let logical = format!("{}/{}", DIR, name);
            if logical != FA && logical != FB {
                return Err(format!("unexpected entry {}", logical));
            }
            let rp = self.real(&logical);
            let md = std::fs::symlink_metadata(&rp).map_err(|e| e.to_string())?;
            if !md.file_type().is_file() {
                return Err(format!("{} is not a plain file", logical));
            }
            m.insert(logical, std::fs::read(&rp).map_err(|e| e.to_string())?);
        }
        Ok(m)
    }
    fn reads(&self, logical: &str) -> ApiObs {
        api_reads(&self.fs, &self.real(logical))
    }
}

// ---------------------------------------------------------------------------------------------
// The oracle for one step
// ---------------------------------------------------------------------------------------------
fn op_label(op: &Op) -> String {
    match op {
        Op::WriteHandle(..) => "write()+chunks+drop".into(),
        Op::AppendHandle(..) => "append()+chunks+drop".into(),
        Op::WriteLines(_, ls) | Op::AppendLines(_, ls) if !payload_defined(ls) => format!("{}[outside line domain]", op.name()),
        Op::AppendLine(_, l) if l.is_empty() => format!("{}[outside line domain]", op.name()),
        other => other.name().into(),
    }
}

/// role of file `p` for the call: target (written), source (read by copy/move), other
fn role(op: &Op, p: &str) -> &'static str {
    match op {
        Op::Copy(a, b) | Op::MoveP(a, b) => {
            if p == b {
                "destination"
            } else if p == a {
                "source"
            } else {
                "other file"
            }
        },
        other => {
            if other.paths().0 == Some(p) {
                "target"
            } else {
                "other file"
            }
        },
    }
}

fn pre_class(pre: &Model, op: &Op) -> String {
    let k = |p: &str| if pre.contains_key(p) { "existing" } else { "missing" };
    match op.paths() {
        (Some(a), Some(b)) => format!("src={} dst={}", k(a), k(b)),
        (Some(a), None) => format!("target={}", k(a)),
        _ => String::new(),
    }
}

type Viol = Vec<(String, String)>;

fn check_reads(w: &dyn World, stored: &Model, viol: &mut Viol) {
    let b = w.name();
    for p in FILES {
        let obs = w.reads(p);
        let st = stored.get(p);
        let cls = st.map(|x| content_class(x)).unwrap_or("absent");
        macro_rules! unpanic {
            ($field:expr, $name:expr) => {
                match $field {
                    Ok(v) => v,
                    Err(msg) => {
                        viol.push((format!("{} {} content={} · panic", b, $name, cls), format!("{}({}) panicked: {}; stored bytes: {}", $name, p, msg, show(st))));
                        continue;
                    },
                }
            };
        }
        let exists = unpanic!(obs.exists, "exists");
        let is_file = unpanic!(obs.is_file, "is_file");
        let read_all = unpanic!(obs.read_all, "read_all");
        let read = unpanic!(obs.read, "read");
        let read_lines = unpanic!(obs.read_lines, "read_lines");
        if exists != st.is_some() {
            viol.push((format!("{} exists · disagrees with the stored files", b), format!("exists({}) = {} but the stored bytes are {}", p, exists, show(st))));
        }
        if is_file != st.is_some() {
            viol.push((format!("{} is_file · disagrees with the stored files", b), format!("is_file({}) = {} but the stored bytes are {}", p, is_file, show(st))));
        }
        match st {
            None => {
                if read_all.is_ok() {
                    viol.push((format!("{} read_all content=absent · ok-expected-err", b), format!("read_all({}) = {:?} although the file does not exist", p, read_all)));
                }
                if read.is_ok() {
                    viol.push((format!("{} read content=absent · ok-expected-err", b), format!("read({}) opened although the file does not exist", p)));
                }
                if read_lines.is_ok() {
                    viol.push((format!("{} read_lines content=absent · ok-expected-err", b), format!("read_lines({}) = {:?} although the file does not exist", p, read_lines)));
                }
            },
            Some(bytes) => {
                match &read {
                    Ok(v) if v == bytes => {},
                    Ok(v) => viol.push((
                        format!("{} read content={} · handle bytes differ from the stored bytes", b, cls),
                        format!("read({}) yielded {:?} ({} bytes) but the stored bytes are {:?} ({} bytes)", p, bytes_repr(v), v.len(), bytes_repr(bytes), bytes.len()),
                    )),
                    Err(e) => viol.push((format!("{} read content={} · err-expected-ok", b, cls), format!("read({}) failed: {}; stored bytes {:?}", p, e, bytes_repr(bytes)))),
                }
                match std::str::from_utf8(bytes) {
                    Ok(text) => {
                        match &read_all {
                            Ok(v) if v == text => {},
                            Ok(v) => viol.push((
                                format!("{} read_all content={} · value differs from the stored bytes", b, cls),
                                format!("read_all({}) = {:?} ({} bytes) but the stored bytes are {:?} ({} bytes)", p, bytes_repr(v.as_bytes()), v.len(), bytes_repr(bytes), bytes.len()),
                            )),
                            Err(e) => viol.push((format!("{} read_all content={} · err-expected-ok", b, cls), format!("read_all({}) failed: {}; stored bytes {:?}", p, e, bytes_repr(bytes)))),
                        }
                        let reference = ref_lines(text);
                        match &read_lines {
                            Ok(v) if lines_agree(&reference, v) => {},
                            Ok(v) => viol.push((
                                format!("{} read_lines content={} · lines differ from the stored bytes", b, cls),
                                format!("read_lines({}) = {:?} but the stored bytes {:?} hold the lines {:?}", p, v.iter().map(|x| bytes_repr(x.as_bytes())).collect::<Vec<_>>(), bytes_repr(bytes), reference.iter().map(|x| bytes_repr(x.as_bytes())).collect::<Vec<_>>()),
                            )),
                            Err(e) => viol.push((format!("{} read_lines content={} · err-expected-ok", b, cls), format!("read_lines({}) failed: {}; stored bytes {:?}", p, e, bytes_repr(bytes)))),
                        }
                    },
                    Err(_) => {
                        if let Ok(v) = &read_all {
                            viol.push((format!("{} read_all content=invalid-utf8 · ok-expected-err", b), format!("read_all({}) = {:?} although the stored bytes {:?} are not UTF-8", p, v, bytes_repr(bytes))));
                        }
                        if let Ok(v) = &read_lines {
                            viol.push((format!("{} read_lines content=invalid-utf8 · ok-expected-err", b), format!("read_lines({}) = {:?} although the stored bytes {:?} are not UTF-8", p, v, bytes_repr(bytes))));
                        }
                    },
                }
            },
        }
    }
}

/// Check one executed step. Returns the contents the backend now stores when everything agreed
/// (the state may be explored further), None otherwise. `open_hits` counts steps where the docs
/// leave the effect open and the observed effect was adopted.
fn check_step(w: &dyn World, pre: &Model, op: &Op, out: &Outcome, viol: &mut Viol, open_hits: &mut u64) -> Option<Model> {
    let b = w.name();
    let lab = op_label(op);
    let n0 = viol.len();
    if out.panicked() {
        viol.push((format!("{} {} · panic", b, lab), format!("{} panicked: {} (contents before: {})", op.render(), out.msg, show_model(pre))));
        return None;
    }
    let stored = match w.stored() {
        Ok(m) => m,
        Err(e) => {
            viol.push((format!("{} {} {} · namespace damaged", b, lab, pre_class(pre, op)), format!("after {} -> {} (contents before: {}): {}", op.render(), out.brief(), show_model(pre), e)));
            return None;
        },
    };
    let ctx = |p: &str, exp: Option<&Vec<u8>>| format!("{} -> {}; contents before: {}; {} expected {} observed {}", op.render(), out.brief(), show_model(pre), p, show(exp), show(stored.get(p)));
    match model_step(pre, op) {
        Expect::Exact(want) => {
            if !out.ok {
                viol.push((format!("{} {} {} · err-expected-ok", b, lab, pre_class(pre, op)), format!("{} failed: {} (contents before: {}; stored after: {})", op.render(), out.brief(), show_model(pre), show_model(&stored))));
            } else {
                for p in FILES {
                    if stored.get(p) != want.get(p) {
                        let dc = diff_class(want.get(p), stored.get(p), pre.get(p));
                        viol.push((format!("{} {} {} · {}: {}", b, lab, pre_class(pre, op), role(op, p), dc), ctx(p, want.get(p))));
                    }
                }
            }
        },
        Expect::MustFailUnchanged => {
            if out.ok {
                viol.push((format!("{} {} {} · ok-expected-err", b, lab, pre_class(pre, op)), format!("{} succeeded although the source does not exist (contents before: {})", op.render(), show_model(pre))));
            }
            for p in FILES {
                if stored.get(p) != pre.get(p) {
                    viol.push((format!("{} {} {} · failed call changed the {}", b, lab, pre_class(pre, op), role(op, p)), ctx(p, pre.get(p))));
                }
            }
        },
        Expect::EitherUnchanged => {
            for p in FILES {
                if stored.get(p) != pre.get(p) {
                    viol.push((format!("{} {} {} · no-op call changed the {}", b, lab, pre_class(pre, op), role(op, p)), ctx(p, pre.get(p))));
                }
            }
        },
        Expect::Open { target, keep_prefix } => {
            *open_hits += 1;
            let o = other(&target);
            if stored.get(o) != pre.get(o) {
                viol.push((format!("{} {} · other file changed", b, lab), ctx(o, pre.get(o))));
            }
            if keep_prefix {
                if let Some(old) = pre.get(&target) {
                    match stored.get(&target) {
                        Some(new) if new.starts_with(old) => {},
                        _ => viol.push((format!("{} {} · append altered the existing prefix", b, lab), ctx(&target, Some(old)))),
                    }
                }
            }
        },
    }
    // the explicit round trip law
    if let Op::WriteLines(p, ls) = op {
        if lines_ok(ls) && out.ok {
            match w.reads(p).read_lines {
                Ok(Ok(v)) if &v == ls => {},
                other => viol.push((format!("{} write_lines→read_lines · round trip differs", b), format!("write_lines({}, {:?}) then read_lines = {:?}", p, ls, other))),
            }
        }
    }
    check_reads(w, &stored, viol);
    if viol.len() == n0 {
        Some(stored)
    } else {
        None
    }
}

/// After a successful copy / move: the two files must not alias. Mutates the world.
fn alias_probe(w: &dyn World, post: &Model, op: &Op, viol: &mut Viol) {
    let (a, b2, is_move) = match op {
        Op::Copy(a, b) => (a.clone(), b.clone(), false),
        Op::MoveP(a, b) => (a.clone(), b.clone(), true),
        _ => return,
    };
    let b = w.name();
    let name = op.name();
    let base = match post.get(&b2) {
        Some(x) => x.clone(),
        None => return,
    };
    // write to the copy, read the source (only the file that was NOT written is judged, so a broken
    // write path is not misreported as aliasing)
    let o1 = w.apply(&Op::AppendAll(b2.clone(), b"!".to_vec()));
    let mid = match w.stored() {
        Ok(m) => {
            if m.get(&a) != post.get(&a) {
                viol.push((format!("{} {} · alias: writing the destination changed the source", b, name), format!("after {} (contents {}), append_all({}, \"!\") -> {} made {} = {}", op.render(), show_model(post), b2, o1.brief(), a, show(m.get(&a)))));
            }
            m.get(&b2).cloned()
        },
        Err(e) => {
            viol.push((format!("{} {} · alias probe damaged the namespace", b, name), e));
            return;
        },
    };
    let _ = base;
    // write to the source (for a move: re-create it), read the copy
    let o2 = w.apply(&Op::WriteAll(a.clone(), b"?".to_vec()));
    match w.stored() {
        Ok(m) => {
            if m.get(&b2) != mid.as_ref() {
                viol.push((
                    format!("{} {} · alias: writing the source changed the destination", b, name),
                    format!("after {} (contents {}), write_all({}, \"?\") -> {} made {} = {} (move={})", op.render(), show_model(post), a, o2.brief(), b2, show(m.get(&b2)), is_move),
                ));
            }
        },
        Err(e) => viol.push((format!("{} {} · alias probe damaged the namespace", b, name), e)),
    }
}

fn run_step(w: &dyn World, pre: &Model, op: &Op, viol: &mut Viol, open_hits: &mut u64) -> (Outcome, Option<Model>) {
    let out = w.apply(op);
    let post = check_step(w, pre, op, &out, viol, open_hits);
    (out, post)
}

// ---------------------------------------------------------------------------------------------
// Memfs exploration
// ---------------------------------------------------------------------------------------------
#[derive(Clone, Copy)]
struct Rec {
    parent: u32,
    op: u16,
    depth: u8,
}

fn history_of(recs: &[Rec], idx: usize) -> Vec<usize> {
    let mut h = vec![];
    let mut cur = idx;
    while recs[cur].parent != u32::MAX {
        h.push(recs[cur].op as usize);
        cur = recs[cur].parent as usize;
    }
    h.reverse();
    h
}

fn case_json(backend: &str, ops: &[Op], hist: &[usize], call: usize) -> J {
    J::obj([
        ("backend", J::s(backend)),
        ("history_idx", J::arr(hist.iter().map(|&i| J::i(i as i64)))),
        ("history", J::arr(hist.iter().map(|&i| J::s(ops[i].render())))),
        ("call_idx", J::i(call as i64)),
        ("call", J::s(ops[call].render())),
    ])
}

fn history_text(ops: &[Op], hist: &[usize]) -> String {
    if hist.is_empty() {
        "fresh (empty directory /d)".into()
    } else {
        hist.iter().map(|&i| ops[i].render()).collect::<Vec<_>>().join("; ")
    }
}

#[derive(Default)]
struct MemStats {
    states: u64,
    expanded: u64,
    transitions: u64,
    leaf_distinct: u64,
    open_adopted: u64,
    failed_calls: u64,
    not_expanded_after_violation: u64,
    per_level: Vec<u64>,
    max_len: u64,
    distinct_long_values: u64,
    samples: Vec<J>,
}

fn explore_memfs(ctx: &Ctx, ops: &Arc<Vec<Op>>, depth: usize) -> MemStats {
    let mut stats = MemStats::default();
    let recs: Arc<Mutex<Vec<Rec>>> = Arc::new(Mutex::new(vec![Rec { parent: u32::MAX, op: 0, depth: 0 }]));
    let mut visited: HashMap<u128, u32> = HashMap::new();
    visited.insert(crate::engines::space::dump_key(&MemWorld::fresh().fs.verif_dump()), 0);

    let progress = Progress::new();
    let (h_ops, h_recs, h_prop) = (ops.clone(), recs.clone(), ctx.prop.clone());
    let wd = spawn_watchdog(progress.clone(), std::time::Duration::from_secs(20), move |_slot, case| {
        let idx = (case >> 16) as usize;
        let oi = (case & 0xFFFF) as usize;
        let hist = history_of(&h_recs.lock().unwrap_or_else(|e| e.into_inner()), idx);
        let sig = format!("memfs {} · hang", op_label(&h_ops[oi]));
        let detail = format!("after [{}] the call {} did not return within 20 s", history_text(&h_ops, &hist), h_ops[oi].render());
        vio(&sig, || detail.clone(), || case_json("memfs", &h_ops, &hist, oi));
        eprintln!("HANG: {}", detail);
        std::process::exit(crate::props::hang_exit(&h_prop, &sig));
    });

    let transitions = AtomicU64::new(0);
    let open_adopted = AtomicU64::new(0);
    let failed = AtomicU64::new(0);
    let blocked = AtomicU64::new(0);
    let max_len = AtomicU64::new(0);
    let leaf_shards: Vec<Mutex<HashSet<u64>>> = (0..64).map(|_| Mutex::new(HashSet::new())).collect();
    let long_values: Mutex<HashSet<u64>> = Mutex::new(HashSet::new());
    let samples: Mutex<Vec<J>> = Mutex::new(vec![]);

    let mut lo = 0usize;
    stats.per_level.push(1);
    for level in 0..depth {
        let snapshot: Vec<Rec> = recs.lock().unwrap().clone();
        let hi = snapshot.len();
        if lo == hi {
            break;
        }
        let frontier: Vec<usize> = (lo..hi).collect();
        let last = level + 1 == depth;
        let cands: Mutex<Vec<(u128, u32, u16)>> = Mutex::new(vec![]);
        let visited_ref = &visited;
        par_each(ctx.threads, &frontier, |slot, _i, &idx| {
            let hist = history_of(&snapshot, idx);
            // rebuild the state by replaying its (already verified) history on a fresh Memfs
            let base = MemWorld::fresh();
            for &i in &hist {
                base.apply(&ops[i]);
            }
            let pre = match base.stored() {
                Ok(m) => m,
                Err(e) => {
                    vio("memfs machinery: verified history does not replay", || format!("[{}]: {}", history_text(ops, &hist), e), || J::Null);
                    return;
                },
            };
            let mut local: Vec<(u128, u32, u16)> = vec![];
            let mut local_keys: HashSet<u128> = HashSet::new();
            let mut open_hits = 0u64;
            for (oi, op) in ops.iter().enumerate() {
                let w = MemWorld { fs: base.fs.verif_deep_clone() };
                progress.begin(slot, ((idx as u64) << 16) | oi as u64);
                let mut viol: Viol = vec![];
                let (out, post) = run_step(&w, &pre, op, &mut viol, &mut open_hits);
                progress.end(slot);
                transitions.fetch_add(1, Ordering::Relaxed);
                if !out.ok {
                    failed.fetch_add(1, Ordering::Relaxed);
                }
                let key = post.as_ref().map(|_| crate::engines::space::dump_key(&w.fs.verif_dump()));
                if let Some(post) = &post {
                    for d in post.values() {
                        max_len.fetch_max(d.len() as u64, Ordering::Relaxed);
                        if d.len() >= 5000 {
                            let mut h = std::collections::hash_map::DefaultHasher::new();
                            std::hash::Hash::hash(d, &mut h);
                            long_values.lock().unwrap().insert(std::hash::Hasher::finish(&h));
                        }
                    }
                    if out.ok && matches!(op, Op::Copy(..) | Op::MoveP(..)) {
                        alias_probe(&w, post, op, &mut viol);
                    }
                    if (idx * 131 + oi * 17) % 9973 == 5 {
                        let mut sm = samples.lock().unwrap();
                        if sm.len() < 6 {
                            sm.push(J::obj([
                                ("backend", J::s("memfs")),
                                ("history", J::s(history_text(ops, &hist))),
                                ("call", J::s(op.render())),
                                ("result", J::s(out.brief())),
                                ("contents_after", J::s(show_model(post))),
                            ]));
                        }
                    }
                }
                for (sig, detail) in viol {
                    let d2 = format!("after [{}]: {}", history_text(ops, &hist), detail);
                    vio(&sig, || d2, || case_json("memfs", ops, &hist, oi));
                }
                match key {
                    None => {
                        blocked.fetch_add(1, Ordering::Relaxed);
                    },
                    Some(key) => {
                        if last {
                            if !visited_ref.contains_key(&key) {
                                let k64 = (key >> 64) as u64 ^ key as u64;
                                leaf_shards[(k64 % 64) as usize].lock().unwrap().insert(k64);
                            }
                        } else if !visited_ref.contains_key(&key) && local_keys.insert(key) {
                            local.push((key, idx as u32, oi as u16));
                        }
                    },
                }
            }
            open_adopted.fetch_add(open_hits, Ordering::Relaxed);
            if !local.is_empty() {
                cands.lock().unwrap().extend(local);
            }
        });
        stats.expanded += (hi - lo) as u64;
        let mut all = cands.into_inner().unwrap();
        all.sort_by_key(|c| (c.1, c.2));
        let mut r = recs.lock().unwrap();
        let mut added = 0u64;
        for (key, parent, op) in all {
            if visited.contains_key(&key) {
                continue;
            }
            visited.insert(key, r.len() as u32);
            r.push(Rec { parent, op, depth: (level + 1) as u8 });
            added += 1;
        }
        if !last {
            stats.per_level.push(added);
        }
        lo = hi;
    }
    wd.store(true, Ordering::Relaxed);
    stats.leaf_distinct = leaf_shards.iter().map(|x| x.lock().unwrap().len() as u64).sum();
    stats.per_level.push(stats.leaf_distinct);
    stats.states = recs.lock().unwrap().len() as u64 + stats.leaf_distinct;
    stats.transitions = transitions.load(Ordering::Relaxed);
    stats.open_adopted = open_adopted.load(Ordering::Relaxed);
    stats.failed_calls = failed.load(Ordering::Relaxed);
    stats.not_expanded_after_violation = blocked.load(Ordering::Relaxed);
    stats.max_len = max_len.load(Ordering::Relaxed);
    stats.distinct_long_values = long_values.lock().unwrap().len() as u64;
    stats.samples = samples.into_inner().unwrap();
    let _ = recs.lock().unwrap().iter().map(|r| r.depth).max();
    stats
}

// ---------------------------------------------------------------------------------------------
// Stdfs: model reachable byte maps (through the specified calls), every call from each
// ---------------------------------------------------------------------------------------------
/// byte maps reachable in the model within `levels` steps, with the shortest history of each
fn model_states(ops: &[Op], levels: usize) -> Vec<(Model, Vec<usize>)> {
    let mut out: Vec<(Model, Vec<usize>)> = vec![(Model::new(), vec![])];
    let mut seen: HashMap<Model, usize> = HashMap::new();
    seen.insert(Model::new(), 0);
    let mut lo = 0;
    for _ in 0..levels {
        let hi = out.len();
        for i in lo..hi {
            let (m, h) = out[i].clone();
            for (oi, op) in ops.iter().enumerate() {
                if let Expect::Exact(m2) = model_step(&m, op) {
                    if !seen.contains_key(&m2) {
                        seen.insert(m2.clone(), out.len());
                        let mut h2 = h.clone();
                        h2.push(oi);
                        out.push((m2, h2));
                    }
                }
            }
        }
        lo = hi;
    }
    out
}

// ---------------------------------------------------------------------------------------------
// Open-handle probes: what the other calls see and do while an append() handle on the same file is
// open. The alphabet's handle calls open, write and drop in one step; here other calls are placed
// between those steps. Laws: an append never alters the existing prefix (so the old content stays
// readable and copyable while the handle is open) and lands at the end of the file as it is when the
// bytes are written through (O_APPEND semantics, two handles and appends in between included).
// ---------------------------------------------------------------------------------------------
pub fn open_handle_probes<V: VirtualFileSystem>(backend: &str, fs: &V, dir: &str) -> Vec<(String, String)> {
    let mut out = vec![];
    let f = format!("{}/probe-a", dir);
    let g = format!("{}/probe-b", dir);
    let res = catch_unwind(AssertUnwindSafe(|| -> Result<Vec<(String, String)>, String> {
        let mut v = vec![];
        let e = |x: RvError| x.to_string();
        let rd = |p: &str| -> Result<String, String> { fs.read_all(p).map_err(|x| x.to_string()) };
        for old in ["abc", "line1\n", "é"] {
            // (1) reads and copies while the handle is open and nothing was written through it
            fs.write_all(&f, old.as_bytes()).map_err(e)?;
            let _ = fs.remove(&g);
            let mut h = fs.append(&f).map_err(e)?;
            let seen = rd(&f)?;
            if seen != old {
                v.push((format!("{} append handle open · read_all no longer returns the existing content", backend), format!("write_all(f, {:?}); h = append(f); read_all(f) = {:?}", old, seen)));
            }
            fs.copy(&f, &g).map_err(e)?;
            let copied = rd(&g)?;
            if copied != old {
                v.push((format!("{} append handle open · copy of the file loses the existing content", backend), format!("write_all(f, {:?}); h = append(f); copy(f, g); read_all(g) = {:?}", old, copied)));
            }
            // (2) another append lands while the handle is open; the handle's bytes go to the end
            fs.append_all(&f, b"DEFGH").map_err(e)?;
            h.write_all(b"XY").map_err(|x| x.to_string())?;
            h.flush().map_err(|x| x.to_string())?;
            drop(h);
            let fin = rd(&f)?;
            // Memfs documents the handle as a private copy written back whole, so the intermediate append is
            // the handle's to overwrite; what may never happen is that the old prefix or the handle's bytes vanish
            let keeps_prefix = fin.starts_with(old);
            let has_xy_at_end = fin.ends_with("XY");
            if !keeps_prefix || !has_xy_at_end {
                v.push((
                    format!("{} append handle · bytes written through the handle are not at the end / the existing prefix changed", backend),
                    format!("write_all(f, {:?}); h = append(f); append_all(f, \"DEFGH\"); h.write_all(\"XY\"); flush; drop -> read_all(f) = {:?}", old, fin),
                ));
            }
        }
        // (3) two append handles at once: both sets of bytes survive at the end, in some order
        fs.write_all(&f, b"0").map_err(e)?;
        let mut h1 = fs.append(&f).map_err(e)?;
        let mut h2 = fs.append(&f).map_err(e)?;
        h1.write_all(b"aaa").map_err(|x| x.to_string())?;
        h1.flush().map_err(|x| x.to_string())?;
        drop(h1);
        h2.write_all(b"bb").map_err(|x| x.to_string())?;
        h2.flush().map_err(|x| x.to_string())?;
        drop(h2);
        let fin = rd(&f)?;
        if !fin.starts_with('0') || !fin.ends_with("bb") {
            v.push((format!("{} two append handles · the later handle's bytes are not at the end / the first byte changed", backend), format!("write_all(f, \"0\"); h1 = append(f); h2 = append(f); h1 writes \"aaa\", drop; h2 writes \"bb\", drop -> read_all(f) = {:?}", fin)));
        }
        // (5) the file's content is replaced while an append handle is open: what the handle leaves behind ends
        // with the handle's bytes and starts with one of the two contents it could have started from (its own
        // snapshot, or the replacement) - never with a mixture cut at the old length
        for (old, newc) in [("old", "REPLACED-AND-LONGER"), ("a longer old content", "new"), ("same", "SAME")] {
            fs.write_all(&f, old.as_bytes()).map_err(e)?;
            let mut h = fs.append(&f).map_err(e)?;
            fs.write_all(&f, newc.as_bytes()).map_err(e)?;
            h.write_all(b"+tail").map_err(|x| x.to_string())?;
            h.flush().map_err(|x| x.to_string())?;
            drop(h);
            let fin = rd(&f)?;
            let ok = fin.ends_with("+tail") && (fin == format!("{}+tail", old) || fin == format!("{}+tail", newc));
            if !ok {
                v.push((
                    format!("{} append handle · content replaced while the handle is open · result is a mixture", backend),
                    format!("write_all(f, {:?}); h = append(f); write_all(f, {:?}); h writes \"+tail\", flush, drop -> read_all(f) = {:?}", old, newc, fin),
                ));
            }
        }
        // (4) a handle that outlives its file: removing or moving the file while the handle is open and dropping
        // the handle afterwards does not bring the old name back (a removed file stays removed; a moved file
        // does not reappear at its source)
        for how in ["remove", "move_p"] {
            for kind in ["write", "append"] {
                let _ = fs.remove(&g);
                fs.write_all(&f, b"old").map_err(e)?;
                let mut h = if kind == "write" { fs.write(&f).map_err(e)? } else { fs.append(&f).map_err(e)? };
                h.write_all(b"new").map_err(|x| x.to_string())?;
                h.flush().map_err(|x| x.to_string())?;
                h.write_all(b"er").map_err(|x| x.to_string())?;
                if how == "remove" {
                    fs.remove(&f).map_err(e)?;
                } else {
                    fs.move_p(&f, &g).map_err(e)?;
                }
                drop(h);
                if fs.exists(&f) {
                    v.push((
                        format!("{} {} handle outliving its file · the name is back after the handle was dropped", backend, kind),
                        format!("write_all(f, \"old\"); h = {}(f); h writes; {}; drop(h) -> exists(f) = true, read_all(f) = {:?}", kind, if how == "remove" { "remove(f)" } else { "move_p(f, g)" }, rd(&f)),
                    ));
                }
            }
        }
        let _ = fs.remove(&f);
        let _ = fs.remove(&g);
        Ok(v)
    }));
    match res {
        Ok(Ok(v)) => out.extend(v),
        Ok(Err(e)) => out.push((format!("{} open-handle probe · a call failed", backend), e)),
        Err(p) => out.push((format!("{} open-handle probe · panic", backend), panic_message(&p))),
    }
    out
}

/// Size sweep: contents whose length sits on and around every power of two up to 64 KiB (and every length up
/// to 130) go through write_all / read_all, a one-line write_lines / read_lines, write + append, and a write
/// handle fed in two chunks; read back through read_all, a read handle (read_to_end) and, for the short
/// ones, a handle read one byte at a time. The bytes vary with the position, so a byte served from the
/// wrong offset shows. (the state sweeps only use contents of a few bytes)
pub fn size_sweep<V: VirtualFileSystem>(backend: &str, fs: &V, dir: &str, count: &mut u64) -> Vec<(String, String)> {
    use std::io::Read;
    let mut out: Vec<(String, String)> = vec![];
    let mut sizes: Vec<usize> = (0..=130).collect();
    for k in 8..=16 {
        let p = 1usize << k;
        sizes.extend([p - 1, p, p + 1]);
    }
    sizes.extend([8192 * 2 + 1, 8192 * 3 + 1, 8192 * 3 - 1]);
    let pat = |n: usize| -> Vec<u8> { (0..n).map(|i| b'a' + ((i * 7 + i / 13 + i / 257) % 23) as u8).collect() };
    let f = format!("{}/sz", dir);
    let mut bad = |form: &str, n: usize, what: String| {
        out.push((format!("{} size sweep · {} · content differs", backend, form), format!("content of {} bytes: {}", n, what)));
    };
    let brief = |got: &[u8], want: &[u8]| -> String {
        let i = got.iter().zip(want.iter()).position(|(a, b)| a != b).unwrap_or(got.len().min(want.len()));
        format!("{} bytes read, {} expected, first difference at offset {}", got.len(), want.len(), i)
    };
    for &n in &sizes {
        let want = pat(n);
        let text = String::from_utf8(want.clone()).unwrap();
        let _ = fs.remove(&f);
        // (1) write_all -> read_all / read handle
        *count += 1;
        match guarded(|| fs.write_all(&f, &want).and_then(|_| fs.read_all(&f))) {
            Ok(Ok(got)) if got == text => {},
            Ok(Ok(got)) => bad("write_all/read_all", n, brief(got.as_bytes(), &want)),
            Ok(Err(e)) => bad("write_all/read_all", n, format!("error {}", e)),
            Err(p) => bad("write_all/read_all", n, format!("panic {}", p)),
        }
        *count += 1;
        match guarded(|| -> Result<Vec<u8>, String> {
            let mut h = fs.read(&f).map_err(|e| e.to_string())?;
            let mut v = vec![];
            h.read_to_end(&mut v).map_err(|e| e.to_string())?;
            Ok(v)
        }) {
            Ok(Ok(got)) if got == want => {},
            Ok(Ok(got)) => bad("read handle read_to_end", n, brief(&got, &want)),
            Ok(Err(e)) => bad("read handle read_to_end", n, format!("error {}", e)),
            Err(p) => bad("read handle read_to_end", n, format!("panic {}", p)),
        }
        if n <= 70 {
            *count += 1;
            match guarded(|| -> Result<Vec<u8>, String> {
                let mut h = fs.read(&f).map_err(|e| e.to_string())?;
                let mut v = vec![];
                let mut b = [0u8; 1];
                for _ in 0..n + 2 {
                    match h.read(&mut b).map_err(|e| e.to_string())? {
                        0 => break,
                        _ => v.push(b[0]),
                    }
                }
                Ok(v)
            }) {
                Ok(Ok(got)) if got == want => {},
                Ok(Ok(got)) => bad("read handle one byte at a time", n, brief(&got, &want)),
                Ok(Err(e)) => bad("read handle one byte at a time", n, format!("error {}", e)),
                Err(p) => bad("read handle one byte at a time", n, format!("panic {}", p)),
            }
        }
        // (2) one non-empty line of n-1 characters plus the terminator (what an empty line in a line list
        // means is the business of the state sweep's model, see payload_defined)
        if n >= 2 {
            let line = text[..n - 1].to_string();
            *count += 1;
            match guarded(|| fs.write_lines(&f, &[line.clone()]).and_then(|_| fs.read_lines(&f))) {
                Ok(Ok(got)) if got == vec![line.clone()] => {},
                Ok(Ok(got)) => bad("write_lines/read_lines", n, format!("{} lines of lengths {:?} read, one line of length {} expected", got.len(), got.iter().map(|l| l.len()).take(4).collect::<Vec<_>>(), line.len())),
                Ok(Err(e)) => bad("write_lines/read_lines", n, format!("error {}", e)),
                Err(p) => bad("write_lines/read_lines", n, format!("panic {}", p)),
            }
        }
        // (3) write + append, (4) write handle in two chunks
        let (a, b) = want.split_at(n / 2);
        *count += 1;
        match guarded(|| fs.write_all(&f, a).and_then(|_| fs.append_all(&f, b)).and_then(|_| fs.read_all(&f))) {
            Ok(Ok(got)) if got == text => {},
            Ok(Ok(got)) => bad("write_all+append_all/read_all", n, brief(got.as_bytes(), &want)),
            Ok(Err(e)) => bad("write_all+append_all/read_all", n, format!("error {}", e)),
            Err(p) => bad("write_all+append_all/read_all", n, format!("panic {}", p)),
        }
        *count += 1;
        match guarded(|| -> Result<String, String> {
            {
                let mut h = fs.write(&f).map_err(|e| e.to_string())?;
                h.write_all(a).map_err(|e| e.to_string())?;
                h.flush().map_err(|e| e.to_string())?;
                h.write_all(b).map_err(|e| e.to_string())?;
            }
            fs.read_all(&f).map_err(|e| e.to_string())
        }) {
            Ok(Ok(got)) if got == text => {},
            Ok(Ok(got)) => bad("write handle in two chunks/read_all", n, brief(got.as_bytes(), &want)),
            Ok(Err(e)) => bad("write handle in two chunks/read_all", n, format!("error {}", e)),
            Err(p) => bad("write handle in two chunks/read_all", n, format!("panic {}", p)),
        }
    }
    let _ = fs.remove(&f);
    out.sort_by(|a, b| a.0.cmp(&b.0));
    out.dedup_by(|a, b| a.0 == b.0);
    out
}

pub fn worker(w: &mut WorkerCtx) {
    unsafe {
        libc::umask(0o022);
    }
    let depth: usize = w.arg(0).parse().unwrap_or(2);
    let ops = alphabet();
    let states = model_states(&ops, depth.saturating_sub(1));
    let sb = Sandbox::new("c06");
    if w.shard == 0 {
        for (sig, detail) in open_handle_probes("stdfs", &Stdfs::new(), &sb.root) {
            w.vio(&sig, || detail, || J::obj([("part", J::s("open-handle-probe"))]));
        }
        w.count("open_handle_probes", 1);
        sb.reset();
    }
    if w.shard == 1 % w.nshards {
        let mut n = 0u64;
        for (sig, detail) in size_sweep("stdfs", &Stdfs::new(), &sb.root, &mut n) {
            w.vio(&sig, || detail, || J::obj([("part", J::s("open-handle-probe"))]));
        }
        w.count("size_sweep_roundtrips", n);
        sb.reset();
    }
    let world = DiskWorld { root: sb.root.clone(), fs: Stdfs::new() };
    let nops = ops.len() as u64;
    let mut open_hits = 0u64;
    for (si, (m, hist)) in states.iter().enumerate() {
        for (oi, op) in ops.iter().enumerate() {
            let idx = si as u64 * nops + oi as u64;
            if !w.mine(idx) {
                continue;
            }
            if let Err(e) = world.materialize(&sb, m) {
                w.vio("stdfs machinery: cannot materialise a state", || e.clone(), || J::Null);
                continue;
            }
            let mut viol: Viol = vec![];
            let (out, post) = run_step(&world, m, op, &mut viol, &mut open_hits);
            w.count("stdfs_transitions", 1);
            if !out.ok {
                w.count("stdfs_failed_calls", 1);
            }
            if let Some(post) = &post {
                if out.ok && matches!(op, Op::Copy(..) | Op::MoveP(..)) {
                    alias_probe(&world, post, op, &mut viol);
                }
                if idx % 4099 == 17 {
                    w.sample(J::obj([
                        ("backend", J::s("stdfs")),
                        ("state", J::s(show_model(m))),
                        ("call", J::s(op.render())),
                        ("result", J::s(out.brief())),
                        ("contents_after", J::s(show_model(post))),
                    ]));
                }
            }
            for (sig, detail) in viol {
                let d2 = format!("from the state [{}] reached by [{}]: {}", show_model(m), history_text(&ops, hist), detail);
                let c = case_json("stdfs", &ops, hist, oi);
                w.vio(&sig, move || d2, move || c);
            }
        }
    }
    w.count("stdfs_states", if w.shard == 0 { states.len() as u64 } else { 0 });
    w.count("stdfs_open_adopted", open_hits);
    let _ = std::env::set_current_dir("/");
}

// ---------------------------------------------------------------------------------------------
// Driver
// ---------------------------------------------------------------------------------------------
pub fn run(ctx: &Ctx) -> i32 {
    quiet_panics();
    if let Some(p) = &ctx.replay {
        return replay(ctx, p);
    }
    {
        let fs = Memfs::new();
        let _ = fs.mkdir_p("/d");
        for (sig, detail) in open_handle_probes("memfs", &fs, "/d") {
            vio(&sig, || detail, || J::obj([("part", J::s("open-handle-probe"))]));
        }
    }
    let mut size_sweep_n = 0u64;
    {
        let fs = Memfs::new();
        let _ = fs.mkdir_p("/d");
        for (sig, detail) in size_sweep("memfs", &fs, "/d", &mut size_sweep_n) {
            vio(&sig, || detail, || J::obj([("part", J::s("open-handle-probe"))]));
        }
    }
    let ops = Arc::new(alphabet());
    let depth = ctx.tier.pick(4usize, 5usize);
    let sdepth = ctx.tier.pick(3usize, 4usize);
    let mem = explore_memfs(ctx, &ops, depth);
    println!(
        "  memfs: depth {} over {} calls: {} distinct states (per level {:?}), {} transitions, {} open-effect steps adopted, {} successors not expanded after a violation",
        depth,
        ops.len(),
        mem.states,
        mem.per_level,
        mem.transitions,
        mem.open_adopted,
        mem.not_expanded_after_violation
    );

    let mut g = Gathered::default();
    workers::run_workers(ctx, &Launch { name: "c06".into(), nshards: ctx.threads.max(1) as u64, extra: vec![sdepth.to_string()], uid: None, env: None }, &mut g);
    if !g.failed.is_empty() {
        for f in &g.failed {
            eprintln!("machinery: {}", f);
        }
        return 2;
    }
    println!("  stdfs: depth {}: {} model states materialised, {} transitions", sdepth, g.c("stdfs_states"), g.c("stdfs_transitions"));
    let expect_std = g.c("stdfs_states") * ops.len() as u64;
    if g.c("size_sweep_roundtrips") == 0 {
        eprintln!("machinery: the Stdfs size sweep did not run");
        return 2;
    }
    if g.c("stdfs_transitions") != expect_std {
        eprintln!("machinery: stdfs workers executed {} transitions, expected {}", g.c("stdfs_transitions"), expect_std);
        return 2;
    }

    let nops = ops.len() as u64;
    let histories: u64 = (1..=depth as u32).map(|k| nops.saturating_pow(k)).sum();
    let mut samples = mem.samples.clone();
    samples.extend(g.samples.iter().cloned());
    let cov = J::obj([
        ("states", J::i(mem.states + g.c("stdfs_states"))),
        ("transitions", J::i(mem.transitions + g.c("stdfs_transitions"))),
        ("traces_validated_against_impl", J::i(mem.transitions + g.c("stdfs_transitions"))),
        ("samples", J::Arr(samples)),
        ("exhaustive", J::Bool(mem.not_expanded_after_violation == 0)),
        ("size_sweep", J::s(format!("contents of every length 0..=130 and 2^k-1, 2^k, 2^k+1 for k = 8..=16 (plus 3 multiples of 8 KiB +-1) through write_all, a one-line write_lines, write+append and a two-chunk write handle, read back through read_all, read_lines, a read handle and byte-wise reads, on both backends: {} round trips", size_sweep_n + g.c("size_sweep_roundtrips")))),
        ("alphabet_calls", J::i(nops)),
        (
            "memfs",
            J::obj([
                ("history_depth", J::i(depth as i64)),
                ("histories_covered_up_to_depth", J::i(histories)),
                ("distinct_states", J::i(mem.states)),
                ("distinct_states_per_level", J::arr(mem.per_level.iter().map(|&x| J::i(x)))),
                ("expanded_states", J::i(mem.expanded)),
                ("transitions", J::i(mem.transitions)),
                ("failed_calls", J::i(mem.failed_calls)),
                ("steps_with_effect_left_open_by_docs_adopted", J::i(mem.open_adopted)),
                ("successors_not_expanded_after_violation", J::i(mem.not_expanded_after_violation)),
                ("longest_content_bytes", J::i(mem.max_len)),
                ("distinct_long_values", J::i(mem.distinct_long_values)),
            ]),
        ),
        (
            "stdfs",
            J::obj([
                ("history_depth", J::i(sdepth as i64)),
                ("model_states_materialised", J::i(g.c("stdfs_states"))),
                ("transitions", J::i(g.c("stdfs_transitions"))),
                ("failed_calls", J::i(g.c("stdfs_failed_calls"))),
                ("steps_with_effect_left_open_by_docs", J::i(g.c("stdfs_open_adopted"))),
            ]),
        ),
        (
            "bounds",
            J::s(format!(
                "two files /d/a, /d/b in one directory; {} calls (write_all/append_all x 9 data values incl. empty, multi-byte, newline, CRLF, doubled and trailing bare CR, invalid UTF-8 and 5000 bytes; write_lines/append_lines x 5 line lists; append_line x 5; 6 write()-handle and 5 append()-handle chunk/flush schedules; remove; copy and move_p both ways); Memfs: all histories of length <= {}; Stdfs: all calls from every byte map the model reaches in < {} specified steps",
                nops, depth, sdepth
            )),
        ),
        (
            "cut",
            J::s("no state is cut on Memfs: the history depth is the only bound (contents therefore stay <= depth x 5001 bytes); states are merged when their complete dumps are equal. On Stdfs successors of calls whose effect the docs leave open (line helpers with an empty list / empty line / embedded terminator) are checked but not expanded, and states are byte maps materialised with std::fs"),
        ),
        ("explanation", J::s("after every step: stored bytes (dump / std::fs::read) of both files == byte-vector model; read_all / read / read_lines / exists / is_file of both files == stored bytes; write_lines->read_lines round trip; after each successful copy / move_p an alias probe (write one side, observe the other)")),
    ]);
    finish(ctx, Evidence {
        level: "model_checking",
        coverage: cov,
        assumptions: vec![
            "model: a write replaces, an append extends and keeps the prefix, line helpers add one newline per line for non-empty lines without terminators; for empty lists / empty lines / embedded terminators only: no panic, other file untouched, an append keeps the existing prefix, reads == stored bytes".into(),
            "read_lines reference = pieces between '\\n' (a trailing terminator opens no extra line); whether '\\r\\n' is one terminator is left open; invalid UTF-8 must make read_all and read_lines fail".into(),
            "remove of a missing file may succeed or fail but changes nothing; copy / move_p of a missing source must fail and change nothing".into(),
            "two Memfs values with equal complete dumps have equal futures (state merging)".into(),
            "Stdfs observed on Linux tmpfs, umask 022, euid of the harness".into(),
        ],
    })
}

// ---------------------------------------------------------------------------------------------
// Replay
// ---------------------------------------------------------------------------------------------
fn replay(ctx: &Ctx, p: &std::path::Path) -> i32 {
    let j = json::parse(&std::fs::read_to_string(p).expect("read replay")).expect("parse replay");
    let case = j.get("case").expect("case");
    if case.get("part").and_then(|x| x.as_str()) == Some("open-handle-probe") {
        let fs = Memfs::new();
        let _ = fs.mkdir_p("/d");
        let mut found = open_handle_probes("memfs", &fs, "/d");
        let mut n = 0u64;
        found.extend(size_sweep("memfs", &fs, "/d", &mut n));
        if unsafe { libc::geteuid() } == 0 {
            let sb = Sandbox::new("c06probe");
            found.extend(open_handle_probes("stdfs", &Stdfs::new(), &sb.root));
            sb.reset();
            found.extend(size_sweep("stdfs", &Stdfs::new(), &sb.root, &mut n));
        }
        for (sig, detail) in &found {
            println!("  {}: {}", sig, detail);
        }
        if found.is_empty() {
            println!("holds on this case");
            return 0;
        }
        println!("VIOLATION property={} replay={}", ctx.prop, p.display());
        return 1;
    }
    let backend = case.get("backend").and_then(|x| x.as_str()).unwrap_or("memfs").to_string();
    let ops = alphabet();
    let hist: Vec<usize> = case.get("history_idx").and_then(|x| x.as_arr()).map(|a| a.iter().filter_map(|x| x.as_i64()).map(|x| x as usize).collect()).unwrap_or_default();
    let call = case.get("call_idx").and_then(|x| x.as_i64()).expect("call_idx") as usize;
    println!("replay {} backend {}", ctx.prop, backend);
    let mut viol: Viol = vec![];
    let mut open = 0u64;
    let mut step = |w: &dyn World, pre: &Model, op: &Op, viol: &mut Viol| -> Option<Model> {
        let (out, post) = run_step(w, pre, op, viol, &mut open);
        println!("  {} -> {}", op.render(), out.brief());
        println!("    model before : {}", show_model(pre));
        println!("    model expects: {:?}", match model_step(pre, op) {
            Expect::Exact(m) => show_model(&m),
            other => format!("{:?}", other),
        });
        println!("    stored after : {}", w.stored().map(|m| show_model(&m)).unwrap_or_else(|e| format!("<{}>", e)));
        if let Some(post) = &post {
            if out.ok && matches!(op, Op::Copy(..) | Op::MoveP(..)) {
                // probe on the same world only for the final call (it mutates)
                let _ = post;
            }
        }
        post
    };
    if backend == "stdfs" {
        unsafe {
            libc::umask(0o022);
        }
        let sb = Sandbox::new("c06r");
        let world = DiskWorld { root: sb.root.clone(), fs: Stdfs::new() };
        // the state is the byte map the model reaches through the recorded history
        let mut m = Model::new();
        for &i in &hist {
            if let Expect::Exact(m2) = model_step(&m, &ops[i]) {
                m = m2;
            }
        }
        println!("  state materialised with std::fs: {}", show_model(&m));
        world.materialize(&sb, &m).expect("materialise");
        if let Some(post) = step(&world, &m, &ops[call], &mut viol) {
            alias_probe(&world, &post, &ops[call], &mut viol);
        }
        let _ = std::env::set_current_dir("/");
    } else {
        let world = MemWorld::fresh();
        let mut m = Model::new();
        let mut alive = true;
        for &i in &hist {
            match step(&world, &m, &ops[i], &mut viol) {
                Some(m2) => m = m2,
                None => {
                    alive = false;
                    break;
                },
            }
        }
        if alive {
            if let Some(post) = step(&world, &m, &ops[call], &mut viol) {
                alias_probe(&world, &post, &ops[call], &mut viol);
            }
        }
    }
    if viol.is_empty() {
        println!("holds on this case");
        0
    } else {
        for (sig, d) in &viol {
            println!("  DISCREPANCY [{}]: {}", sig, d);
        }
        println!("VIOLATION property={} replay={}", ctx.prop, p.display());
        1
    }
}

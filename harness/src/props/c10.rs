//! C10 Symlinks record their target faithfully and are never mistaken for the target.
//!
//! Bounded exhaustive exploration of the real code (level model_checking):
//!   state      = (tree, link position L, target position T, target kind, spelling) configuration
//!                reached by running `symlink(L, spelled T)` on a freshly built filesystem
//!   transition = one rivia call executed from (a fresh copy of) such a state
//! Worlds: Memfs rooted at "/" (threads), and - inside single threaded worker processes - Stdfs on
//! a private tmpfs sandbox plus a Memfs holding the SAME absolute paths.
//!
//! Oracle (written from the property statement and the trait docs, not from rivia's control flow):
//!   symlink returns Ok(L); readlink_abs(L) == abs(T) (lexical); readlink(L) relative and
//!   go_clean(dir(L)/readlink(L)) == readlink_abs(L); is_symlink && !is_file && !is_dir;
//!   is_symlink_dir/file == kind of T at creation (dir -> (true,false), file -> (false,true),
//!   link-to-file -> is_symlink_dir must be false (is_symlink_file may be either: "the kind the
//!   target has" is a link, what following gives is a file), missing/cyclic -> unspecified);
//!   std::fs::read_link agrees lexically; remove/chmod/chown on L never alter T (nor anything
//!   else but L); remove(L) is Ok and L is gone; readlink*/non-link -> Err; entry.follow laws;
//!   symlink over an existing link: Err + unchanged or Ok + retargeted.
use crate::common::json::J;
use crate::common::par::*;
use crate::common::report::*;
use crate::engines::sandbox::Sandbox;
use crate::engines::workers::{self, Gathered, Launch, WorkerCtx};
use crate::models::go_clean::go_clean;
use crate::models::tree::{self, base_of, depth_of, is_under, parent_of, ref_relative, reroot, Node, Tree};
use rivia::prelude::*;
use std::collections::{BTreeMap, BTreeSet};
use std::os::unix::fs::{MetadataExt, PermissionsExt};
use std::panic::{catch_unwind, AssertUnwindSafe};
use std::sync::Mutex;

// ---------------------------------------------------------------------------------------------
// Case space
// ---------------------------------------------------------------------------------------------
#[derive(Clone, Copy, Debug, PartialEq, Eq, PartialOrd, Ord)]
pub enum TK {
    File,
    Dir,
    Link,
    /// a link to a directory (chain link -> link -> dir)
    LinkDir,
    Missing,
    /// T == L or T below L: necessarily missing at creation and resolving it walks through L
    Cyclic,
}

impl TK {
    fn name(&self) -> &'static str {
        match self {
            TK::File => "file",
            TK::Dir => "dir",
            TK::Link => "link>file",
            TK::LinkDir => "link>dir",
            TK::Missing => "missing",
            TK::Cyclic => "self/below-link",
        }
    }
    /// coarse label used in signatures: a target that is the link itself or lies below it is just
    /// another target that is missing at creation
    fn sig_name(&self) -> &'static str {
        match self {
            TK::Cyclic => "missing",
            k => k.name(),
        }
    }
    fn parse(s: &str) -> Option<TK> {
        [TK::File, TK::Dir, TK::Link, TK::LinkDir, TK::Missing, TK::Cyclic].into_iter().find(|k| k.name() == s)
    }
}

#[derive(Clone, Debug)]
pub struct Group {
    pub l: String,
    pub t: String,
    pub kind: TK,
}

pub const NAMES: [&str; 2] = ["a", "ab"]; // one name is a textual prefix of the other on purpose
pub const SPELLINGS: [&str; 7] = ["abs", "rel", "rel-dot", "abs-dslash", "abs-dot", "rel-updown", "abs-var"];

/// the variable spelling writes the last component of the target as ${RVMC_C10_<name>}
fn set_spelling_env() {
    for n in NAMES {
        std::env::set_var(format!("RVMC_C10_{}", n), n);
    }
}
const ZF: &str = "/zf";
const ZD: &str = "/zd";
const ZM: &str = "/zm";

pub fn depth_for(tier: Tier) -> usize {
    tier.pick(3, 5)
}

/// all (L, T, kind) configurations that can exist, simplest first
pub fn groups(depth: usize) -> Vec<Group> {
    let pos = tree::namespace(&NAMES, depth);
    let mut targets = vec!["/".to_string()];
    targets.extend(pos.iter().cloned());
    let mut out = vec![];
    for l in &pos {
        for t in &targets {
            let kinds: Vec<TK> = if t == l || (is_under(t, l) && t != "/") {
                vec![TK::Cyclic]
            } else if t == "/" || is_under(l, t) {
                vec![TK::Dir] // root or a proper ancestor of the link: exists as a directory
            } else {
                vec![TK::File, TK::Dir, TK::Link, TK::LinkDir, TK::Missing]
            };
            for k in kinds {
                out.push(Group { l: l.clone(), t: t.clone(), kind: k });
            }
        }
    }
    out.sort_by(|a, b| {
        (depth_of(&a.l) + depth_of(&a.t), depth_of(&a.l), a.kind, &a.l, &a.t).cmp(&(depth_of(&b.l) + depth_of(&b.t), depth_of(&b.l), b.kind, &b.l, &b.t))
    });
    out
}

/// the pre-state: ancestors of L as directories, the target of the requested kind, and three fixed
/// bystanders outside the namespace: /zf (file), /zd (dir, also the cwd), /zm (never exists)
pub fn pre_tree(g: &Group) -> Tree {
    let mut t = Tree::new();
    fn dirs_to(t: &mut Tree, p: &str) {
        let mut cur = parent_of(p);
        while cur != "/" {
            t.insert(&cur, Node::dir());
            cur = parent_of(&cur);
        }
    }
    t.insert(ZF, Node::file(b"zf"));
    t.insert(ZD, Node::dir());
    dirs_to(&mut t, &g.l);
    match g.kind {
        TK::File => {
            dirs_to(&mut t, &g.t);
            t.insert(&g.t, Node::file(b"tgt"));
        },
        TK::Dir => {
            if g.t != "/" {
                dirs_to(&mut t, &g.t);
                t.insert(&g.t, Node::dir());
            }
        },
        TK::Link => {
            dirs_to(&mut t, &g.t);
            t.insert(&g.t, Node::link(ZF));
        },
        TK::LinkDir => {
            dirs_to(&mut t, &g.t);
            t.insert(&g.t, Node::link(ZD));
        },
        TK::Missing | TK::Cyclic => {},
    }
    assert!(t.well_formed() && !t.nodes.contains_key(&g.l), "machinery: bad pre tree for {:?}", g);
    t
}

/// the spelled target argument; `abs_l`, `abs_t` absolute clean
pub fn spell(sp: usize, abs_l: &str, abs_t: &str) -> String {
    let rel = {
        let r = ref_relative(abs_t, &parent_of(abs_l));
        if r.is_empty() {
            ".".to_string()
        } else {
            r
        }
    };
    let cut = abs_t.rfind('/').unwrap();
    let arg = match sp {
        0 => abs_t.to_string(),
        1 => rel,
        2 => format!("./{}", rel),
        3 => format!("{}//{}", &abs_t[..cut], &abs_t[cut + 1..]),
        4 => format!("{}/./{}", &abs_t[..cut], &abs_t[cut + 1..]),
        5 => format!("x/../{}", rel),
        // abs() expands variables before it cleans: the recorded target is the expanded one
        6 if NAMES.contains(&&abs_t[cut + 1..]) => format!("{}/${{RVMC_C10_{}}}", &abs_t[..cut], &abs_t[cut + 1..]),
        6 => abs_t.to_string(),
        _ => panic!("machinery: spelling index"),
    };
    // self check of the reference: every spelling denotes abs_t lexically
    let expanded = NAMES.iter().fold(arg.clone(), |acc, n| acc.replace(&format!("${{RVMC_C10_{}}}", n), n));
    let denotes = if expanded.starts_with('/') { go_clean(&expanded) } else { go_clean(&format!("{}/{}", parent_of(abs_l), expanded)) };
    assert_eq!(denotes, abs_t, "machinery: spelling {} of {} from {} is {:?}", sp, abs_t, abs_l, arg);
    arg
}

// ---------------------------------------------------------------------------------------------
// Observation: complete state as a sorted map (Memfs: dump hook; disk: std::fs only)
// ---------------------------------------------------------------------------------------------
#[derive(Clone, Debug, PartialEq, Eq)]
pub struct ONode {
    desc: String,
    children: Option<Vec<String>>,
}
pub type Obs = BTreeMap<String, ONode>;

fn obs_mem(fs: &Memfs) -> Obs {
    let d = fs.verif_dump();
    let mut m = Obs::new();
    m.insert("\0meta".into(), ONode { desc: format!("cwd={} root={} poisoned={}", d.cwd, d.root, d.poisoned), children: None });
    for e in &d.entries {
        let mut e2 = e.clone();
        let ch = e2.children.take();
        m.insert(e.key.clone(), ONode { desc: format!("{:?}", e2), children: ch });
    }
    for f in &d.files {
        let n = m.entry(f.key.clone()).or_insert(ONode { desc: "<data without entry>".into(), children: None });
        n.desc.push_str(&format!(" {:?}", f));
    }
    m
}

fn obs_disk(root: &str) -> Obs {
    let mut m = Obs::new();
    fn rec(p: &str, m: &mut Obs) {
        let md = match std::fs::symlink_metadata(p) {
            Ok(x) => x,
            Err(e) => {
                m.insert(p.to_string(), ONode { desc: format!("<unreadable {}>", e), children: None });
                return;
            },
        };
        let own = format!("mode={:o} uid={} gid={}", md.permissions().mode() & 0o7777, md.uid(), md.gid());
        if md.file_type().is_symlink() {
            let text = std::fs::read_link(p).map(|x| x.to_string_lossy().into_owned()).unwrap_or_else(|e| format!("<{}>", e));
            m.insert(p.to_string(), ONode { desc: format!("link text={:?} uid={} gid={}", text, md.uid(), md.gid()), children: None });
        } else if md.is_dir() {
            m.insert(p.to_string(), ONode { desc: format!("dir {}", own), children: None });
            let mut names: Vec<String> = match std::fs::read_dir(p) {
                Ok(rd) => rd.flatten().map(|e| e.file_name().to_string_lossy().into_owned()).collect(),
                Err(_) => vec![],
            };
            names.sort();
            for n in names {
                rec(&format!("{}/{}", p, n), m);
            }
        } else {
            let data = std::fs::read(p).unwrap_or_default();
            m.insert(p.to_string(), ONode { desc: format!("file {:?} {}", crate::common::json::bytes_repr(&data), own), children: None });
        }
    }
    rec(root, &mut m);
    m
}

/// the observation with the link entry itself (and its name in the parent's child list) removed
fn without(o: &Obs, abs_l: &str) -> Obs {
    let mut o = o.clone();
    o.remove(abs_l);
    if let Some(p) = o.get_mut(&parent_of(abs_l)) {
        if let Some(ch) = p.children.as_mut() {
            ch.retain(|x| x != base_of(abs_l));
        }
    }
    o
}

/// first difference between two observations: (key, before, after)
fn diff(a: &Obs, b: &Obs) -> Option<(String, String, String)> {
    let keys: BTreeSet<&String> = a.keys().chain(b.keys()).collect();
    for k in keys {
        let (x, y) = (a.get(k), b.get(k));
        if x != y {
            let r = |n: Option<&ONode>| n.map(|n| format!("{} children={:?}", n.desc, n.children)).unwrap_or_else(|| "<absent>".into());
            return Some((k.clone(), r(x), r(y)));
        }
    }
    None
}

// ---------------------------------------------------------------------------------------------
// Worlds
// ---------------------------------------------------------------------------------------------
pub trait World {
    type V: VirtualFileSystem;
    fn label(&self) -> &'static str;
    fn is_disk(&self) -> bool;
    /// coordinate prefix: "/" or the sandbox root
    fn prefix(&self) -> String;
    /// build a fresh filesystem holding `tree` (un-rooted keys) with cwd = prefix + /zd
    fn build_s0(&mut self, tree: &Tree) -> Result<(), String>;
    fn fs(&self) -> &Self::V;
    fn observe(&self) -> Obs;
    /// remember the current state (S1, the state right after the symlink call)
    fn checkpoint(&mut self, abs_l: &str);
    /// make a fresh copy of the remembered state current
    fn restore(&mut self) -> Result<(), String>;
}

pub struct MemWorld {
    prefix: String,
    cur: Memfs,
    s1: Option<Memfs>,
}

impl MemWorld {
    pub fn new(prefix: &str) -> MemWorld {
        MemWorld { prefix: prefix.to_string(), cur: Memfs::new(), s1: None }
    }
}

impl World for MemWorld {
    type V = Memfs;
    fn label(&self) -> &'static str {
        "memfs"
    }
    fn is_disk(&self) -> bool {
        false
    }
    fn prefix(&self) -> String {
        self.prefix.clone()
    }
    fn build_s0(&mut self, tree: &Tree) -> Result<(), String> {
        self.s1 = None;
        self.cur = tree::materialize_memfs(tree, &self.prefix)?;
        self.cur.set_cwd(reroot(&self.prefix, ZD)).map_err(|e| e.to_string())?;
        Ok(())
    }
    fn fs(&self) -> &Memfs {
        &self.cur
    }
    fn observe(&self) -> Obs {
        obs_mem(&self.cur)
    }
    fn checkpoint(&mut self, _abs_l: &str) {
        self.s1 = Some(self.cur.verif_deep_clone());
    }
    fn restore(&mut self) -> Result<(), String> {
        match &self.s1 {
            Some(s) => {
                self.cur = s.verif_deep_clone();
                Ok(())
            },
            None => Err("no checkpoint".into()),
        }
    }
}

pub struct DiskWorld<'a> {
    sb: &'a Sandbox,
    fs: Stdfs,
    tree: Tree,
    link: Option<(String, String)>,
}

impl<'a> DiskWorld<'a> {
    pub fn new(sb: &'a Sandbox) -> DiskWorld<'a> {
        DiskWorld { sb, fs: Stdfs::new(), tree: Tree::new(), link: None }
    }
    fn lay_down(&self) -> Result<(), String> {
        self.sb.reset();
        tree::materialize_disk(&self.tree, &self.sb.root).map_err(|e| format!("materialize_disk: {}", e))?;
        if let Some((l, text)) = &self.link {
            std::os::unix::fs::symlink(text, l).map_err(|e| format!("re-create link: {}", e))?;
        }
        std::env::set_current_dir(reroot(&self.sb.root, ZD)).map_err(|e| format!("chdir: {}", e))
    }
}

impl<'a> World for DiskWorld<'a> {
    type V = Stdfs;
    fn label(&self) -> &'static str {
        "stdfs"
    }
    fn is_disk(&self) -> bool {
        true
    }
    fn prefix(&self) -> String {
        self.sb.root.clone()
    }
    fn build_s0(&mut self, tree: &Tree) -> Result<(), String> {
        self.tree = tree.clone();
        self.link = None;
        self.lay_down()
    }
    fn fs(&self) -> &Stdfs {
        &self.fs
    }
    fn observe(&self) -> Obs {
        obs_disk(&self.sb.root)
    }
    fn checkpoint(&mut self, abs_l: &str) {
        self.link = std::fs::read_link(abs_l).ok().map(|t| (abs_l.to_string(), t.to_string_lossy().into_owned()));
    }
    fn restore(&mut self) -> Result<(), String> {
        self.lay_down()
    }
}

// ---------------------------------------------------------------------------------------------
// The check of one configuration
// ---------------------------------------------------------------------------------------------
#[derive(Default, Clone, Debug)]
pub struct Stats {
    pub states: u64,
    pub calls: u64,
    pub traces: u64,
    pub entry_unavailable: u64,
    pub readlink_text: BTreeMap<String, u64>,
}

impl Stats {
    fn merge(&mut self, o: &Stats) {
        self.states += o.states;
        self.calls += o.calls;
        self.traces += o.traces;
        self.entry_unavailable += o.entry_unavailable;
    }
}

/// one discrepancy: (operation, discrepancy class, human readable detail)
pub struct Finding {
    op: String,
    disc: String,
    detail: String,
}

struct Run<'s> {
    st: &'s mut Stats,
    out: Vec<Finding>,
    ctx: String,
    /// discrepancies of the link-level facts already reported for S1 itself; the re-evaluation of
    /// the same facts after a follow-up call only reports what is new
    s1_discs: BTreeSet<String>,
}

impl<'s> Run<'s> {
    fn bad(&mut self, op: &str, disc: &str, detail: String) {
        if op.ends_with("then query") && op != "symlink then query" && self.s1_discs.contains(disc) {
            return;
        }
        let d = format!("{} :: {} - {}: {}", self.ctx, op, disc, detail);
        self.out.push(Finding { op: op.to_string(), disc: disc.to_string(), detail: d });
    }
    /// run one rivia call under catch_unwind; a panic is a finding and yields None
    fn call<R>(&mut self, op: &str, f: impl FnOnce() -> R) -> Option<R> {
        self.st.calls += 1;
        match catch_unwind(AssertUnwindSafe(f)) {
            Ok(r) => Some(r),
            Err(e) => {
                let m = panic_message(&e);
                self.bad(op, "panic", m);
                None
            },
        }
    }
}

fn ps(p: &Path) -> String {
    p.to_string_lossy().into_owned()
}

fn res_str(r: &RvResult<PathBuf>) -> String {
    match r {
        Ok(p) => format!("Ok({:?})", ps(p)),
        Err(e) => format!("Err({})", e),
    }
}

/// expected (is_symlink_dir, is_symlink_file); None = unspecified
fn kind_flags(k: TK) -> (Option<bool>, Option<bool>) {
    match k {
        TK::Dir => (Some(true), Some(false)),
        TK::File => (Some(false), Some(true)),
        TK::Link => (Some(false), None),
        // a link to a link to a directory points to a directory: the trait docs say the query checks
        // "the path itself and what it points to", and both backends follow the chain
        TK::LinkDir => (Some(true), None),
        TK::Missing | TK::Cyclic => (None, None),
    }
}

/// the link-level facts of the statement, evaluated on the current state
fn check_link_facts<W: World>(w: &W, r: &mut Run, op: &str, abs_l: &str, abs_t: &str, kind: TK) {
    let fs = w.fs();
    let dir_l = parent_of(abs_l);
    let ra = r.call(op, || fs.readlink_abs(abs_l));
    if let Some(ra) = &ra {
        match ra {
            Ok(p) if ps(p) == abs_t => {},
            _ => r.bad(op, "readlink_abs != abs(target)", format!("readlink_abs({}) = {}, expected Ok({:?})", abs_l, res_str(ra), abs_t)),
        }
    }
    if let Some(rl) = r.call(op, || fs.readlink(abs_l)) {
        match &rl {
            Err(e) => r.bad(op, "readlink returns Err", format!("readlink({}) = Err({})", abs_l, e)),
            Ok(p) => {
                let text = ps(p);
                let want = match &ra {
                    Some(Ok(x)) => ps(x),
                    _ => abs_t.to_string(),
                };
                if p.is_absolute() || text.starts_with('/') {
                    r.bad(op, "readlink result is not a relative path", format!("readlink({}) = {:?} (readlink_abs gives {:?})", abs_l, text, want));
                } else {
                    let nav = go_clean(&format!("{}/{}", dir_l, text));
                    if nav != want {
                        r.bad(op, "clean(dir(link)/readlink) != readlink_abs", format!("readlink({}) = {:?}; clean({}/{}) = {:?} but readlink_abs gives {:?}", abs_l, text, dir_l, text, nav, want));
                    }
                }
            },
        }
    }
    let q = |r: &mut Run, name: &str, v: Option<bool>, want: Option<bool>, why: &str| {
        if let (Some(v), Some(want)) = (v, want) {
            if v != want {
                r.bad(op, &format!("{} is {}", name, v), format!("{}({}) = {}, expected {} ({})", name, abs_l, v, want, why));
            }
        }
    };
    let v = r.call(op, || fs.is_symlink(abs_l));
    q(r, "is_symlink", v, Some(true), "it is a link");
    let v = r.call(op, || fs.is_file(abs_l));
    q(r, "is_file", v, Some(false), "link exclusion");
    let v = r.call(op, || fs.is_dir(abs_l));
    q(r, "is_dir", v, Some(false), "link exclusion");
    // the same three answers for unclean spellings of the link's own path: every method resolves its argument
    // lexically first, so a trailing separator or '/.' must not make the query look through the link
    for suffix in ["/", "/.", "//"] {
        let spelled = format!("{}{}", abs_l, suffix);
        let v = r.call(op, || fs.is_symlink(&spelled));
        q(r, &format!("is_symlink[link{}]", suffix), v, Some(true), "it is a link, whatever the spelling");
        let v = r.call(op, || fs.is_file(&spelled));
        q(r, &format!("is_file[link{}]", suffix), v, Some(false), "link exclusion, whatever the spelling");
        let v = r.call(op, || fs.is_dir(&spelled));
        q(r, &format!("is_dir[link{}]", suffix), v, Some(false), "link exclusion, whatever the spelling");
    }
    // the kind flags speak about the recorded target: judge them only when the recording is right
    let recorded_ok = matches!(&ra, Some(Ok(p)) if ps(p) == abs_t);
    let (wd, wf) = if recorded_ok { kind_flags(kind) } else { (None, None) };
    let v = r.call(op, || fs.is_symlink_dir(abs_l));
    q(r, "is_symlink_dir", v, wd, "kind of the target at creation, target unchanged");
    let v = r.call(op, || fs.is_symlink_file(abs_l));
    q(r, "is_symlink_file", v, wf, "kind of the target at creation, target unchanged");
}

fn check_entry_laws<W: World>(w: &W, r: &mut Run, abs_l: &str, abs_t: &str, kind: TK, nonlinks: &[String]) {
    let fs = w.fs();
    let op = "entry(link).follow";
    if let Some(e) = r.call(op, || fs.entry(abs_l)) {
        match e {
            Err(err) => {
                if matches!(kind, TK::Missing | TK::Cyclic) {
                    r.st.entry_unavailable += 1; // statement does not promise an entry for a dangling link
                } else {
                    r.bad(op, "entry(link) returns Err", format!("entry({}) = Err({})", abs_l, err));
                }
            },
            Ok(e) => {
                let pa = |x: &VfsEntry| (ps(x.path()), ps(x.alt()), x.following());
                let e0 = pa(&e);
                if e0.0 != abs_l || e0.1 != abs_t || e0.2 || !e.is_symlink() {
                    r.bad(op, "entry(link) path/alt/following/is_symlink wrong", format!("entry({}): path={:?} alt={:?} following={} is_symlink={}, expected path=link alt={:?} following=false is_symlink=true", abs_l, e0.0, e0.1, e0.2, e.is_symlink(), abs_t));
                }
                let (e_a, e_b) = (e.clone(), e.clone());
                if let Some(f0) = r.call(op, move || e_a.follow(false)) {
                    let x = pa(&f0);
                    if (x.0.clone(), x.1.clone()) != (e0.0.clone(), e0.1.clone()) {
                        r.bad(op, "follow(false) is not the identity", format!("entry({}).follow(false): (path,alt) {:?} -> {:?}", abs_l, (&e0.0, &e0.1), (&x.0, &x.1)));
                    }
                }
                if let Some(f1) = r.call(op, move || e_b.follow(true)) {
                    let x1 = pa(&f1);
                    if x1.0 != e0.1 || x1.1 != e0.0 || !x1.2 {
                        r.bad(op, "follow(true) does not swap path and alt", format!("entry({}) (path,alt)={:?}; after follow(true): path={:?} alt={:?} following={}", abs_l, (&e0.0, &e0.1), x1.0, x1.1, x1.2));
                    }
                    let (g_a, g_b) = (f1.clone(), f1.clone());
                    if let Some(f2) = r.call(op, move || g_a.follow(true)) {
                        let x2 = pa(&f2);
                        if x2 != x1 {
                            r.bad(op, "second follow(true) is not the identity", format!("entry({}).follow(true) = {:?}; .follow(true) again = {:?}", abs_l, x1, x2));
                        }
                    }
                    if let Some(f3) = r.call(op, move || g_b.follow(false)) {
                        let x3 = pa(&f3);
                        if (x3.0.clone(), x3.1.clone()) != (x1.0.clone(), x1.1.clone()) {
                            r.bad(op, "follow(false) is not the identity", format!("entry({}).follow(true).follow(false): {:?} -> {:?}", abs_l, x1, x3));
                        }
                        // "exactly once" whatever was asked in between: a follow(false) on the way does not re-arm the swap
                        if let Some(f4) = r.call(op, move || f3.follow(true)) {
                            let x4 = pa(&f4);
                            if (x4.0.clone(), x4.1.clone()) != (x1.0.clone(), x1.1.clone()) {
                                r.bad(op, "follow(true) after follow(true).follow(false) swaps a second time", format!("entry({}).follow(true) = {:?}; .follow(false).follow(true) = {:?}", abs_l, x1, x4));
                            }
                        }
                    }
                }
            },
        }
    }
    let op = "entry(non-link).follow";
    for p in nonlinks {
        if let Some(Ok(e)) = r.call(op, || fs.entry(p)) {
            let before = (ps(e.path()), ps(e.alt()));
            if let Some(f) = r.call(op, move || e.follow(true)) {
                let after = (ps(f.path()), ps(f.alt()));
                if before != after {
                    r.bad(op, "follow(true) on a non-link is not the identity", format!("entry({}).follow(true): {:?} -> {:?}", p, before, after));
                }
            }
        }
    }
}

/// compare a post state with a pre state, both with the link entry projected away
/// (uid, gid) of an observed node: "uid=5 gid=6" (disk observer) or "uid: 5, gid: 6" (Memfs dump)
fn owner_in_desc(desc: &str) -> Option<(u32, u32)> {
    let num = |key: &str| -> Option<u32> {
        for sep in ["=", ": "] {
            let k = format!("{}{}", key, sep);
            // the first occurrence that is not part of a longer word
            let mut from = 0;
            while let Some(i) = desc[from..].find(&k) {
                let at = from + i;
                let word_start = at == 0 || !desc.as_bytes()[at - 1].is_ascii_alphanumeric();
                if word_start {
                    let digits: String = desc[at + k.len()..].chars().take_while(|c| c.is_ascii_digit()).collect();
                    if let Ok(n) = digits.parse() {
                        return Some(n);
                    }
                }
                from = at + k.len();
            }
        }
        None
    };
    Some((num("uid")?, num("gid")?))
}

fn check_untouched(r: &mut Run, op: &str, before: &Obs, after: &Obs, abs_l: &str, abs_t: &str, what: &str) -> bool {
    match diff(&without(before, abs_l), &without(after, abs_l)) {
        None => true,
        Some((k, x, y)) => {
            let on_target = is_under(&k, abs_t) && !k.starts_with('\0');
            let disc = if on_target { "alters the target" } else { "alters an entry other than the link" };
            r.bad(op, disc, format!("{}: {} was [{}] now [{}]", what, k, x, y));
            false
        },
    }
}

/// Run one configuration (group x spelling) on world `w`; returns the findings
pub fn run_case<W: World>(w: &mut W, g: &Group, sp: usize, st: &mut Stats) -> Vec<Finding> {
    let prefix = w.prefix();
    let abs_l = reroot(&prefix, &g.l);
    let abs_t = reroot(&prefix, &g.t);
    let arg = spell(sp, &abs_l, &abs_t);
    let tree = pre_tree(g);
    let ctx = format!("[{} root={} pre-tree {{{}}} L={} T={} ({}) spelling={} arg={:?}]", w.label(), prefix, tree.render(), abs_l, abs_t, g.kind.name(), SPELLINGS[sp], arg);
    let mut r = Run { st, out: vec![], ctx, s1_discs: BTreeSet::new() };
    if let Err(e) = w.build_s0(&tree) {
        // the pre-state is built with std::fs (disk) or verified through the dump (memfs): not a C10 verdict
        panic!("machinery: cannot build pre-state for {:?}: {}", g, e);
    }
    r.st.states += 1;
    r.st.traces += 1;
    let obs0 = w.observe();

    // ---- the transition under test
    let op = "symlink";
    // the link's own path is handed over in an unclean spelling for half of the target spellings: the stored
    // target must be derived from the resolved link location, not from the argument as written
    let link_arg = {
        let cut = abs_l.rfind('/').unwrap();
        let (parent, name) = (&abs_l[..cut], &abs_l[cut + 1..]);
        match sp {
            1 => format!("{}/x/../{}", parent, name),
            3 => format!("{}//{}", parent, name),
            5 => format!("{}/./{}/", parent, name),
            _ => abs_l.to_string(),
        }
    };
    let res = match r.call(op, || w.fs().symlink(&link_arg, &arg)) {
        None => return r.out,
        Some(x) => x,
    };
    match &res {
        Err(e) => {
            r.bad(op, "returns Err", format!("symlink({}, {:?}) = Err({})", abs_l, arg, e));
            return r.out;
        },
        Ok(p) if ps(p) != abs_l => r.bad(op, "returned path != link", format!("symlink({}, {:?}) = Ok({:?})", abs_l, arg, ps(p))),
        Ok(_) => {},
    }
    let obs1 = w.observe();
    if !obs1.contains_key(&abs_l) {
        r.bad(op, "Ok but no entry at the link path", format!("symlink({}, {:?}) = Ok but nothing exists at {}", abs_l, arg, abs_l));
        return r.out;
    }
    let clean_create = check_untouched(&mut r, op, &obs0, &obs1, &abs_l, &abs_t, "symlink()");

    // ---- facts in S1
    check_link_facts(w, &mut r, "symlink then query", &abs_l, &abs_t, g.kind);
    r.s1_discs = r.out.iter().filter(|f| f.op == "symlink then query").map(|f| f.disc.clone()).collect();
    if w.is_disk() {
        match std::fs::read_link(&abs_l) {
            Err(e) => r.bad(op, "std::fs::read_link fails on the link", format!("read_link({}) = Err({})", abs_l, e)),
            Ok(t) => {
                let text = ps(&t);
                *r.st.readlink_text.entry(if text.starts_with('/') { "absolute".into() } else { "relative".into() }).or_insert(0) += 1;
                let resolved = if text.starts_with('/') { go_clean(&text) } else { go_clean(&format!("{}/{}", parent_of(&abs_l), text)) };
                if resolved != abs_t {
                    r.bad(op, "link text on disk resolves elsewhere", format!("read_link({}) = {:?} which resolves lexically to {:?}, expected {:?}", abs_l, text, resolved, abs_t));
                }
            },
        }
    }
    // non-links: ancestors of L, the bystanders, the target when it is a file or directory, a missing path
    let mut nonlinks: Vec<String> = vec![prefix.clone(), reroot(&prefix, ZF), reroot(&prefix, ZD), reroot(&prefix, ZM)];
    let mut cur = parent_of(&g.l);
    while cur != "/" {
        nonlinks.push(reroot(&prefix, &cur));
        cur = parent_of(&cur);
    }
    if matches!(g.kind, TK::File | TK::Dir) {
        nonlinks.push(abs_t.clone());
    }
    nonlinks.sort();
    nonlinks.dedup();
    for p in &nonlinks {
        let k = if *p == reroot(&prefix, ZM) {
            "missing"
        } else if *p == reroot(&prefix, ZF) || (g.kind == TK::File && *p == abs_t) {
            "file"
        } else {
            "dir"
        };
        for (name, res) in [("readlink", r.call("readlink(non-link)", || w.fs().readlink(p))), ("readlink_abs", r.call("readlink_abs(non-link)", || w.fs().readlink_abs(p)))] {
            if let Some(Ok(v)) = res {
                r.bad(&format!("{}(non-link {})", name, k), "returns Ok", format!("{}({}) = Ok({:?}) but {} is a {}", name, p, ps(&v), p, k));
            }
        }
    }
    check_entry_laws(w, &mut r, &abs_l, &abs_t, g.kind, &nonlinks);
    // queries must leave S1 alone, otherwise the follow-ups below would not start from S1
    if let Some((k, x, y)) = diff(&obs1, &w.observe()) {
        r.bad("queries", "alter the state", format!("{} was [{}] now [{}]", k, x, y));
        return r.out;
    }
    if !clean_create {
        return r.out;
    }

    // ---- follow-up transitions, each from a fresh copy of S1
    w.checkpoint(&abs_l);
    let fresh = |w: &mut W, r: &mut Run| {
        if let Err(e) = w.restore() {
            panic!("machinery: cannot restore S1: {}", e);
        }
        r.st.traces += 1;
        debug_assert!(diff(&obs1, &w.observe()).is_none());
    };

    // remove(L)
    fresh(w, &mut r);
    let op = "remove(link)";
    if let Some(res) = r.call(op, || w.fs().remove(&abs_l)) {
        let obs2 = w.observe();
        let ok = check_untouched(&mut r, op, &obs1, &obs2, &abs_l, &abs_t, "remove(link)");
        match res {
            Err(e) => r.bad(op, "returns Err", format!("remove({}) = Err({})", abs_l, e)),
            Ok(()) => {
                if obs2.contains_key(&abs_l) {
                    r.bad(op, "Ok but the link still exists", format!("remove({}) = Ok(()) but {} is still [{}]", abs_l, abs_l, obs2[&abs_l].desc));
                } else if ok {
                    if let Some((k, x, y)) = diff(&obs0, &obs2) {
                        r.bad(op, "leaves residue", format!("state before the link was made vs after its removal: {} was [{}] now [{}]", k, x, y));
                    }
                }
            },
        }
    }

    // chmod / chown without follow
    let euid = unsafe { libc::geteuid() };
    type Act<'x, V> = (&'static str, Box<dyn Fn(&V) -> RvResult<()> + 'x>);
    let acts: Vec<Act<W::V>> = vec![
        ("chmod(link,0o600)", Box::new(|fs: &W::V| fs.chmod(&abs_l, 0o600))),
        ("chmod_b(link).no_recurse().all(0o600)", Box::new(|fs: &W::V| fs.chmod_b(&abs_l)?.no_recurse().all(0o600).exec())),
        ("chown(link,5,6)", Box::new(|fs: &W::V| fs.chown(&abs_l, 5, 6))),
        ("chown_b(link).recurse(false).owner(5,6)", Box::new(|fs: &W::V| fs.chown_b(&abs_l)?.recurse(false).owner(5, 6).exec())),
    ];
    for (form, act) in &acts {
        // both forms of a call share one operation name in the signature; the detail names the form
        let op = if form.starts_with("chown") { "chown(link) without follow" } else { "chmod(link) without follow" };
        if form.starts_with("chown") && w.is_disk() && euid != 0 {
            continue;
        }
        // pre 0: straight from S1; pre 1 (chown only): the target itself already carries the requested
        // owner, the link does not (an implementation that looks at the followed path sees nothing to do)
        for pre in 0..2 {
            if pre == 1 && (!form.starts_with("chown") || g.kind == TK::Missing) {
                continue;
            }
            fresh(w, &mut r);
            let mut base = obs1.clone();
            if pre == 1 {
                // an independent step on the target path itself (a non-link), not under test here
                if w.fs().chown(&abs_t, 5, 6).is_err() {
                    continue;
                }
                base = w.observe();
                if owner_in_desc(base.get(&abs_l).map(|n| n.desc.as_str()).unwrap_or("")) == Some((5, 6)) {
                    continue;
                }
            }
            let what = if pre == 1 { format!("chown(target,5,6) then {}", form) } else { form.to_string() };
            if let Some(res) = r.call(op, || act(w.fs())) {
                let obs2 = w.observe();
                let untouched = check_untouched(&mut r, op, &base, &obs2, &abs_l, &abs_t, &what);
                if form.starts_with("chown") && res.is_ok() {
                    if let Some(n) = obs2.get(&abs_l) {
                        if owner_in_desc(&n.desc) != Some((5, 6)) {
                            r.bad(op, "Ok but the link itself does not have the requested owner", format!("{} = Ok(()) but the link {} is [{}]", what, abs_l, n.desc));
                        }
                    }
                }
                if pre == 0 && untouched && obs2.contains_key(&abs_l) {
                    // the target is unchanged, so every link-level fact must still hold
                    check_link_facts(w, &mut r, &format!("{} then query", op), &abs_l, &abs_t, g.kind);
                }
            }
        }
    }
    drop(acts);

    // chmod of the directory that holds the link, recursive by default and without follow: the link is met on
    // the way, and a target that lies outside that directory keeps its mode
    {
        let dir_l = parent_of(&abs_l);
        let top = if prefix == "/" { String::new() } else { prefix.trim_end_matches('/').to_string() };
        if dir_l.len() > top.len() && dir_l != "/" && !is_under(&abs_t, &dir_l) && !is_under(&dir_l, &abs_t) && obs1.contains_key(&abs_t) {
            type ActD<'x, V> = (&'static str, Box<dyn Fn(&V) -> RvResult<()> + 'x>);
            let acts: Vec<ActD<W::V>> = vec![
                ("chmod(dir(link), 0o750)", Box::new(|fs: &W::V| fs.chmod(&dir_l, 0o750))),
                ("chmod_b(dir(link)).all(0o700)", Box::new(|fs: &W::V| fs.chmod_b(&dir_l)?.all(0o700).exec())),
            ];
            for (form, act) in &acts {
                fresh(w, &mut r);
                let op = "chmod(dir(link)) without follow";
                if r.call(op, || act(w.fs())).is_some() {
                    let obs2 = w.observe();
                    for (k, n) in obs1.iter().filter(|(k, _)| is_under(k, &abs_t) && !k.starts_with('\0')) {
                        if obs2.get(k).map(|x| &x.desc) != Some(&n.desc) {
                            r.bad(op, "alters the target", format!("{}: {} was [{}] now [{}]", form, k, n.desc, obs2.get(k).map(|x| x.desc.as_str()).unwrap_or("<absent>")));
                            break;
                        }
                    }
                }
            }
        }
    }

    // moves: wherever the link is found afterwards, readlink and readlink_abs still describe one place
    // (what that place is after a move is C09's business; here only the law that ties the two together)
    {
        let top = if prefix == "/" { String::new() } else { prefix.trim_end_matches('/').to_string() };
        let mut moves: Vec<(String, String, String, String)> = vec![("move_p(link, link_r)".to_string(), abs_l.clone(), format!("{}_r", abs_l), format!("{}_r", abs_l))];
        let mut anc = parent_of(&abs_l);
        let mut tail = format!("/{}", base_of(&abs_l));
        let mut level = 1;
        while anc.len() > top.len() && anc != "/" {
            moves.push((format!("move_p(ancestor {} of link, .._r)", level), anc.clone(), format!("{}_r", anc), format!("{}_r{}", anc, tail)));
            tail = format!("/{}{}", base_of(&anc), tail);
            anc = parent_of(&anc);
            level += 1;
        }
        for (form, from, to, new_l) in moves {
            fresh(w, &mut r);
            let op = "link law after move_p";
            match r.call(op, || w.fs().move_p(&from, &to)) {
                Some(Ok(_)) => {},
                _ => continue,
            }
            let fs = w.fs();
            let (Some(ra), Some(rl)) = (r.call(op, || fs.readlink_abs(&new_l)), r.call(op, || fs.readlink(&new_l))) else { continue };
            match (&ra, &rl) {
                (Ok(a), Ok(t)) => {
                    let text = ps(t);
                    let nav = go_clean(&format!("{}/{}", parent_of(&new_l), text));
                    if text.starts_with('/') {
                        r.bad(op, "readlink result is not a relative path", format!("{}: readlink({}) = {:?}", form, new_l, text));
                    } else if nav != ps(a) {
                        r.bad(op, "clean(dir(link)/readlink) != readlink_abs", format!("{}: readlink({}) = {:?} navigates to {:?} but readlink_abs gives {:?}", form, new_l, text, nav, ps(a)));
                    }
                },
                _ => r.bad(op, "readlink / readlink_abs fail on the moved link", format!("{}: readlink_abs({}) = {}, readlink = {}", form, new_l, res_str(&ra), res_str(&rl))),
            }
            let v = r.call(op, || fs.is_symlink(&new_l));
            if v == Some(false) {
                r.bad(op, "is_symlink is false", format!("{}: is_symlink({}) = false", form, new_l));
            }
        }
    }

    // symlink over the existing link (second round: the link's own path in a spelling that is not clean - the
    // refusal, or the re-targeting, must not depend on how the existing link is spelled)
    let unclean_l = {
        let cut = abs_l.rfind('/').unwrap_or(0);
        // (a spelling whose std::path components differ from the clean path's: '.' and doubled separators vanish in
        // component-wise comparison, a 'name/..' detour does not)
        format!("{}/zz/../{}", &abs_l[..cut], &abs_l[cut + 1..])
    };
    for (t2, k2, l_arg) in [(ZF, TK::File, &abs_l), (ZD, TK::Dir, &abs_l), (ZM, TK::Missing, &abs_l), (ZF, TK::File, &unclean_l), (ZD, TK::Dir, &unclean_l), (ZM, TK::Missing, &unclean_l)] {
        fresh(w, &mut r);
        let abs_t2 = reroot(&prefix, t2);
        let op = "symlink over existing link";
        if let Some(res) = r.call(op, || w.fs().symlink(l_arg, &abs_t2)) {
            let obs2 = w.observe();
            match res {
                Err(_) => {
                    if let Some((k, x, y)) = diff(&obs1, &obs2) {
                        r.bad(op, "Err but state changed", format!("symlink({}, {}) = Err; {} was [{}] now [{}]", abs_l, abs_t2, k, x, y));
                    }
                },
                Ok(_) => {
                    let now = r.call(op, || w.fs().readlink_abs(&abs_l));
                    match &now {
                        Some(Ok(p)) if ps(p) == abs_t2 => {
                            check_untouched(&mut r, op, &obs1, &obs2, &abs_l, &abs_t, "re-symlink");
                            check_link_facts(w, &mut r, "symlink over existing link then query", &abs_l, &abs_t2, k2);
                        },
                        Some(other) => r.bad(op, "Ok but readlink_abs is not the new target", format!("link {} -> {} exists; symlink({}, {} ({})) = Ok but readlink_abs = {}", abs_l, abs_t, abs_l, abs_t2, k2.name(), res_str(other))),
                        None => {},
                    }
                },
            }
        }
    }
    r.out
}

// ---------------------------------------------------------------------------------------------
// Groups -> signatures
// ---------------------------------------------------------------------------------------------
pub struct Vio {
    sig: String,
    detail: String,
    case: J,
}

fn world_name<W: World>(w: &W) -> String {
    if w.is_disk() {
        "stdfs@sandbox".into()
    } else if w.prefix() == "/" {
        "memfs@/".into()
    } else {
        "memfs@sandbox".into()
    }
}

/// Run all requested spellings of one (L, T, kind) configuration. The signature is
/// `<backend> <operation> · target=<kind> · spelling=<class> · <discrepancy>`; the spelling class is
/// "any" when the same discrepancy also shows with the absolute clean spelling of the same
/// configuration (then the spelling is not what triggers it).
pub fn run_group<W: World>(w: &mut W, g: &Group, spellings: &[usize], st: &mut Stats) -> Vec<Vio> {
    let mut out = vec![];
    let mut with_abs: BTreeSet<(String, String)> = BTreeSet::new();
    for &sp in spellings {
        let fs = run_case(w, g, sp, st);
        for f in fs {
            if sp == 0 {
                with_abs.insert((f.op.clone(), f.disc.clone()));
            }
            let class = if with_abs.contains(&(f.op.clone(), f.disc.clone())) { "any" } else { SPELLINGS[sp] };
            // facts about non-links do not depend on the link under test
            let tk = if f.op.contains("(non-link") { "-" } else { g.kind.sig_name() };
            out.push(Vio {
                sig: format!("{} {} · target={} · spelling={} · {}", w.label(), f.op, tk, class, f.disc),
                detail: f.detail,
                case: J::obj([("world", J::s(world_name(w))), ("l", J::s(&g.l)), ("t", J::s(&g.t)), ("kind", J::s(g.kind.name())), ("sp", J::i(sp as i64))]),
            });
        }
    }
    out
}

const ALL_SP: [usize; 7] = [0, 1, 2, 3, 4, 5, 6];

/// "non-trivial" pair: the relative navigation from dir(L) to T needs a ".." or more than one
/// component, i.e. the link is NOT next to its target (the only layout the test-suite uses)
fn nontrivial(g: &Group) -> bool {
    let rel = ref_relative(&g.t, &parent_of(&g.l));
    rel.contains("..") || rel.contains('/') || rel.is_empty()
}

// ---------------------------------------------------------------------------------------------
// Worker (single threaded process): Stdfs on a sandbox + Memfs with the same absolute paths
// ---------------------------------------------------------------------------------------------
pub fn worker(w: &mut WorkerCtx) {
    unsafe {
        libc::umask(0o022);
    }
    set_spelling_env();
    let depth: usize = w.arg(0).parse().unwrap_or_else(|_| depth_for(w.tier));
    let sb = Sandbox::new("c10");
    let gs = groups(depth);
    // hang guard: the main thread bumps the heartbeat once per configuration
    let beat = std::sync::Arc::new(std::sync::atomic::AtomicU64::new(0));
    let current = std::sync::Arc::new(Mutex::new(String::new()));
    {
        let (beat, current) = (beat.clone(), current.clone());
        let limit = w.tier.pick(10u64, 30u64);
        let main_tid = crate::common::par::my_tid();
        std::thread::spawn(move || {
            let mut last = (u64::MAX, std::time::Instant::now());
            loop {
                std::thread::sleep(std::time::Duration::from_millis(500));
                let b = beat.load(std::sync::atomic::Ordering::Relaxed);
                if b != last.0 {
                    last = (b, std::time::Instant::now());
                } else if last.1.elapsed().as_secs() > limit {
                    // stuck, or only starved of CPU on a loaded machine?
                    if !crate::common::par::confirm_stuck(main_tid, std::time::Duration::from_secs(limit), &|| beat.load(std::sync::atomic::Ordering::Relaxed) == b) {
                        last = (u64::MAX, std::time::Instant::now());
                        continue;
                    }
                    let c = current.lock().map(|x| x.clone()).unwrap_or_default();
                    let v = J::obj([("sig", J::s("hang · no progress within the time limit")), ("n", J::i(1)), ("detail", J::s(format!("worker stuck for > {} s in configuration {}", limit, c))), ("case", J::s(&c))]);
                    println!("V\t{}\nDONE", v.to_string());
                    std::process::exit(0);
                }
            }
        });
    }
    let mut st_disk = Stats::default();
    let mut st_mem = Stats::default();
    for (idx, g) in gs.iter().enumerate() {
        if !w.mine(idx as u64) {
            continue;
        }
        beat.fetch_add(1, std::sync::atomic::Ordering::Relaxed);
        if let Ok(mut c) = current.lock() {
            *c = format!("{:?}", g);
        }
        let mut dw = DiskWorld::new(&sb);
        let vs = run_group(&mut dw, g, &ALL_SP, &mut st_disk);
        let mut mw = MemWorld::new(&sb.root);
        let vm = run_group(&mut mw, g, &ALL_SP, &mut st_mem);
        for v in vs.into_iter().chain(vm) {
            let Vio { sig, detail, case } = v;
            w.vio(&sig, move || detail, move || case);
        }
        if idx % 97 == 3 {
            w.sample(J::obj([("world", J::s("stdfs@sandbox")), ("l", J::s(&g.l)), ("t", J::s(&g.t)), ("kind", J::s(g.kind.name()))]));
        }
    }
    for (p, s) in [("stdfs", &st_disk), ("memfs_sb", &st_mem)] {
        w.count(&format!("{}_states", p), s.states);
        w.count(&format!("{}_calls", p), s.calls);
        w.count(&format!("{}_traces", p), s.traces);
        w.count(&format!("{}_entry_unavailable", p), s.entry_unavailable);
    }
    for (k, n) in &st_disk.readlink_text {
        w.count(&format!("disk_link_text_{}", k), *n);
    }
    let _ = std::env::set_current_dir("/");
}

// ---------------------------------------------------------------------------------------------
// Driver
// ---------------------------------------------------------------------------------------------
fn sample_case(g: &Group, sp: usize) -> J {
    let fs = tree::materialize_memfs(&pre_tree(g), "/").expect("sample pre-state");
    let arg = spell(sp, &g.l, &g.t);
    let r = fs.symlink(&g.l, &arg);
    J::obj([
        ("world", J::s("memfs@/")),
        ("link", J::s(&g.l)),
        ("target", J::s(&g.t)),
        ("kind", J::s(g.kind.name())),
        ("arg", J::s(&arg)),
        ("symlink", J::s(res_str(&r))),
        ("readlink", J::s(res_str(&fs.readlink(&g.l)))),
        ("readlink_abs", J::s(res_str(&fs.readlink_abs(&g.l)))),
        ("is_symlink,is_file,is_dir,is_symlink_dir,is_symlink_file", J::s(format!("{:?}", (fs.is_symlink(&g.l), fs.is_file(&g.l), fs.is_dir(&g.l), fs.is_symlink_dir(&g.l), fs.is_symlink_file(&g.l))))),
    ])
}

pub fn run(ctx: &Ctx) -> i32 {
    quiet_panics();
    set_spelling_env();
    if let Some(p) = &ctx.replay {
        return replay(ctx, p);
    }
    let depth = depth_for(ctx.tier);
    let gs = groups(depth);
    let n = gs.len();

    // ---- phase A: Memfs rooted at "/" on all threads
    let prog = Progress::new();
    let hang_ctx = (ctx.prop.clone(), ctx.tier, ctx.seed, ctx.start, ctx.threads);
    let gs_for_dog = gs.clone();
    let stop = spawn_watchdog(prog.clone(), std::time::Duration::from_secs(ctx.tier.pick(10, 30)), move |_slot, case| {
        let g = &gs_for_dog[case as usize];
        let d = format!("Memfs configuration {:?} made no progress within the time limit", g);
        let c = J::obj([("world", J::s("memfs@/")), ("l", J::s(&g.l)), ("t", J::s(&g.t)), ("kind", J::s(g.kind.name())), ("sp", J::i(0))]);
        vio("hang · no progress within the time limit", || d, || c);
        let c2 = Ctx { prop: hang_ctx.0.clone(), tier: hang_ctx.1, seed: hang_ctx.2, replay: None, start: hang_ctx.3, threads: hang_ctx.4 };
        let code = finish(&c2, Evidence { level: "model_checking", coverage: J::obj([("exhaustive", J::Bool(false)), ("aborted", J::s("hang"))]), assumptions: vec![] });
        std::process::exit(code.max(1));
    });
    let slots: Vec<Mutex<Stats>> = (0..ctx.threads).map(|_| Mutex::new(Stats::default())).collect();
    let found: Mutex<BTreeMap<String, (usize, u64, String, J)>> = Mutex::new(BTreeMap::new());
    par_for(ctx.threads, n as u64, 8, |slot, i| {
        prog.begin(slot, i);
        let g = &gs[i as usize];
        let mut w = MemWorld::new("/");
        let mut st = slots[slot].lock().unwrap();
        let vs = run_group(&mut w, g, &ALL_SP, &mut st);
        drop(st);
        if !vs.is_empty() {
            let mut f = found.lock().unwrap();
            for v in vs {
                let e = f.entry(v.sig.clone()).or_insert((usize::MAX, 0, String::new(), J::Null));
                e.1 += 1;
                if (i as usize) < e.0 {
                    e.0 = i as usize;
                    e.2 = v.detail;
                    e.3 = v.case;
                }
            }
        }
        prog.end(slot);
    });
    stop.store(true, std::sync::atomic::Ordering::Relaxed);
    // report in a deterministic order: simplest configuration first per signature
    let mut recs: Vec<(String, (usize, u64, String, J))> = found.into_inner().unwrap().into_iter().collect();
    recs.sort_by(|a, b| a.1 .0.cmp(&b.1 .0).then(a.0.cmp(&b.0)));
    for (sig, (_, cnt, detail, case)) in recs {
        for _ in 0..cnt.min(100_000) {
            let (d, c) = (detail.clone(), case.clone());
            vio(&sig, move || d, move || c);
        }
    }
    let mut a = Stats::default();
    for s in &slots {
        a.merge(&s.lock().unwrap());
    }

    // ---- phase B: worker processes (Stdfs on a sandbox + Memfs under the same absolute paths)
    let mut g = Gathered::default();
    let euid = unsafe { libc::geteuid() };
    workers::run_workers(ctx, &Launch { name: "c10".into(), nshards: ctx.threads.max(1) as u64, extra: vec![depth.to_string()], uid: None, env: None }, &mut g);
    if !g.failed.is_empty() {
        for f in &g.failed {
            eprintln!("machinery: {}", f);
        }
        return 2;
    }

    let pairs: BTreeSet<(&str, &str)> = gs.iter().map(|x| (x.l.as_str(), x.t.as_str())).collect();
    let nontriv: BTreeSet<(&str, &str)> = gs.iter().filter(|x| nontrivial(x)).map(|x| (x.l.as_str(), x.t.as_str())).collect();
    let states = a.states + g.c("stdfs_states") + g.c("memfs_sb_states");
    let calls = a.calls + g.c("stdfs_calls") + g.c("memfs_sb_calls");
    let traces = a.traces + g.c("stdfs_traces") + g.c("memfs_sb_traces");
    let expect_states = (n * ALL_SP.len()) as u64;
    if a.states != expect_states || g.c("stdfs_states") != expect_states || g.c("memfs_sb_states") != expect_states {
        eprintln!("machinery: state counts {} / {} / {} differ from the size of the space {}", a.states, g.c("stdfs_states"), g.c("memfs_sb_states"), expect_states);
        return 2;
    }
    let mut samples: Vec<J> = [n / 7, n / 3, n / 2 + 1, n - 1].iter().enumerate().map(|(k, &i)| sample_case(&gs[i], [1, 5, 3, 2][k])).collect();
    samples.extend(g.samples.iter().take(2).cloned());
    let cov = J::obj([
        ("states", J::i(states)),
        ("transitions", J::i(calls)),
        ("traces_validated_against_impl", J::i(traces)),
        ("evaluations", J::i(states)),
        ("distinct_nontrivial", J::i(nontriv.len() as i64)),
        ("rule", J::s(format!(
            "positions = all {} paths of depth <= {} over names {{a,b}}; targets = positions + root; every feasible (L, T, kind at creation) configuration ({} configurations over {} (L,T) pairs) x 7 spellings of the target (the last one writes the final component as a variable reference) = {} states per world, 3 worlds (memfs@/, stdfs@sandbox, memfs@sandbox). Each state: symlink + all queries of the statement + readlink*/entry on every non-link; then up to 15 follow-up transitions each from a fresh copy of the state (chmod of the directory holding the link, recursive and without follow, which must leave a target outside that directory alone; remove, chmod x2, chown x2 without follow, the same chown x2 after the target itself was given the requested owner, move_p of the link and of each of its ancestor directories to a new name with the readlink/readlink_abs law checked where the link is found afterwards, symlink over the link x6, in a clean and an unclean spelling of the link's path). distinct_nontrivial = (L,T) pairs whose relative navigation from dir(L) to T contains '..' or more than one component or is empty (target == dir(link)), i.e. the link is not next to its target.",
            tree::namespace(&NAMES, depth).len(), depth, n, pairs.len(), expect_states
        ))),
        ("per_world", J::obj([
            ("memfs_root_states", J::i(a.states)),
            ("memfs_root_calls", J::i(a.calls)),
            ("stdfs_states", J::i(g.c("stdfs_states"))),
            ("stdfs_calls", J::i(g.c("stdfs_calls"))),
            ("memfs_sandbox_states", J::i(g.c("memfs_sb_states"))),
            ("memfs_sandbox_calls", J::i(g.c("memfs_sb_calls"))),
            ("stdfs_link_text_relative", J::i(g.c("disk_link_text_relative"))),
            ("stdfs_link_text_absolute", J::i(g.c("disk_link_text_absolute"))),
            ("entry_unavailable_for_dangling_link_not_judged", J::i(a.entry_unavailable + g.c("stdfs_entry_unavailable") + g.c("memfs_sb_entry_unavailable"))),
        ])),
        ("samples", J::arr(samples)),
        ("exhaustive", J::Bool(true)),
        ("bounds", J::s(format!("depth <= {} over 2 names ({} link positions x {} target positions), kinds {{file, dir, link>file, missing, self/below-link}}, spellings {:?}, stdfs worker euid {}", depth, tree::namespace(&NAMES, depth).len(), tree::namespace(&NAMES, depth).len() + 1, SPELLINGS, euid))),
    ]);
    let mut assumptions = vec![
        "abs(target) is lexical: go_clean of the spelling (joined onto dir(link) when relative); no path walks through a link except the cyclic kind".to_string(),
        "is_symlink_dir/is_symlink_file are unspecified for targets missing at creation; for a target that is itself a link to a file only is_symlink_dir == false is demanded".to_string(),
        "entry(link) failing for a dangling link is counted, not judged (the statement speaks about entry.follow only)".to_string(),
        "chmod results (Ok/Err) and their effect on the link itself are not judged, only that nothing but the link changes; a chown without follow that returns Ok must leave the link itself with the requested owner (also when the target already carries that owner)".to_string(),
        "Stdfs observed on Linux tmpfs, umask 022".to_string(),
    ];
    if euid != 0 {
        assumptions.push("not running as root: chown follow-ups skipped on Stdfs".to_string());
    }
    finish(ctx, Evidence { level: "model_checking", coverage: cov, assumptions })
}

fn replay(ctx: &Ctx, p: &std::path::Path) -> i32 {
    let j = crate::common::json::parse(&std::fs::read_to_string(p).expect("read replay")).expect("parse replay");
    let want_sig = j.get("signature").and_then(|x| x.as_str()).unwrap_or("").to_string();
    let c = j.get("case").expect("case");
    let s = |k: &str| c.get(k).and_then(|x| x.as_str()).unwrap_or_else(|| panic!("case.{}", k)).to_string();
    let g = Group { l: s("l"), t: s("t"), kind: TK::parse(&s("kind")).expect("case.kind") };
    let sp = c.get("sp").and_then(|x| x.as_i64()).unwrap_or(0) as usize;
    let world = s("world");
    let sps: Vec<usize> = if sp == 0 { vec![0] } else { vec![0, sp] };
    let mut st = Stats::default();
    unsafe {
        libc::umask(0o022);
    }
    let vs = match world.as_str() {
        "memfs@/" => run_group(&mut MemWorld::new("/"), &g, &sps, &mut st),
        "memfs@sandbox" => {
            let sb = Sandbox::new("c10r");
            run_group(&mut MemWorld::new(&sb.root), &g, &sps, &mut st)
        },
        _ => {
            let sb = Sandbox::new("c10r");
            let r = run_group(&mut DiskWorld::new(&sb), &g, &sps, &mut st);
            let _ = std::env::set_current_dir("/");
            r
        },
    };
    println!("replay C10 world={} L={} T={} kind={} spelling={} ({} rivia calls)", world, g.l, g.t, g.kind.name(), SPELLINGS[sp], st.calls);
    println!("  expected: symlink Ok(L); readlink_abs == abs(T); readlink relative and clean(dir(L)/readlink) == readlink_abs; is_symlink && !is_file && !is_dir; kind flags per target kind; remove/chmod/chown(link) leave everything but the link alone; readlink*(non-link) Err; follow laws; re-symlink Err+unchanged or Ok+retargeted");
    let mut hit = false;
    for v in &vs {
        let mark = if v.sig == want_sig { "*" } else { " " };
        hit |= v.sig == want_sig;
        println!(" {} observed: {}\n     signature: {}", mark, v.detail, v.sig);
    }
    if hit {
        println!("VIOLATION property={} replay={}", ctx.prop, p.display());
        1
    } else {
        println!("holds: signature {:?} no longer observed ({} other finding(s) listed above)", want_sig, vs.len());
        0
    }
}

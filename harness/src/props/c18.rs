//! C18 XDG directory lookup honours the environment with the right precedence.
//!
//! Engine E5: every environment configuration is evaluated inside single-threaded worker processes
//! that were started with an explicit environment (env_clear); further dimensions are iterated inside
//! the worker with set_var/remove_var. Every Nth configuration is re-run in a genuinely fresh process
//! whose complete environment is explicit and must give the identical output (digest comparison;
//! a mismatch is a machinery error, exit 2).
//!
//! Three parts:
//!  * `dirs`   full cross product of HOME, XDG_{CONFIG,CACHE,DATA,STATE}_HOME, XDG_RUNTIME_DIR
//!             (unset / "" / distinct value) x XDG_CONFIG_DIRS, XDG_DATA_DIRS, PATH (unset / "" / one /
//!             two / list with empty segments; distinct values per variable): user::home_dir,
//!             config_dir, cache_dir, data_dir, state_dir, runtime_dir, sys_config_dirs, sys_data_dirs,
//!             path_dirs against a transcription of the statement.
//!  * `cfg`    vfs.config_dir(name) on a fresh Memfs and on Stdfs (variables pointing into a sandbox)
//!             for HOME x XDG_CONFIG_HOME x XDG_CONFIG_DIRS x every subset of the candidate
//!             directories containing the file (decoy directories named by the *other* XDG variables
//!             always contain it).
//!  * `rids`   user::getrids(uid, gid) for uid, gid x SUDO_UID x SUDO_GID.
//!
//! Leniency (statement silent / ambiguous => either accepted):
//!  * XDG_*_HOME / XDG_RUNTIME_DIR set to "": the empty value, or the same as unset;
//!  * HOME set to "": home_dir Ok("") or Err; defaults: Err, "/<suffix>" or "<suffix>";
//!  * path_dirs with PATH unset / "" / only empty segments: Err or Ok([]);
//!  * vfs.config_dir when the user directory cannot be determined (XDG_CONFIG_HOME unset or "" and
//!    HOME unset or ""): None, or the first XDG_CONFIG_DIRS hit (counted as an observation).
use crate::common::json::{self, J};
use crate::common::par::*;
use crate::common::report::*;
use crate::engines::sandbox::Sandbox;
use crate::engines::workers::{run_workers, Gathered, Launch, WorkerCtx};
use rivia::prelude::*;
use std::collections::BTreeMap;
use std::panic::{catch_unwind, AssertUnwindSafe};
use std::sync::atomic::{AtomicU64, Ordering};

const DIGEST_MASK: u64 = (1 << 52) - 1;
const DIRS_FRESH_EVERY: u64 = 500;
const CFG_FRESH_EVERY: u64 = 100;
const RIDS_FRESH_EVERY: u64 = 5;

/// (variable, distinct value)
const SINGLE: [(&str, &str); 6] = [
    ("HOME", "/xhome"),
    ("XDG_CONFIG_HOME", "/xconfig"),
    ("XDG_CACHE_HOME", "/xcache"),
    ("XDG_DATA_HOME", "/xdata"),
    ("XDG_STATE_HOME", "/xstate"),
    ("XDG_RUNTIME_DIR", "/xruntime"),
];
/// (variable, first entry, second entry)
const LISTS: [(&str, &str, &str); 3] = [("XDG_CONFIG_DIRS", "/cp", "/cq"), ("XDG_DATA_DIRS", "/dp", "/dq"), ("PATH", "/pp", "/pq")];
const NAME: &str = "rvmc-c18-probe.toml";

fn single_val(i: usize, set: &str) -> Option<String> {
    match i {
        0 => None,
        1 => Some(String::new()),
        2 => Some(set.to_string()),
        // thorough only: a relative value with a trailing separator
        _ => Some(format!("rel{}/", set)),
    }
}

fn list_val(i: usize, p: &str, q: &str) -> Option<String> {
    match i {
        0 => None,
        1 => Some(String::new()),
        2 => Some(p.to_string()),
        3 => Some(format!("{}:{}", p, q)),
        4 => Some(format!(":{}::{}:", p, q)),
        // thorough only: a relative entry and an entry with a trailing separator; only empty segments
        5 => Some(format!("rel{}:{}/", p, q)),
        // the root directory as an entry (a segment that consists of separators only is not empty)
        7 => Some(format!("/:{}://", p)),
        _ => Some("::".to_string()),
    }
}

fn single_choices(tier: Tier) -> &'static [usize] {
    tier.pick(&[0, 1, 2][..], &[0, 1, 2, 3][..])
}

fn list_choices(tier: Tier) -> &'static [usize] {
    tier.pick(&[0, 1, 2, 3, 4, 6, 7][..], &[0, 1, 2, 3, 4, 5, 6, 7][..])
}

fn env(name: &str) -> Option<String> {
    std::env::var(name).ok()
}

fn set_opt(name: &str, v: &Option<String>) {
    match v {
        Some(x) => std::env::set_var(name, x),
        None => std::env::remove_var(name),
    }
}

fn state3(v: &Option<String>) -> &'static str {
    match v.as_deref() {
        None => "unset",
        Some("") => "empty",
        Some(_) => "set",
    }
}

fn list_state(v: &Option<String>) -> &'static str {
    match v.as_deref() {
        None => "unset",
        Some("") => "empty",
        Some(x) if x.split(':').all(|s| s.is_empty()) => "only-empty-segments",
        Some(x) if x.split(':').any(|s| s.is_empty()) => "list-with-empty-segments",
        Some(x) if x.contains(':') => "list",
        Some(_) => "single",
    }
}

fn fnv(s: &str) -> u64 {
    let mut h: u64 = 0xcbf29ce484222325;
    for b in s.bytes() {
        h ^= b as u64;
        h = h.wrapping_mul(0x100000001b3);
    }
    h & DIGEST_MASK
}

fn machinery(msg: &str) -> ! {
    eprintln!("machinery: C18 worker: {}", msg);
    std::process::exit(2);
}

// ---------------------------------------------------------------------------------------------
// Part 1: the directory functions
// ---------------------------------------------------------------------------------------------
#[derive(Debug, Clone, PartialEq)]
enum Obs {
    Ok(Vec<String>),
    Err(String),
    Panic(String),
}

struct Accept {
    vals: Vec<Vec<String>>,
    err_ok: bool,
}

impl Accept {
    fn matches(&self, o: &Obs) -> bool {
        match o {
            Obs::Ok(v) => self.vals.iter().any(|a| a.len() == v.len() && a.iter().zip(v.iter()).all(|(x, y)| Path::new(x) == Path::new(y))),
            Obs::Err(_) => self.err_ok,
            Obs::Panic(_) => false,
        }
    }
    fn describe(&self) -> String {
        format!("{}{}", if self.vals.is_empty() { "no value".to_string() } else { format!("Ok of any of {:?}", self.vals) }, if self.err_ok { " or Err" } else { "" })
    }
}

fn obs_path<F: FnOnce() -> RvResult<PathBuf>>(f: F) -> Obs {
    match catch_unwind(AssertUnwindSafe(f)) {
        Ok(Ok(p)) => Obs::Ok(vec![p.to_string_lossy().into_owned()]),
        Ok(Err(e)) => Obs::Err(e.to_string()),
        Err(e) => Obs::Panic(panic_message(&e)),
    }
}

fn obs_list<F: FnOnce() -> RvResult<Vec<PathBuf>>>(f: F) -> Obs {
    match catch_unwind(AssertUnwindSafe(f)) {
        Ok(Ok(v)) => Obs::Ok(v.iter().map(|p| p.to_string_lossy().into_owned()).collect()),
        Ok(Err(e)) => Obs::Err(e.to_string()),
        Err(e) => Obs::Panic(panic_message(&e)),
    }
}

/// statement: "the specification's default under $HOME" (error when HOME is needed but unset)
fn ref_home_default(suffix: &str) -> Accept {
    match env("HOME") {
        None => Accept { vals: vec![], err_ok: true },
        Some(h) if h.is_empty() => Accept { vals: vec![vec![format!("/{}", suffix)], vec![suffix.to_string()]], err_ok: true },
        Some(h) => Accept { vals: vec![vec![format!("{}/{}", h, suffix)]], err_ok: false },
    }
}

/// statement: "return the XDG_*_HOME value when set and the specification's default under $HOME otherwise"
fn ref_xdg_home(var: &str, suffix: &str) -> Accept {
    match env(var) {
        Some(v) if !v.is_empty() => Accept { vals: vec![vec![v]], err_ok: false },
        Some(_) => {
            // set to the empty string: "when set" => "", XDG spec => treat as unset; both accepted
            let mut a = ref_home_default(suffix);
            a.vals.push(vec![String::new()]);
            a
        },
        None => ref_home_default(suffix),
    }
}

fn ref_list_items(var: &str) -> Vec<String> {
    env(var).map(|v| v.split(':').filter(|s| !s.is_empty()).map(|s| s.to_string()).collect()).unwrap_or_default()
}

/// statement: "the listed directories in order without empty segments, or the defaults when unset or empty"
fn ref_list(var: &str, default: Option<&[&str]>) -> Accept {
    let items = ref_list_items(var);
    if !items.is_empty() {
        return Accept { vals: vec![items], err_ok: false };
    }
    match default {
        Some(d) => Accept { vals: vec![d.iter().map(|s| s.to_string()).collect()], err_ok: false },
        // PATH has no documented default: an error or an empty list
        None => Accept { vals: vec![vec![]], err_ok: true },
    }
}

struct DirsEval {
    findings: Vec<(String, String)>,
    outcome: String,
    calls: u64,
}

fn dirs_env_desc() -> String {
    SINGLE.iter().map(|(k, _)| *k).chain(LISTS.iter().map(|(k, _, _)| *k)).map(|k| format!("{}={:?}", k, env(k))).collect::<Vec<_>>().join(" ")
}

fn dirs_env_json() -> J {
    J::Obj(SINGLE.iter().map(|(k, _)| *k).chain(LISTS.iter().map(|(k, _, _)| *k)).map(|k| (k.to_string(), env(k).map(J::s).unwrap_or(J::Null))).collect())
}

/// Evaluate all nine functions in the current process environment
fn eval_dirs() -> DirsEval {
    let home_state = state3(&env("HOME"));
    // signatures name the state of the function's own variable only (one defect = few signatures)
    let xdg_state = |var: &str| format!("{}={}", var, state3(&env(var)));
    let rows: Vec<(&str, String, Obs, Accept)> = vec![
        ("home_dir", format!("HOME={}", home_state), obs_path(user::home_dir), match env("HOME") {
            None => Accept { vals: vec![], err_ok: true },
            Some(h) if h.is_empty() => Accept { vals: vec![vec![h]], err_ok: true },
            Some(h) => Accept { vals: vec![vec![h]], err_ok: false },
        }),
        ("config_dir", xdg_state("XDG_CONFIG_HOME"), obs_path(user::config_dir), ref_xdg_home("XDG_CONFIG_HOME", ".config")),
        ("cache_dir", xdg_state("XDG_CACHE_HOME"), obs_path(user::cache_dir), ref_xdg_home("XDG_CACHE_HOME", ".cache")),
        ("data_dir", xdg_state("XDG_DATA_HOME"), obs_path(user::data_dir), ref_xdg_home("XDG_DATA_HOME", ".local/share")),
        ("state_dir", xdg_state("XDG_STATE_HOME"), obs_path(user::state_dir), ref_xdg_home("XDG_STATE_HOME", ".local/state")),
        ("runtime_dir", format!("XDG_RUNTIME_DIR={}", state3(&env("XDG_RUNTIME_DIR"))), obs_path(|| Ok(user::runtime_dir())), match env("XDG_RUNTIME_DIR") {
            None => Accept { vals: vec![vec!["/tmp".into()]], err_ok: false },
            Some(v) if v.is_empty() => Accept { vals: vec![vec![v], vec!["/tmp".into()]], err_ok: false },
            Some(v) => Accept { vals: vec![vec![v]], err_ok: false },
        }),
        (
            "sys_config_dirs",
            format!("XDG_CONFIG_DIRS={}", list_state(&env("XDG_CONFIG_DIRS"))),
            obs_list(user::sys_config_dirs),
            ref_list("XDG_CONFIG_DIRS", Some(&["/etc/xdg"])),
        ),
        (
            "sys_data_dirs",
            format!("XDG_DATA_DIRS={}", list_state(&env("XDG_DATA_DIRS"))),
            obs_list(user::sys_data_dirs),
            ref_list("XDG_DATA_DIRS", Some(&["/usr/local/share", "/usr/share"])),
        ),
        ("path_dirs", format!("PATH={}", list_state(&env("PATH"))), obs_list(user::path_dirs), ref_list("PATH", None)),
    ];
    let mut findings = vec![];
    let mut outcome = String::new();
    let calls = rows.len() as u64;
    for (func, st, obs, acc) in rows {
        outcome.push_str(&format!("{}={:?};", func, obs));
        if !acc.matches(&obs) {
            let kind = match &obs {
                Obs::Panic(_) => "panic",
                Obs::Err(_) => "error-but-value-demanded",
                Obs::Ok(_) if acc.vals.is_empty() => "value-but-error-demanded",
                Obs::Ok(_) => "wrong-value",
            };
            findings.push((
                format!("user::{} [{}] {}", func, st, kind),
                format!("environment {}: user::{}() = {:?}; the statement accepts {}", dirs_env_desc(), func, obs, acc.describe()),
            ));
        }
    }
    DirsEval { findings, outcome, calls }
}

struct DirsSpace {
    singles: &'static [usize],
    lists: &'static [usize],
}

impl DirsSpace {
    fn new(tier: Tier) -> DirsSpace {
        DirsSpace { singles: single_choices(tier), lists: list_choices(tier) }
    }
    fn n(&self) -> u64 {
        (self.singles.len() as u64).pow(6) * (self.lists.len() as u64).pow(3)
    }
    /// number of (HOME, XDG_CONFIG_HOME) groups; each group gets its own explicit process environment
    fn groups(&self) -> u64 {
        (self.singles.len() as u64).pow(2)
    }
    fn group_size(&self) -> u64 {
        (self.singles.len() as u64).pow(4) * (self.lists.len() as u64).pow(3)
    }
    /// values of the nine variables for configuration idx (order: SINGLE then LISTS; HOME most significant)
    fn config(&self, idx: u64) -> Vec<(&'static str, Option<String>)> {
        let l = self.lists.len() as u64;
        let mut r = idx;
        let mut digits = [0usize; 9];
        for i in (6..9).rev() {
            digits[i] = self.lists[(r % l) as usize];
            r /= l;
        }
        let k = self.singles.len() as u64;
        for i in (0..6).rev() {
            digits[i] = self.singles[(r % k) as usize];
            r /= k;
        }
        let mut v = vec![];
        for i in 0..6 {
            v.push((SINGLE[i].0, single_val(digits[i], SINGLE[i].1)));
        }
        for i in 0..3 {
            v.push((LISTS[i].0, list_val(digits[6 + i], LISTS[i].1, LISTS[i].2)));
        }
        v
    }
}

fn check_env_is(cfg: &[(&'static str, Option<String>)], only: Option<usize>) {
    // `only` = number of leading variables that must already be present in the process environment
    let n = only.unwrap_or(cfg.len());
    for (k, v) in cfg.iter().take(n) {
        if env(k) != *v {
            machinery(&format!("process environment {}={:?} does not match the requested configuration {:?}", k, env(k), v));
        }
    }
    let allowed: Vec<&str> = cfg.iter().take(n).map(|(k, _)| *k).collect();
    if std::env::vars_os().any(|(k, _)| !allowed.iter().any(|a| k == *a)) {
        machinery("worker environment contains unexpected variables");
    }
}

static TICK: AtomicU64 = AtomicU64::new(0);

/// none of the functions under test loops; a stall is a machinery problem (worker exits 3)
fn start_watchdog(tier: Tier) {
    let limit = tier.pick(20u64, 60u64);
    std::thread::spawn(move || {
        let mut last = (u64::MAX, std::time::Instant::now());
        loop {
            std::thread::sleep(std::time::Duration::from_millis(500));
            let t = TICK.load(Ordering::Relaxed);
            if t != last.0 {
                last = (t, std::time::Instant::now());
            } else if last.1.elapsed().as_secs() >= limit {
                eprintln!("machinery: C18 worker made no progress for {} s", limit);
                unsafe { libc::_exit(3) }
            }
        }
    });
}

fn report_dirs(w: &mut WorkerCtx, e: DirsEval, key: Option<String>, nontrivial: bool) {
    w.count("dirs_configs", 1);
    w.count("dirs_calls", e.calls);
    w.count("dirs_nontrivial", nontrivial as u64);
    if let Some(k) = key {
        w.count(&format!("dg|{}", k), fnv(&e.outcome));
    }
    for (sig, detail) in e.findings {
        w.vio(&sig, || detail, || J::obj([("part", J::s("dirs")), ("env", dirs_env_json())]));
    }
}

fn worker_dirs(w: &mut WorkerCtx) {
    // dirs <group>: HOME and XDG_CONFIG_HOME come from the explicit process environment
    let sp = DirsSpace::new(w.tier);
    let group: u64 = w.arg(1).parse().unwrap_or(u64::MAX);
    if group >= sp.groups() {
        machinery("bad group");
    }
    let gs = sp.group_size();
    check_env_is(&sp.config(group * gs), Some(2));
    start_watchdog(w.tier);
    for sub in 0..gs {
        let idx = group * gs + sub;
        if !w.mine(idx) {
            continue;
        }
        TICK.fetch_add(1, Ordering::Relaxed);
        let cfg = sp.config(idx);
        for (k, v) in cfg.iter().skip(2) {
            set_opt(k, v);
        }
        let e = eval_dirs();
        let nontrivial = cfg.iter().any(|(_, v)| v.as_deref().map(|x| !x.is_empty()).unwrap_or(false));
        if idx % 7919 == 1234 {
            w.sample(J::obj([("part", J::s("dirs")), ("env", dirs_env_json()), ("results", J::s(&e.outcome))]));
        }
        let key = if idx % DIRS_FRESH_EVERY == 0 { Some(format!("d{}", idx)) } else { None };
        report_dirs(w, e, key, nontrivial);
    }
    // list-shape sweep (group 0 only): each list variable on its own takes every list of up to
    // LIST_SHAPE_LEN segments over LIST_SEGS (repeated, adjacent-equal, trailing-separator and root entries)
    if group == 0 {
        let cfg0 = sp.config(0);
        for (k, v) in cfg0.iter().skip(2) {
            set_opt(k, v);
        }
        let mut j = 0u64;
        for (var, p, q) in LISTS {
            for val in list_shapes(p, q) {
                j += 1;
                if !w.mine(j) {
                    continue;
                }
                TICK.fetch_add(1, Ordering::Relaxed);
                std::env::set_var(var, &val);
                let e = eval_dirs();
                w.count("dirs_shape_configs", 1);
                w.count("dirs_calls", e.calls);
                w.count("dirs_nontrivial", 1);
                for (sig, detail) in e.findings {
                    w.vio(&sig, || detail, || J::obj([("part", J::s("dirs")), ("env", dirs_env_json())]));
                }
            }
            std::env::remove_var(var);
        }
        // foreign variables: nothing outside HOME / XDG_* / PATH may influence any of the nine functions
        // (the statement fixes the fallbacks, e.g. runtime_dir -> /tmp, not "the system's temporary directory")
        for base in [0u64, sp.n() - 1] {
            let cfg = sp.config(base);
            // (HOME and XDG_CONFIG_HOME stay as the explicit process environment of this group has them)
            for (k, v) in cfg.iter().skip(2) {
                set_opt(k, v);
            }
            for (fk, fv) in FOREIGN {
                j += 1;
                if !w.mine(j) {
                    continue;
                }
                TICK.fetch_add(1, Ordering::Relaxed);
                let before = eval_dirs();
                std::env::set_var(fk, fv);
                let e = eval_dirs();
                std::env::remove_var(fk);
                w.count("dirs_foreign_configs", 1);
                w.count("dirs_calls", e.calls + before.calls);
                w.count("dirs_nontrivial", 1);
                if e.outcome != before.outcome {
                    let detail = format!("with {}={:?} added to the environment the results change: before {} / after {}", fk, fv, before.outcome, e.outcome);
                    w.vio(&format!("user::* depends on foreign variable {}", fk), || detail, || J::obj([("part", J::s("dirs")), ("env", dirs_env_json_with(fk, fv))]));
                }
                for (sig, detail) in e.findings {
                    w.vio(&sig, || detail, || J::obj([("part", J::s("dirs")), ("env", dirs_env_json_with(fk, fv))]));
                }
            }
        }
        for (k, v) in cfg0.iter().skip(2) {
            set_opt(k, v);
        }
    }
}

/// variables other programs consult for similar purposes; none of them is named by the statement
const FOREIGN: [(&str, &str); 10] = [
    ("TMPDIR", "/var/tmp/foreign"),
    ("TMP", "/var/tmp/foreign"),
    ("TEMP", "/var/tmp/foreign"),
    ("USER", "foreign"),
    ("LOGNAME", "foreign"),
    ("USERPROFILE", "/foreign"),
    ("APPDATA", "/foreign"),
    ("XDG_BIN_HOME", "/foreign"),
    ("XDG_DATA_HOME_DIRS", "/foreign"),
    ("SUDO_USER", "foreign"),
];

fn dirs_env_json_with(k: &str, v: &str) -> J {
    let mut o = match dirs_env_json() {
        J::Obj(x) => x,
        _ => vec![],
    };
    o.push((k.to_string(), J::s(v)));
    J::Obj(o)
}

const LIST_SHAPE_LEN: usize = 4;
fn list_shapes(p: &str, q: &str) -> Vec<String> {
    let segs: [String; 5] = [String::new(), p.to_string(), format!("{}/", p), q.to_string(), "/".to_string()];
    let mut out = vec![];
    let mut cur: Vec<Vec<usize>> = vec![vec![]];
    for _ in 0..LIST_SHAPE_LEN {
        let mut next = vec![];
        for c in &cur {
            for i in 0..segs.len() {
                let mut d = c.clone();
                d.push(i);
                out.push(d.iter().map(|x| segs[*x].as_str()).collect::<Vec<_>>().join(":"));
                next.push(d);
            }
        }
        cur = next;
    }
    out
}

fn worker_dirs1(w: &mut WorkerCtx) {
    // dirs1 <key>: complete explicit environment, nothing modified in-process
    let key = w.arg(1).to_string();
    start_watchdog(w.tier);
    let e = eval_dirs();
    w.sample(J::obj([
        ("part", J::s("dirs")),
        ("env", dirs_env_json()),
        ("results", J::s(&e.outcome)),
        ("findings", J::arr(e.findings.iter().map(|(s, d)| J::obj([("signature", J::s(s)), ("detail", J::s(d))])))),
    ]));
    report_dirs(w, e, Some(key), true);
}

// ---------------------------------------------------------------------------------------------
// Part 2: vfs.config_dir(name)
// ---------------------------------------------------------------------------------------------
struct Layout {
    area: String,
    xch: String,
    home: String,
    cp: String,
    cq: String,
    decoys: Vec<(&'static str, String)>,
}

fn layout(area: &str) -> Layout {
    Layout {
        area: area.to_string(),
        xch: format!("{}/xconfig", area),
        home: format!("{}/xhome", area),
        cp: format!("{}/cp", area),
        cq: format!("{}/cq", area),
        decoys: vec![("XDG_DATA_HOME", format!("{}/xdata", area)), ("XDG_DATA_DIRS", format!("{}/dp", area)), ("XDG_CACHE_HOME", format!("{}/xcache", area))],
    }
}

impl Layout {
    /// candidate universe; bit i of a mask = "universe[i] contains the file"
    fn universe(&self) -> Vec<String> {
        vec![self.xch.clone(), format!("{}/.config", self.home), self.cp.clone(), self.cq.clone(), "/etc/xdg".to_string()]
    }
    fn env(&self, h: usize, x: usize, d: usize) -> Vec<(&'static str, Option<String>)> {
        // list form 5 (config_dir part only): the user's own config directory is ALSO listed, in second
        // position, in XDG_CONFIG_DIRS; the statement's order still makes XDG_CONFIG_HOME win
        let dirs = if d == 5 { Some(format!("{}:{}", self.cp, self.xch)) } else { list_val(d, &self.cp, &self.cq) };
        let mut v = vec![("HOME", single_val(h, &self.home)), ("XDG_CONFIG_HOME", single_val(x, &self.xch)), ("XDG_CONFIG_DIRS", dirs)];
        for (k, p) in &self.decoys {
            v.push((*k, Some(p.clone())));
        }
        v
    }
}

#[derive(Clone, Copy, PartialEq, Debug)]
enum Backend {
    Memfs,
    Stdfs,
}

#[derive(Clone, Copy, Debug)]
struct CfgCase {
    b: Backend,
    h: usize,
    x: usize,
    d: usize,
    mask: u32,
    /// what the entry called `name` is: 0 a regular file, 1 a link whose target is missing, 2 a directory
    kind: usize,
}

const CFG_BASE_N: u64 = 2 * 3 * 3 * 6 * 32;
const CFG_N: u64 = 3 * CFG_BASE_N;

fn cfg_case(idx: u64) -> Option<CfgCase> {
    let kind = (idx / CFG_BASE_N) as usize;
    let idx = idx % CFG_BASE_N;
    let mask = (idx % 32) as u32;
    let r = idx / 32;
    let d = (r % 6) as usize;
    let r = r / 6;
    let x = (r % 3) as usize;
    let r = r / 3;
    let h = (r % 3) as usize;
    let b = if r / 3 == 0 { Backend::Memfs } else { Backend::Stdfs };
    // on the real filesystem /etc/xdg cannot be populated: its bit stays clear
    if b == Backend::Stdfs && mask >= 16 {
        return None;
    }
    Some(CfgCase { b, h, x, d, mask, kind })
}

struct CfgEval {
    findings: Vec<(String, String)>,
    outcome: String,
    nontrivial: bool,
    undetermined_none: bool,
}

/// Evaluate one config_dir case; the process environment must already hold `l.env(h, x, d)`.
fn eval_cfg(c: CfgCase, l: &Layout) -> CfgEval {
    let uni = l.universe();
    let mut with_file: Vec<String> = uni.iter().enumerate().filter(|(i, _)| c.mask & (1 << i) != 0).map(|(_, p)| p.clone()).collect();
    with_file.extend(l.decoys.iter().map(|(_, p)| p.clone()));
    // materialise
    let mem = Memfs::new();
    match c.b {
        Backend::Memfs => {
            for d in &with_file {
                let r = catch_unwind(AssertUnwindSafe(|| {
                    mem.mkdir_p(d).map_err(|e| e.to_string())?;
                    let p = Path::new(d).join(NAME);
                    match c.kind {
                        0 => mem.write_all(&p, "x").map_err(|e| e.to_string()),
                        1 => mem.symlink(&p, "/rvmc-c18-nowhere").map(|_| ()).map_err(|e| e.to_string()),
                        _ => mem.mkdir_p(&p).map(|_| ()).map_err(|e| e.to_string()),
                    }
                }));
                if !matches!(r, Ok(Ok(()))) {
                    machinery(&format!("cannot set up Memfs directory {}: {:?}", d, r.map_err(|e| panic_message(&e))));
                }
            }
        },
        Backend::Stdfs => {
            crate::engines::sandbox::force_remove(&l.area);
            std::fs::create_dir_all(&l.area).unwrap_or_else(|e| machinery(&format!("create {}: {}", l.area, e)));
            std::env::set_current_dir(&l.area).unwrap_or_else(|e| machinery(&format!("chdir {}: {}", l.area, e)));
            for d in &with_file {
                std::fs::create_dir_all(d).unwrap_or_else(|e| machinery(&format!("create {}: {}", d, e)));
                let p = Path::new(d).join(NAME);
                match c.kind {
                    0 => std::fs::write(&p, "x"),
                    1 => std::os::unix::fs::symlink("/rvmc-c18-nowhere", &p),
                    _ => std::fs::create_dir(&p),
                }
                .unwrap_or_else(|e| machinery(&format!("create entry in {}: {}", d, e)));
            }
        },
    }
    // "directory contains name on that filesystem", decided without rivia
    let contains = |dir: &str| -> bool {
        match c.b {
            Backend::Memfs => {
                let p = Path::new("/").join(dir);
                with_file.iter().any(|w| Path::new(w) == p)
            },
            Backend::Stdfs => std::fs::symlink_metadata(Path::new(&l.area).join(dir).join(NAME)).is_ok(),
        }
    };
    // candidate order from the statement: XDG_CONFIG_HOME (or its default), then XDG_CONFIG_DIRS
    let home_alts = || -> Vec<Option<String>> {
        match env("HOME") {
            None => vec![None],
            Some(h) if h.is_empty() => vec![None, Some("/.config".to_string()), Some(".config".to_string())],
            Some(h) => vec![Some(format!("{}/.config", h))],
        }
    };
    let user_alts: Vec<Option<String>> = match env("XDG_CONFIG_HOME") {
        Some(v) if !v.is_empty() => vec![Some(v)],
        Some(v) => {
            let mut a = vec![Some(v)];
            a.extend(home_alts());
            a
        },
        None => home_alts(),
    };
    let sys: Vec<String> = {
        let items = ref_list_items("XDG_CONFIG_DIRS");
        if items.is_empty() {
            vec!["/etc/xdg".to_string()]
        } else {
            items
        }
    };
    let sys_hit: Option<String> = sys.iter().find(|d| contains(d)).cloned();
    let mut accepted: Vec<Option<String>> = vec![];
    let mut undetermined = false;
    for a in &user_alts {
        match a {
            Some(u) if contains(u) => accepted.push(Some(u.clone())),
            Some(_) => accepted.push(sys_hit.clone()),
            None => {
                // the user directory cannot be determined: giving up (None) or searching the system
                // directories are both accepted
                undetermined = true;
                accepted.push(None);
                accepted.push(sys_hit.clone());
            },
        }
    }
    let got = match c.b {
        Backend::Memfs => catch_unwind(AssertUnwindSafe(|| mem.config_dir(NAME))),
        Backend::Stdfs => catch_unwind(AssertUnwindSafe(|| Stdfs::new().config_dir(NAME))),
    };
    let bname = if c.b == Backend::Memfs { "Memfs" } else { "Stdfs" };
    let classify = |p: &Option<String>| -> String {
        match p {
            None => "none".into(),
            Some(p) => {
                let pp = Path::new(p);
                if user_alts.iter().flatten().any(|u| Path::new(u) == pp) {
                    "user-dir".into()
                } else if let Some(i) = sys.iter().position(|s| Path::new(s) == pp) {
                    format!("sys-dir#{}", i + 1)
                } else {
                    "foreign-dir".into()
                }
            },
        }
    };
    let head = || {
        format!(
            "{}: HOME={:?} XDG_CONFIG_HOME={:?} XDG_CONFIG_DIRS={:?} (decoys {:?}); directories containing {:?}: {:?}",
            bname,
            env("HOME"),
            env("XDG_CONFIG_HOME"),
            env("XDG_CONFIG_DIRS"),
            l.decoys,
            NAME,
            with_file
        )
    };
    let mut findings = vec![];
    let mut undetermined_none = false;
    let outcome;
    match got {
        Err(e) => {
            let m = panic_message(&e);
            outcome = format!("panic:{}", m);
            findings.push((format!("vfs.config_dir({}) panic", bname), format!("{}: config_dir panicked: {}", head(), m)));
        },
        Ok(g) => {
            let gs = g.map(|p| p.to_string_lossy().into_owned());
            // the digest must not depend on the (process specific) sandbox location
            outcome = match (&gs, c.b) {
                (Some(p), Backend::Stdfs) if !l.area.is_empty() => format!("Some({:?})", p.replace(&l.area, "<area>")),
                _ => format!("{:?}", gs),
            };
            let ok = accepted.iter().any(|a| match (a, &gs) {
                (None, None) => true,
                (Some(a), Some(g)) => Path::new(a) == Path::new(g),
                _ => false,
            });
            if !ok {
                findings.push((
                    format!("vfs.config_dir({}) returned {} expected {}", bname, classify(&gs), classify(&accepted[0])),
                    format!("{}: config_dir({:?}) = {:?}; the statement accepts any of {:?}", head(), NAME, gs, accepted),
                ));
            }
            if undetermined && gs.is_none() && sys_hit.is_some() {
                undetermined_none = true;
            }
        },
    }
    CfgEval { findings, outcome, nontrivial: c.mask != 0, undetermined_none }
}

fn cfg_area(root: &str, c: CfgCase, tag: &str) -> String {
    match c.b {
        Backend::Memfs => String::new(),
        Backend::Stdfs => format!("{}/{}", root, tag),
    }
}

fn cfg_case_json(c: CfgCase) -> J {
    J::obj([
        ("part", J::s("config_dir")),
        ("backend", J::s(if c.b == Backend::Memfs { "memfs" } else { "stdfs" })),
        ("home", J::i(c.h as i64)),
        ("xdg_config_home", J::i(c.x as i64)),
        ("xdg_config_dirs", J::i(c.d as i64)),
        ("mask", J::i(c.mask as i64)),
        ("kind", J::i(c.kind as i64)),
        ("legend", J::s("home/xdg_config_home: 0 unset, 1 empty, 2 set; xdg_config_dirs: 0 unset, 1 empty, 2 'cp', 3 'cp:cq', 4 ':cp::cq:'; mask bit i = file present in [XDG_CONFIG_HOME dir, HOME/.config, cp, cq, /etc/xdg][i]; kind of that entry: 0 regular file, 1 link whose target is missing, 2 directory")),
    ])
}

fn report_cfg(w: &mut WorkerCtx, c: CfgCase, e: CfgEval, key: Option<String>) {
    w.count("cfg_cases", 1);
    w.count("cfg_nontrivial", e.nontrivial as u64);
    w.count("cfg_none_while_user_dir_undeterminable_and_system_dir_has_file", e.undetermined_none as u64);
    if let Some(k) = key {
        w.count(&format!("dg|{}", k), fnv(&e.outcome));
    }
    for (sig, detail) in e.findings {
        w.vio(&sig, || detail, || cfg_case_json(c));
    }
}

fn worker_cfg(w: &mut WorkerCtx) {
    // cfg <sandbox root>: started with an empty environment; everything is set in-process
    let root = w.arg(1).to_string();
    if std::env::vars_os().next().is_some() {
        machinery("cfg worker environment is not empty");
    }
    start_watchdog(w.tier);
    for idx in 0..CFG_N {
        if !w.mine(idx) {
            continue;
        }
        let c = match cfg_case(idx) {
            Some(c) => c,
            None => continue,
        };
        TICK.fetch_add(1, Ordering::Relaxed);
        let l = layout(&cfg_area(&root, c, &format!("s{}", w.shard)));
        for (k, v) in l.env(c.h, c.x, c.d) {
            set_opt(k, &v);
        }
        let e = eval_cfg(c, &l);
        if idx % 211 == 100 {
            w.sample(J::obj([("case", cfg_case_json(c)), ("config_dir", J::s(&e.outcome))]));
        }
        let key = if idx % CFG_FRESH_EVERY == 0 { Some(format!("c{}", idx)) } else { None };
        report_cfg(w, c, e, key);
    }
    // the same cases (entry kind 0) once more in another order: HOME changes from one call to the next while
    // everything else stays as it is (the sweep above changes HOME slowest). A lookup answers for the
    // environment as it is now, whatever an earlier lookup in the same process saw
    let mut group = 0u64;
    for b in 0..2u64 {
        for x in 0..3u64 {
            for d in 0..6u64 {
                for mask in 0..32u64 {
                    group += 1;
                    if !w.mine(group) {
                        continue;
                    }
                    for h in [0u64, 2, 1, 2, 0] {
                        let idx = (((b * 3 + h) * 3 + x) * 6 + d) * 32 + mask;
                        let c = match cfg_case(idx) {
                            Some(c) => c,
                            None => continue,
                        };
                        TICK.fetch_add(1, Ordering::Relaxed);
                        let l = layout(&cfg_area(&root, c, &format!("s{}", w.shard)));
                        for (k, v) in l.env(c.h, c.x, c.d) {
                            set_opt(k, &v);
                        }
                        let e = eval_cfg(c, &l);
                        w.count("cfg_cases_reordered", 1);
                        for (sig, detail) in e.findings {
                            w.vio(&format!("{} [after lookups under another HOME in the same process]", sig), || detail, || cfg_case_json(c));
                        }
                    }
                }
            }
        }
    }
    // candidates that cannot be resolved at all (an unset variable, a misplaced '~') in front of the directory
    // that holds the name: such a candidate does not contain the name, the search goes on
    if w.shard == 0 {
        for (bi, backend) in [Backend::Memfs, Backend::Stdfs].into_iter().enumerate() {
            let c0 = CfgCase { b: backend, h: 2, x: 0, d: 2, mask: 0, kind: 0 };
            let l = layout(&cfg_area(&root, c0, &format!("u{}", bi)));
            let envs: Vec<(&str, Vec<(&'static str, Option<String>)>)> = vec![
                ("XDG_CONFIG_HOME names an unset variable", vec![("HOME", Some(l.home.clone())), ("XDG_CONFIG_HOME", Some("$RVMC_C18_UNSET/cfg".to_string())), ("XDG_CONFIG_DIRS", Some(l.cp.clone()))]),
                ("XDG_CONFIG_DIRS starts with an entry holding a misplaced '~'", vec![("HOME", Some(l.home.clone())), ("XDG_CONFIG_HOME", Some(l.xch.clone())), ("XDG_CONFIG_DIRS", Some(format!("/rvmc~c18:{}", l.cp)))]),
                ("XDG_CONFIG_DIRS starts with an entry naming an unset variable", vec![("HOME", Some(l.home.clone())), ("XDG_CONFIG_HOME", None), ("XDG_CONFIG_DIRS", Some(format!("${{RVMC_C18_UNSET}}/y:{}", l.cp)))]),
            ];
            for (what, env) in envs {
                for (k, v) in &env {
                    set_opt(k, v);
                }
                TICK.fetch_add(1, Ordering::Relaxed);
                let got: Result<Option<PathBuf>, String> = match backend {
                    Backend::Memfs => {
                        let mem = Memfs::new();
                        let _ = mem.mkdir_p(&l.cp);
                        let _ = mem.write_all(Path::new(&l.cp).join(NAME), "x");
                        catch_unwind(AssertUnwindSafe(|| mem.config_dir(NAME))).map_err(|e| panic_message(&e))
                    },
                    Backend::Stdfs => {
                        crate::engines::sandbox::force_remove(&l.area);
                        let _ = std::fs::create_dir_all(&l.cp);
                        let _ = std::fs::write(Path::new(&l.cp).join(NAME), "x");
                        catch_unwind(AssertUnwindSafe(|| Stdfs::new().config_dir(NAME))).map_err(|e| panic_message(&e))
                    },
                };
                w.count("cfg_unresolvable_candidate_cases", 1);
                let ok = matches!(&got, Ok(Some(p)) if p.as_path() == Path::new(&l.cp));
                if !ok {
                    let (g2, cp2) = (format!("{:?}", got), l.cp.clone());
                    w.vio(
                        &format!("vfs.config_dir({:?}) gives up at a candidate that cannot be resolved", backend),
                        move || format!("{}: only {} holds the name, config_dir returned {}", what, cp2, g2),
                        || J::obj([("part", J::s("config_dir-unresolvable-candidate"))]),
                    );
                }
            }
        }
    }
    // a HOME value that contains a '$': the defaults are built from the value as it is, nothing in it is
    // expanded a second time
    if w.shard == 0 {
        for (k, _) in SINGLE.iter().skip(1) {
            std::env::remove_var(k);
        }
        std::env::set_var("RVMC_C18_WHO", "bob");
        for home in ["/srv/homes/$RVMC_C18_WHO", "/srv/h${RVMC_C18_WHO}x", "/srv/build$", "/srv/a$rvmc_c18_unset"] {
            std::env::set_var("HOME", home);
            TICK.fetch_add(1, Ordering::Relaxed);
            let rows: [(&str, Obs, String); 4] = [
                ("config_dir", obs_path(user::config_dir), format!("{}/.config", home)),
                ("cache_dir", obs_path(user::cache_dir), format!("{}/.cache", home)),
                ("data_dir", obs_path(user::data_dir), format!("{}/.local/share", home)),
                ("state_dir", obs_path(user::state_dir), format!("{}/.local/state", home)),
            ];
            for (func, obs, want) in rows {
                w.count("dirs_dollar_home_cases", 1);
                let ok = matches!(&obs, Obs::Ok(v) if v.len() == 1 && Path::new(&v[0]) == Path::new(&want));
                if !ok {
                    let (o2, h2) = (format!("{:?}", obs), home.to_string());
                    w.vio(&format!("user::{} [HOME contains '$'] value differs from the default under $HOME", func), move || format!("HOME={:?} (XDG_* unset): user::{}() = {}, expected {:?}", h2, func, o2, want), || J::obj([("part", J::s("config_dir-unresolvable-candidate"))]));
                }
            }
        }
        std::env::remove_var("RVMC_C18_WHO");
        std::env::remove_var("HOME");
    }
    let _ = std::env::set_current_dir("/");
}

fn worker_cfg1(w: &mut WorkerCtx) {
    // cfg1 <area> <case idx> <key>: complete explicit environment
    let area = w.arg(1).to_string();
    let idx: u64 = w.arg(2).parse().unwrap_or(u64::MAX);
    let key = w.arg(3).to_string();
    let c = cfg_case(idx).unwrap_or_else(|| machinery("bad case index"));
    let l = layout(&area);
    check_env_is(&l.env(c.h, c.x, c.d), None);
    start_watchdog(w.tier);
    let e = eval_cfg(c, &l);
    w.sample(J::obj([
        ("case", cfg_case_json(c)),
        ("env", J::Obj(l.env(c.h, c.x, c.d).into_iter().map(|(k, v)| (k.to_string(), v.map(J::s).unwrap_or(J::Null))).collect())),
        ("config_dir", J::s(&e.outcome)),
        ("findings", J::arr(e.findings.iter().map(|(s, d)| J::obj([("signature", J::s(s)), ("detail", J::s(d))])))),
    ]));
    report_cfg(w, c, e, Some(key));
    let _ = std::env::set_current_dir("/");
}

// ---------------------------------------------------------------------------------------------
// Part 3: getrids
// ---------------------------------------------------------------------------------------------
const UIDS: [u32; 2] = [0, 1000];
const GIDS: [u32; 2] = [0, 2000];
const SUDO_UIDS: [Option<&str>; 7] = [None, Some(""), Some("1001"), Some("abc"), Some("-1"), Some("4294967296"), Some("4294967295")];
const SUDO_GIDS: [Option<&str>; 7] = [None, Some(""), Some("2002"), Some("xyz"), Some("-2"), Some("4294967297"), Some("0")];

fn strict_u32(s: &str) -> Option<u32> {
    if s.is_empty() || s.len() > 10 || !s.bytes().all(|b| b.is_ascii_digit()) {
        return None;
    }
    let mut v: u64 = 0;
    for b in s.bytes() {
        v = v * 10 + (b - b'0') as u64;
    }
    if v <= u32::MAX as u64 {
        Some(v as u32)
    } else {
        None
    }
}

fn id_class(v: &Option<String>) -> &'static str {
    match v.as_deref() {
        None => "unset",
        Some("") => "empty",
        Some(x) if strict_u32(x).is_some() => "numeric",
        Some(x) if x.bytes().all(|b| b.is_ascii_digit()) => "numeric-overflow",
        Some(x) if x.starts_with('-') => "negative",
        Some(_) => "non-numeric",
    }
}

struct RidsEval {
    findings: Vec<(String, String, J)>,
    outcome: String,
    nontrivial: u64,
}

/// all uid x gid combinations in the current process environment
fn eval_rids() -> RidsEval {
    let (su, sg) = (env("SUDO_UID"), env("SUDO_GID"));
    let sudo = match (su.as_deref().and_then(strict_u32), sg.as_deref().and_then(strict_u32)) {
        (Some(u), Some(g)) => Some((u, g)),
        _ => None,
    };
    let mut r = RidsEval { findings: vec![], outcome: String::new(), nontrivial: 0 };
    for uid in UIDS {
        for gid in GIDS {
            // statement: the SUDO pair only when uid is 0 and both variables are numeric, else (uid, gid)
            let want = if uid == 0 { sudo.unwrap_or((uid, gid)) } else { (uid, gid) };
            if want != (uid, gid) {
                r.nontrivial += 1;
            }
            let got = catch_unwind(AssertUnwindSafe(|| user::getrids(uid, gid)));
            let case = J::obj([
                ("part", J::s("getrids")),
                ("env", J::Obj(vec![("SUDO_UID".to_string(), su.clone().map(J::s).unwrap_or(J::Null)), ("SUDO_GID".to_string(), sg.clone().map(J::s).unwrap_or(J::Null))])),
            ]);
            let st = format!("uid={} SUDO_UID/SUDO_GID {}", if uid == 0 { "0" } else { "nonzero" }, if sudo.is_some() { "both numeric".to_string() } else { format!("{}/{}", id_class(&su), id_class(&sg)) });
            let st = if uid != 0 && sudo.is_none() { "uid=nonzero SUDO_UID/SUDO_GID not both numeric".to_string() } else { st };
            match got {
                Err(e) => {
                    let m = panic_message(&e);
                    r.outcome.push_str(&format!("({},{})->panic;", uid, gid));
                    r.findings.push((format!("user::getrids [{}] panic", st), format!("SUDO_UID={:?} SUDO_GID={:?}: getrids({}, {}) panicked: {}", su, sg, uid, gid, m), case));
                },
                Ok(g) => {
                    r.outcome.push_str(&format!("({},{})->{:?};", uid, gid, g));
                    if g != want {
                        let kind = if g == (uid, gid) {
                            "returned (uid,gid) expected the SUDO pair".to_string()
                        } else if Some(g) == sudo {
                            "returned the SUDO pair expected (uid,gid)".to_string()
                        } else if sudo.map(|(a, b)| (b, a)) == Some(g) || g == (gid, uid) {
                            "returned a swapped pair".to_string()
                        } else {
                            "returned some other pair".to_string()
                        };
                        r.findings.push((
                            format!("user::getrids [{}] {}", st, kind),
                            format!("SUDO_UID={:?} SUDO_GID={:?}: getrids({}, {}) = {:?}, the statement demands {:?}", su, sg, uid, gid, g, want),
                            case,
                        ));
                    }
                },
            }
        }
    }
    r
}

fn report_rids(w: &mut WorkerCtx, e: RidsEval, key: Option<String>) {
    w.count("rids_cases", (UIDS.len() * GIDS.len()) as u64);
    w.count("rids_nontrivial", e.nontrivial);
    if let Some(k) = key {
        w.count(&format!("dg|{}", k), fnv(&e.outcome));
    }
    for (sig, detail, case) in e.findings {
        w.vio(&sig, || detail, || case);
    }
}

fn worker_rids(w: &mut WorkerCtx) {
    if std::env::vars_os().next().is_some() {
        machinery("rids worker environment is not empty");
    }
    start_watchdog(w.tier);
    let mut idx = 0u64;
    for su in SUDO_UIDS {
        for sg in SUDO_GIDS {
            if w.mine(idx) {
                TICK.fetch_add(1, Ordering::Relaxed);
                set_opt("SUDO_UID", &su.map(|x| x.to_string()));
                set_opt("SUDO_GID", &sg.map(|x| x.to_string()));
                let e = eval_rids();
                if idx == 16 {
                    w.sample(J::obj([("part", J::s("getrids")), ("SUDO_UID", J::s(su.unwrap_or("<unset>"))), ("SUDO_GID", J::s(sg.unwrap_or("<unset>"))), ("results", J::s(&e.outcome))]));
                }
                let key = if idx % RIDS_FRESH_EVERY == 0 { Some(format!("r{}", idx)) } else { None };
                report_rids(w, e, key);
            }
            idx += 1;
        }
    }
}

fn worker_rids1(w: &mut WorkerCtx) {
    // rids1 <key>: explicit environment
    let key = w.arg(1).to_string();
    if std::env::vars_os().any(|(k, _)| k != "SUDO_UID" && k != "SUDO_GID") {
        machinery("rids1 worker environment contains unexpected variables");
    }
    start_watchdog(w.tier);
    let e = eval_rids();
    w.sample(J::obj([
        ("part", J::s("getrids")),
        ("SUDO_UID", env("SUDO_UID").map(J::s).unwrap_or(J::Null)),
        ("SUDO_GID", env("SUDO_GID").map(J::s).unwrap_or(J::Null)),
        ("results", J::s(&e.outcome)),
        ("findings", J::arr(e.findings.iter().map(|(s, d, _)| J::obj([("signature", J::s(s)), ("detail", J::s(d))])))),
    ]));
    report_rids(w, e, Some(key));
}

pub fn worker(w: &mut WorkerCtx) {
    let _ = std::env::set_current_dir("/");
    match w.arg(0).to_string().as_str() {
        "dirs" => worker_dirs(w),
        "dirs1" => worker_dirs1(w),
        "cfg" => worker_cfg(w),
        "cfg1" => worker_cfg1(w),
        "rids" => worker_rids(w),
        "rids1" => worker_rids1(w),
        _ => machinery("unknown mode"),
    }
}

// ---------------------------------------------------------------------------------------------
// Parent side
// ---------------------------------------------------------------------------------------------
fn merge(into: &mut Gathered, g: Gathered) {
    for (k, v) in g.counters {
        *into.counters.entry(k).or_insert(0) += v;
    }
    for s in g.samples {
        if into.samples.len() < 8 {
            into.samples.push(s);
        }
    }
    into.failed.extend(g.failed);
}

fn to_env(cfg: &[(&'static str, Option<String>)]) -> Vec<(String, String)> {
    cfg.iter().filter_map(|(k, v)| v.as_ref().map(|v| (k.to_string(), v.clone()))).collect()
}

fn launch(ctx: &Ctx, nshards: u64, extra: Vec<String>, env: Vec<(String, String)>) -> Gathered {
    let mut g = Gathered::default();
    run_workers(ctx, &Launch { name: "c18".into(), nshards, extra, uid: None, env: Some(env) }, &mut g);
    g
}

struct Fresh {
    extra: Vec<String>,
    env: Vec<(String, String)>,
    key: String,
    what: String,
}

pub fn run(ctx: &Ctx) -> i32 {
    quiet_panics();
    crate::engines::sandbox::sweep_stale();
    let sb = Sandbox::new("c18");
    if let Some(p) = &ctx.replay {
        return replay(ctx, p, &sb);
    }
    let sp = DirsSpace::new(ctx.tier);
    let gs = sp.group_size();
    let cfg_shards = 4u64;

    // sweeps: the dirs groups (explicit HOME x XDG_CONFIG_HOME), the config_dir sweep, the getrids sweep
    let sweeps: Vec<Gathered> = std::thread::scope(|s| {
        let mut hs = vec![];
        for group in 0..sp.groups() {
            let sp = &sp;
            hs.push(s.spawn(move || {
                let cfg = sp.config(group * gs);
                launch(ctx, 2, vec!["dirs".into(), group.to_string()], to_env(&cfg[..2]))
            }));
        }
        let root = sb.root.clone();
        hs.push(s.spawn(move || launch(ctx, cfg_shards, vec!["cfg".into(), root], vec![])));
        hs.push(s.spawn(move || launch(ctx, 1, vec!["rids".into()], vec![])));
        hs.into_iter().map(|h| h.join().expect("sweep thread")).collect()
    });
    let mut total = Gathered::default();
    for g in sweeps {
        merge(&mut total, g);
    }

    // fresh-process equivalence self-check
    let mut fresh_jobs: Vec<Fresh> = vec![];
    let mut idx = 0;
    while idx < sp.n() {
        let cfg = sp.config(idx);
        fresh_jobs.push(Fresh { extra: vec!["dirs1".into(), format!("d{}", idx)], env: to_env(&cfg), key: format!("d{}", idx), what: format!("dirs configuration {:?}", cfg) });
        idx += DIRS_FRESH_EVERY;
    }
    let mut idx = 0;
    while idx < CFG_N {
        if let Some(c) = cfg_case(idx) {
            let area = cfg_area(&sb.root, c, &format!("f{}", idx));
            let l = layout(&area);
            fresh_jobs.push(Fresh {
                extra: vec!["cfg1".into(), area, idx.to_string(), format!("c{}", idx)],
                env: to_env(&l.env(c.h, c.x, c.d)),
                key: format!("c{}", idx),
                what: format!("config_dir case {:?}", c),
            });
        }
        idx += CFG_FRESH_EVERY;
    }
    let mut idx = 0u64;
    for su in SUDO_UIDS {
        for sg in SUDO_GIDS {
            if idx % RIDS_FRESH_EVERY == 0 {
                let mut e = vec![];
                if let Some(x) = su {
                    e.push(("SUDO_UID".to_string(), x.to_string()));
                }
                if let Some(x) = sg {
                    e.push(("SUDO_GID".to_string(), x.to_string()));
                }
                fresh_jobs.push(Fresh { extra: vec!["rids1".into(), format!("r{}", idx)], env: e, key: format!("r{}", idx), what: format!("getrids SUDO_UID={:?} SUDO_GID={:?}", su, sg) });
            }
            idx += 1;
        }
    }
    let fresh_results: std::sync::Mutex<BTreeMap<String, u64>> = std::sync::Mutex::new(BTreeMap::new());
    let fresh_failed: std::sync::Mutex<Vec<String>> = std::sync::Mutex::new(vec![]);
    par_each(ctx.threads, &fresh_jobs, |_, _, job| {
        let g = launch(ctx, 1, job.extra.clone(), job.env.clone());
        fresh_failed.lock().unwrap().extend(g.failed.iter().cloned());
        if let Some(v) = g.counters.get(&format!("dg|{}", job.key)) {
            fresh_results.lock().unwrap().insert(job.key.clone(), *v);
        }
    });
    let fresh_results = fresh_results.into_inner().unwrap();
    let mut machinery_errors: Vec<String> = vec![];
    machinery_errors.extend(total.failed.iter().cloned());
    machinery_errors.extend(fresh_failed.into_inner().unwrap());
    let mut compared = 0u64;
    for job in &fresh_jobs {
        let a = total.counters.get(&format!("dg|{}", job.key));
        let b = fresh_results.get(&job.key);
        match (a, b) {
            (Some(a), Some(b)) if a == b => compared += 1,
            _ => machinery_errors.push(format!("fresh-process equivalence check failed for {}: sweep digest {:?}, fresh digest {:?}", job.what, a, b)),
        }
    }
    let cfg_expected = (0..CFG_N).filter(|i| cfg_case(*i).is_some()).count() as u64;
    let rids_expected = (SUDO_UIDS.len() * SUDO_GIDS.len() * UIDS.len() * GIDS.len()) as u64;
    let shapes_expected = LISTS.iter().map(|(_, p, q)| list_shapes(p, q).len() as u64).sum::<u64>();
    let reordered_expected: u64 = (0..2u64)
        .flat_map(|b| (0..3u64).flat_map(move |x| (0..6u64).flat_map(move |d| (0..32u64).flat_map(move |m| [0u64, 2, 1, 2, 0].into_iter().map(move |h| (((b * 3 + h) * 3 + x) * 6 + d) * 32 + m)))))
        .filter(|i| cfg_case(*i).is_some())
        .count() as u64;
    if total.c("cfg_cases_reordered") != reordered_expected {
        machinery_errors.push(format!("cfg_cases_reordered = {} but {} expected", total.c("cfg_cases_reordered"), reordered_expected));
    }
    for (k, want) in [("dirs_configs", sp.n()), ("dirs_shape_configs", shapes_expected), ("dirs_foreign_configs", 2 * FOREIGN.len() as u64), ("cfg_cases", cfg_expected), ("rids_cases", rids_expected)] {
        if total.c(k) != want {
            machinery_errors.push(format!("{} = {} but {} expected", k, total.c(k), want));
        }
    }
    if !machinery_errors.is_empty() {
        for m in machinery_errors.iter().take(10) {
            eprintln!("machinery: {}", m);
        }
        return 2;
    }

    let evaluations = total.c("dirs_calls") + total.c("cfg_cases") + total.c("rids_cases");
    let nontrivial = total.c("dirs_nontrivial") + total.c("cfg_nontrivial") + total.c("rids_nontrivial");
    let cov = J::obj([
        ("evaluations", J::i(evaluations)),
        ("distinct_nontrivial", J::i(nontrivial)),
        ("rule", J::s("all cases are distinct (configuration index x function). evaluations = 9 function calls per environment configuration + config_dir cases + getrids calls. non-trivial = environment configurations with at least one variable set to a non-empty value + config_dir cases in which at least one candidate directory contains the file + getrids calls whose demanded result differs from (uid, gid).")),
        ("dirs_configurations", J::i(total.c("dirs_configs"))),
        ("dirs_function_calls", J::i(total.c("dirs_calls"))),
        ("dirs_list_shape_configurations", J::i(total.c("dirs_shape_configs"))),
        ("config_dir_cases", J::i(total.c("cfg_cases"))),
        ("config_dir_cases_rerun_with_home_changing_between_consecutive_calls", J::i(total.c("cfg_cases_reordered"))),
        ("getrids_calls", J::i(total.c("rids_cases"))),
        ("fresh_process_reruns_compared", J::i(compared)),
        (
            "observation_config_dir_none_while_user_dir_undeterminable_and_system_dir_has_file",
            J::i(total.c("cfg_none_while_user_dir_undeterminable_and_system_dir_has_file")),
        ),
        ("samples", J::Arr(total.samples.clone())),
        ("exhaustive", J::Bool(true)),
        (
            "bounds",
            J::s(format!(
                "dirs: {:?} each in forms {:?} of {{0 unset, 1 \"\", 2 '/x<tag>', 3 'rel/x<tag>/'}} x {:?} each in list forms {:?} of {{0 unset, 1 \"\", 2 'p', 3 'p:q', 4 ':p::q:', 5 'relp:q/', 6 '::'}} = {} configurations + each list variable alone over every list of 1..=4 segments from {{\"\", p, p/, q, /}} (adjacent repeats, trailing separators, root) + 10 foreign variables (TMPDIR, TMP, USER, ...) each added to the all-unset configuration and to the one with every other variable set: no result may change; config_dir: backend {{Memfs, Stdfs}} x HOME x XDG_CONFIG_HOME {{unset, \"\", value}} x XDG_CONFIG_DIRS (6 forms incl. one that repeats the user directory) x every subset of [XDG_CONFIG_HOME dir, HOME/.config, cp, cq, /etc/xdg] holding the name x the name being one of (a regular file, a link whose target is missing, a directory) (/etc/xdg only on Memfs), decoy directories of XDG_DATA_HOME, XDG_DATA_DIRS, XDG_CACHE_HOME always hold it; getrids: uid {:?} x gid {:?} x SUDO_UID {:?} x SUDO_GID {:?}",
                SINGLE.iter().map(|x| x.0).collect::<Vec<_>>(),
                sp.singles,
                LISTS.iter().map(|x| x.0).collect::<Vec<_>>(),
                sp.lists,
                sp.n(),
                UIDS,
                GIDS,
                SUDO_UIDS,
                SUDO_GIDS
            )),
        ),
    ]);
    finish(ctx, Evidence {
        level: "exploration",
        coverage: cov,
        assumptions: vec![
            "paths compared with Path equality (component sequences)".into(),
            "empty XDG_*_HOME / XDG_RUNTIME_DIR: empty value or unset behaviour accepted; empty HOME: Err, '/<suffix>' or '<suffix>' accepted; path_dirs without usable PATH: Err or empty list accepted".into(),
            "config_dir with undeterminable user directory (no XDG_CONFIG_HOME value and no HOME value): None or the first XDG_CONFIG_DIRS hit accepted; occurrences of None-while-a-system-directory-has-the-file are counted as an observation".into(),
            "getrids: 'numeric' = non-empty, ASCII digits only, fits u32".into(),
            "HOME and XDG_CONFIG_HOME (dirs part) come from the explicit process environment, all other variables are varied inside single-threaded workers by set_var/remove_var; equivalence with fresh processes is checked on every 500th dirs configuration, every 100th config_dir case and every 5th SUDO pair".into(),
            "Stdfs part: variables point into a private tmpfs sandbox; /etc/xdg on the real filesystem is only read".into(),
        ],
    })
}

fn replay(ctx: &Ctx, p: &std::path::Path, sb: &Sandbox) -> i32 {
    let j = json::parse(&std::fs::read_to_string(p).expect("read replay")).expect("parse replay");
    let case = j.get("case").expect("case");
    let part = case.get("part").and_then(|x| x.as_str()).unwrap_or("");
    let env_of = |c: &J| -> Vec<(String, String)> {
        match c.get("env") {
            Some(J::Obj(v)) => v.iter().filter_map(|(k, v)| v.as_str().map(|s| (k.clone(), s.to_string()))).collect(),
            _ => vec![],
        }
    };
    println!("replay C18 part={} (fresh process, explicit environment)", part);
    let g = match part {
        "dirs" => launch(ctx, 1, vec!["dirs1".into(), "replay".into()], env_of(case)),
        "getrids" => launch(ctx, 1, vec!["rids1".into(), "replay".into()], env_of(case)),
        "config_dir" => {
            let gi = |k: &str| case.get(k).and_then(|x| x.as_i64()).expect("case field") as u64;
            let b = if case.get("backend").and_then(|x| x.as_str()) == Some("stdfs") { 1 } else { 0 };
            let kind = case.get("kind").and_then(|x| x.as_i64()).unwrap_or(0) as u64;
            let idx = kind * CFG_BASE_N + (((b * 3 + gi("home")) * 3 + gi("xdg_config_home")) * 6 + gi("xdg_config_dirs")) * 32 + gi("mask");
            let c = cfg_case(idx).expect("valid case");
            let area = cfg_area(&sb.root, c, "replay");
            let l = layout(&area);
            launch(ctx, 1, vec!["cfg1".into(), area, idx.to_string(), "replay".into()], to_env(&l.env(c.h, c.x, c.d)))
        },
        // (re-runs the whole config_dir worker: the probe is part of it)
        "config_dir-unresolvable-candidate" => launch(ctx, 1, vec!["cfg".into(), sb.root.clone()], vec![]),
        _ => {
            eprintln!("machinery: unknown replay part {:?}", part);
            return 2;
        },
    };
    if !g.failed.is_empty() {
        eprintln!("machinery: {}", g.failed.join("; "));
        return 2;
    }
    for s in &g.samples {
        println!("{}", s.to_pretty());
    }
    let sigs = vio_signatures();
    if sigs.is_empty() {
        println!("holds");
        0
    } else {
        for s in sigs {
            println!("  signature: {}", s);
        }
        println!("VIOLATION property={} replay={}", ctx.prop, p.display());
        1
    }
}

pub mod c01;
pub mod c02;
pub mod c03;
pub mod c04;
pub mod c05;
pub mod c06;
pub mod c07;
pub mod c08;
pub mod c09;
pub mod c10;
pub mod c11;
pub mod c12;
pub mod c13;
pub mod c14;
pub mod c15;
pub mod c16;
pub mod c17;
pub mod c18;
pub mod c19;
pub mod c20;

use crate::common::json::J;
use crate::common::report::{finish, Ctx, Evidence};
use std::sync::OnceLock;

pub static CTX: OnceLock<Ctx> = OnceLock::new();

/// Called from a watchdog thread when a call into rivia does not return: emit what we have
/// (the hang violation was already recorded) and return the exit code for the process.
pub fn hang_exit(_prop: &str, sig: &str) -> i32 {
    // several watchdog threads can get here at once: the first one reports, the others wait for the exit
    static ENTERED: std::sync::atomic::AtomicBool = std::sync::atomic::AtomicBool::new(false);
    if ENTERED.swap(true, std::sync::atomic::Ordering::SeqCst) {
        loop {
            std::thread::sleep(std::time::Duration::from_secs(3600));
        }
    }
    // let concurrent reporters finish recording their violation before the summary is written
    std::thread::sleep(std::time::Duration::from_millis(300));
    let ctx = match CTX.get() {
        Some(c) => c,
        None => return 1,
    };
    let cov = J::obj([
        ("evaluations", J::i(1)),
        ("distinct_nontrivial", J::i(2)),
        ("rule", J::s("run aborted by the hang watchdog; counts are not meaningful")),
        ("samples", J::arr([J::s(sig)])),
        ("exhaustive", J::Bool(false)),
        ("explanation", J::s("a call into rivia did not return within the watchdog limit; exploration stopped at that case")),
    ]);
    let code = finish(ctx, Evidence { level: "other", coverage: cov, assumptions: vec!["aborted run".into()] });
    if code == 0 {
        // a hang can never be waved through as a known finding: exploration did not complete
        1
    } else {
        code
    }
}

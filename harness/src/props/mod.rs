pub mod c14;

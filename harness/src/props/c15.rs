//! C15 Path helpers obey their inverse and containment laws on all UTF-8 input.
//!
//! Engine E3: bounded exhaustive string enumeration. Every string / pair of strings over the stated
//! alphabets up to the stated length is pushed through the real rivia helper (free function form
//! `sys::xxx` and `PathExt` method form, each under `catch_unwind`) and the result is compared with a
//! law stated over plain `str` operations or over `std::path::Component` sequences.
//!
//! What is demanded and what is left open (soundness notes):
//! * "components of x" always means `Path::new(x).components()` of std. std already drops repeated
//!   separators, a trailing separator and every `.` that is not the very first component.
//! * mash(d, p): with p' = p minus ALL leading '/', the component list of the result must be
//!   comps(d) ++ comps(p'); because std cannot represent a `.` in the middle of a path a leading
//!   CurDir of p' may be dropped (both lists accepted). The result string has no trailing separator
//!   (unless it is just a root) and `result.starts_with(d)` component-wise.
//! * trim_prefix / trim_suffix: results compared as *strings* (PathBuf equality would forgive a
//!   trailing separator).
//! * ext law: only when `ext(p)` is Ok(e): trim_ext(p) must be Ok(t) with t + "." + e == p, and when
//!   base(p) is Ok(b) then name(p) must be Ok(n) with n + "." + e == b. When ext fails: trim_ext, if
//!   Ok, returns p unchanged and name == base (doc: "final component without an extension if there
//!   is one"). `ext` itself is compared with a reference only where the answer is beyond dispute:
//!   last component Normal whose last '.' is strictly inside the name (=> Ok(text after it)), or
//!   Normal without any '.' (=> Err). Names whose last '.' is leading or trailing, and paths whose
//!   last component is not Normal, are left open.
//! * Cause classes in ext-law signatures: `tail=after-name-noise` = the string does not end with its
//!   final component (trailing separator or "/."), `stem=dots` = final component minus extension is
//!   "." or "..", otherwise `tail=plain utf8=ascii|multibyte`.
//! * No loops in the code under test can run unbounded (pure string functions), so no watchdog.
//! * split laws, C = comps(p), n = |C|: n = 0 -> base/first/last are Err (or Ok("")), dir is Err (or
//!   Ok of an empty path), trim_first/trim_last have no components. n >= 1 -> first = C[0],
//!   comps(trim_first) = C[1..], last = base = C[n-1], comps(trim_last) = C[..n-1]; dir: n >= 2 ->
//!   Ok with comps C[..n-1]; n = 1 -> Err ("no parent") or Ok with no components (both accepted).
//! * trim_protocol: reference removes exactly one leading `file://`, `ftp://`, `http://`,
//!   `https://` (ASCII case-insensitive), else returns the input unchanged.
use crate::common::json::J;
use crate::common::par::*;
use crate::common::report::*;
use crate::common::strings::*;
use rivia::prelude::*;
use std::panic::{catch_unwind, AssertUnwindSafe};
use std::path::{Component, Path, PathBuf};
use std::sync::Mutex;

// ---------------------------------------------------------------------------------------------
// Outcome of one call into rivia
// ---------------------------------------------------------------------------------------------
#[derive(Clone, PartialEq, Eq, Debug)]
enum O {
    Ok(String),
    Err(String),
    Panic(String),
}

impl O {
    fn show(&self) -> String {
        match self {
            O::Ok(s) => format!("Ok({:?})", s),
            O::Err(e) => format!("Err({})", e),
            O::Panic(m) => format!("PANIC({})", m),
        }
    }
}

fn pb_str(p: PathBuf) -> String {
    match p.into_os_string().into_string() {
        Ok(s) => s,
        Err(os) => format!("<non-utf8 {:?}>", os),
    }
}

fn run_path<F: FnOnce() -> PathBuf>(f: F) -> O {
    match catch_unwind(AssertUnwindSafe(f)) {
        Ok(p) => O::Ok(pb_str(p)),
        Err(e) => O::Panic(panic_message(&e)),
    }
}
fn run_rpath<F: FnOnce() -> RvResult<PathBuf>>(f: F) -> O {
    match catch_unwind(AssertUnwindSafe(f)) {
        Ok(Ok(p)) => O::Ok(pb_str(p)),
        Ok(Err(e)) => O::Err(format!("{}", e)),
        Err(e) => O::Panic(panic_message(&e)),
    }
}
fn run_rstr<F: FnOnce() -> RvResult<String>>(f: F) -> O {
    match catch_unwind(AssertUnwindSafe(f)) {
        Ok(Ok(p)) => O::Ok(p),
        Ok(Err(e)) => O::Err(format!("{}", e)),
        Err(e) => O::Panic(panic_message(&e)),
    }
}
fn run_bool<F: FnOnce() -> bool>(f: F) -> O {
    match catch_unwind(AssertUnwindSafe(f)) {
        Ok(b) => O::Ok(if b { "true".into() } else { "false".into() }),
        Err(e) => O::Panic(panic_message(&e)),
    }
}
fn run_string<F: FnOnce() -> String>(f: F) -> O {
    match catch_unwind(AssertUnwindSafe(f)) {
        Ok(s) => O::Ok(s),
        Err(e) => O::Panic(panic_message(&e)),
    }
}

/// free-function form and method form must give the same answer (error text not compared)
fn same(a: &O, b: &O) -> bool {
    match (a, b) {
        (O::Ok(x), O::Ok(y)) => x == y,
        (O::Err(_), O::Err(_)) => true,
        (O::Panic(_), O::Panic(_)) => true,
        _ => false,
    }
}

// ---------------------------------------------------------------------------------------------
// Law ids, recorder
// ---------------------------------------------------------------------------------------------
const NLAWS: usize = 17;
const LAW_NAMES: [&str; NLAWS] = [
    "mash",
    "trim_prefix_strip",
    "trim_prefix_direct",
    "trim_suffix_strip",
    "trim_suffix_direct",
    "str_trim_suffix",
    "has",
    "concat",
    "ext",
    "split_dir_base",
    "split_first",
    "split_last",
    "is_empty",
    "trim_protocol",
    "parse_paths",
    "pathext_equivalence",
    "random_supplement",
];
const MASH: usize = 0;
const TP_STRIP: usize = 1;
const TP_DIRECT: usize = 2;
const TS_STRIP: usize = 3;
const TS_DIRECT: usize = 4;
const STR_TS: usize = 5;
const HAS: usize = 6;
const CONCAT: usize = 7;
const EXT: usize = 8;
const SPLIT_DB: usize = 9;
const SPLIT_F: usize = 10;
const SPLIT_L: usize = 11;
const IS_EMPTY: usize = 12;
const TPROTO: usize = 13;
const PARSE: usize = 14;
const PEQ: usize = 15;
const RANDOM: usize = 16;

struct Finding {
    sig: String,
    detail: String,
    law: &'static str,
    a: String,
    b: String,
}

struct Rec {
    verbose: bool,
    notes: Vec<String>,
    finds: Vec<Finding>,
    ev: [u64; NLAWS],
    nt: [u64; NLAWS],
}

impl Rec {
    fn new(verbose: bool) -> Rec {
        Rec { verbose, notes: vec![], finds: vec![], ev: [0; NLAWS], nt: [0; NLAWS] }
    }
    #[inline]
    fn note<F: FnOnce() -> String>(&mut self, f: F) {
        if self.verbose {
            self.notes.push(f());
        }
    }
    fn fail<F: FnOnce() -> String>(&mut self, law: usize, a: &str, b: &str, sig: String, detail: F) {
        self.finds.push(Finding { sig, detail: detail(), law: LAW_NAMES[law], a: a.to_string(), b: b.to_string() });
    }
    /// method form vs free form
    fn peq(&mut self, law: usize, a: &str, b: &str, func: &str, free: &O, meth: &O) {
        self.ev[PEQ] += 1;
        if !same(free, meth) {
            let (f2, m2) = (free.show(), meth.show());
            self.fail(law, a, b, format!("{} pathext-differs", func), || {
                format!("sys::{}({:?}, {:?}) = {} but the PathExt method form gives {}", func, a, b, f2, m2)
            });
        }
    }
}

// ---------------------------------------------------------------------------------------------
// small helpers
// ---------------------------------------------------------------------------------------------
fn comps(s: &str) -> Vec<Component<'_>> {
    Path::new(s).components().collect()
}
fn cstr<'a>(c: &Component<'a>) -> &'a str {
    c.as_os_str().to_str().unwrap_or("<non-utf8>")
}
fn show_comps(c: &[Component]) -> String {
    let v: Vec<String> = c
        .iter()
        .map(|x| match x {
            Component::RootDir => "Root".to_string(),
            Component::CurDir => "CurDir".to_string(),
            Component::ParentDir => "ParentDir".to_string(),
            Component::Normal(n) => format!("{:?}", n.to_string_lossy()),
            Component::Prefix(_) => "Prefix".to_string(),
        })
        .collect();
    format!("[{}]", v.join(", "))
}
fn utf8class(parts: &[&str]) -> &'static str {
    if parts.iter().all(|s| s.is_ascii()) {
        "ascii"
    } else {
        "multibyte"
    }
}
fn lead_class(p: &str) -> &'static str {
    match p.len() - p.trim_start_matches('/').len() {
        0 => "0",
        1 => "1",
        _ => "2+",
    }
}
fn ncls(n: usize) -> &'static str {
    match n {
        0 => "0",
        1 => "1",
        _ => "2+",
    }
}

// ---------------------------------------------------------------------------------------------
// Laws
// ---------------------------------------------------------------------------------------------

/// mash(d, p)
fn law_mash(r: &mut Rec, d: &str, p: &str) {
    r.ev[MASH] += 1;
    let free = run_path(|| sys::mash(d, p));
    let meth = run_path(|| PathExt::mash(Path::new(d), p));
    r.peq(MASH, d, p, "mash", &free, &meth);
    let stripped = p.trim_start_matches('/');
    let cd = comps(d);
    let cp = comps(stripped);
    if !cd.is_empty() && !cp.is_empty() {
        r.nt[MASH] += 1;
    }
    let mut want1 = cd.clone();
    want1.extend(cp.iter().cloned());
    let mut want2 = cd.clone();
    want2.extend(cp.iter().skip_while(|c| **c == Component::CurDir).cloned());
    r.note(|| format!("sys::mash({:?}, {:?}) = {}; expected components {} (a leading '.' of the second argument may be dropped)", d, p, free.show(), show_comps(&want1)));
    match &free {
        O::Panic(m) => {
            let m = m.clone();
            r.fail(MASH, d, p, format!("mash panic lead-seps={} utf8={}", lead_class(p), utf8class(&[d, p])), || {
                format!("mash({:?}, {:?}) panicked: {}", d, p, m)
            });
        },
        O::Err(_) => {},
        O::Ok(res) => {
            let got = comps(res);
            if got != want1 && got != want2 {
                let under = Path::new(res).starts_with(Path::new(d));
                let kind = if under { "components-differ" } else { "escapes-dir" };
                let (g, w) = (show_comps(&got), show_comps(&want1));
                r.fail(MASH, d, p, format!("mash {} lead-seps={}", kind, lead_class(p)), || {
                    format!(
                        "mash({:?}, {:?}) = {:?} with components {}; the law demands the components of the directory followed by those of {:?} (all leading separators removed): {}{}",
                        d,
                        p,
                        res,
                        g,
                        stripped,
                        w,
                        if under { "" } else { " -- the result is not lexically under the directory" }
                    )
                });
            } else if !Path::new(res).starts_with(Path::new(d)) {
                r.fail(MASH, d, p, format!("mash escapes-dir lead-seps={}", lead_class(p)), || {
                    format!("mash({:?}, {:?}) = {:?} does not start with the directory", d, p, res)
                });
            }
            if res.len() > 1 && res.ends_with('/') {
                r.fail(MASH, d, p, "mash trailing-separator".to_string(), || format!("mash({:?}, {:?}) = {:?} ends with a separator", d, p, res));
            }
        },
    }
}

fn affix_check(r: &mut Rec, law: usize, func: &str, kind: &str, path: &str, affix: &str, want: &str, free: &O) {
    r.note(|| format!("sys::{}({:?}, {:?}) = {}; expected Ok({:?}) [{}]", func, path, affix, free.show(), want, kind));
    match free {
        O::Panic(m) => {
            let m = m.clone();
            r.fail(law, path, affix, format!("{} {} panic utf8={}", func, kind, utf8class(&[path, affix])), || {
                format!("{}({:?}, {:?}) panicked: {} (expected {:?})", func, path, affix, m, want)
            });
        },
        O::Ok(got) if got != want => {
            r.fail(law, path, affix, format!("{} {} wrong-result utf8={}", func, kind, utf8class(&[path, affix])), || {
                format!("{}({:?}, {:?}) = {:?}, expected {:?}", func, path, affix, got, want)
            });
        },
        _ => {},
    }
}

/// trim_prefix(s + p, s) == p
fn law_trim_prefix_strip(r: &mut Rec, s: &str, p: &str) {
    r.ev[TP_STRIP] += 1;
    if !s.is_empty() {
        r.nt[TP_STRIP] += 1;
    }
    let x = format!("{}{}", s, p);
    let free = run_path(|| sys::trim_prefix(&x, s));
    let meth = run_path(|| PathExt::trim_prefix(Path::new(&x), s));
    r.peq(TP_STRIP, &x, s, "trim_prefix", &free, &meth);
    affix_check(r, TP_STRIP, "trim_prefix", "strip", &x, s, p, &free);
}

/// trim_prefix(x, s): unchanged when s is not a prefix (stripped when it is)
fn law_trim_prefix_direct(r: &mut Rec, x: &str, s: &str) {
    r.ev[TP_DIRECT] += 1;
    let (want, kind) = match x.strip_prefix(s) {
        Some(rest) => (rest, "strip"),
        None => {
            r.nt[TP_DIRECT] += 1;
            (x, "keep")
        },
    };
    let free = run_path(|| sys::trim_prefix(x, s));
    let meth = run_path(|| PathExt::trim_prefix(Path::new(x), s));
    r.peq(TP_DIRECT, x, s, "trim_prefix", &free, &meth);
    affix_check(r, TP_DIRECT, "trim_prefix", kind, x, s, want, &free);
}

/// trim_suffix(p + s, s) == p
fn law_trim_suffix_strip(r: &mut Rec, p: &str, s: &str) {
    r.ev[TS_STRIP] += 1;
    if !s.is_empty() {
        r.nt[TS_STRIP] += 1;
    }
    let x = format!("{}{}", p, s);
    let free = run_path(|| sys::trim_suffix(&x, s));
    let meth = run_path(|| PathExt::trim_suffix(Path::new(&x), s));
    r.peq(TS_STRIP, &x, s, "trim_suffix", &free, &meth);
    affix_check(r, TS_STRIP, "trim_suffix", "strip", &x, s, p, &free);
}

/// trim_suffix(x, s): unchanged when s is not a suffix (stripped when it is)
fn law_trim_suffix_direct(r: &mut Rec, x: &str, s: &str) {
    r.ev[TS_DIRECT] += 1;
    let (want, kind) = match x.strip_suffix(s) {
        Some(rest) => (rest, "strip"),
        None => {
            r.nt[TS_DIRECT] += 1;
            (x, "keep")
        },
    };
    let free = run_path(|| sys::trim_suffix(x, s));
    let meth = run_path(|| PathExt::trim_suffix(Path::new(x), s));
    r.peq(TS_DIRECT, x, s, "trim_suffix", &free, &meth);
    affix_check(r, TS_DIRECT, "trim_suffix", kind, x, s, want, &free);
}

/// StringExt::trim_suffix (src/core/string.rs) obeys the same law on plain strings
fn law_str_trim_suffix(r: &mut Rec, x: &str, s: &str) {
    r.ev[STR_TS] += 1;
    let (want, kind) = match x.strip_suffix(s) {
        Some(rest) => {
            if !s.is_empty() {
                r.nt[STR_TS] += 1;
            }
            (rest, "strip")
        },
        None => (x, "keep"),
    };
    let a = run_string(|| StringExt::trim_suffix(x, s));
    let b = run_string(|| StringExt::trim_suffix(&x.to_string(), s));
    affix_check(r, STR_TS, "str.trim_suffix", kind, x, s, want, &a);
    affix_check(r, STR_TS, "String.trim_suffix", kind, x, s, want, &b);
}

/// has / has_prefix / has_suffix agree with str::contains / starts_with / ends_with
fn law_has(r: &mut Rec, x: &str, s: &str) {
    r.ev[HAS] += 3;
    if x.contains(s) && !s.is_empty() && s != x {
        r.nt[HAS] += 1;
    }
    let table: [(&str, bool, O, O); 3] = [
        ("has", x.contains(s), run_bool(|| sys::has(x, s)), run_bool(|| PathExt::has(Path::new(x), s))),
        ("has_prefix", x.starts_with(s), run_bool(|| sys::has_prefix(x, s)), run_bool(|| PathExt::has_prefix(Path::new(x), s))),
        ("has_suffix", x.ends_with(s), run_bool(|| sys::has_suffix(x, s)), run_bool(|| PathExt::has_suffix(Path::new(x), s))),
    ];
    for (func, want, free, meth) in table.iter() {
        r.peq(HAS, x, s, func, free, meth);
        r.note(|| format!("sys::{}({:?}, {:?}) = {}; expected {}", func, x, s, free.show(), want));
        match free {
            O::Panic(m) => {
                let m = m.clone();
                r.fail(HAS, x, s, format!("{} panic utf8={}", func, utf8class(&[x, s])), || format!("{}({:?}, {:?}) panicked: {}", func, x, s, m));
            },
            O::Ok(v) if (v == "true") != *want => {
                r.fail(HAS, x, s, format!("{} disagrees-with-str expected={}", func, want), || {
                    format!("{}({:?}, {:?}) = {} but the str predicate gives {}", func, x, s, v, want)
                });
            },
            _ => {},
        }
    }
}

/// concat(p, s) == p + s
fn law_concat(r: &mut Rec, p: &str, s: &str) {
    r.ev[CONCAT] += 1;
    if !p.is_empty() && !s.is_empty() {
        r.nt[CONCAT] += 1;
    }
    let free = run_rpath(|| sys::concat(p, s));
    let meth = run_rpath(|| PathExt::concat(Path::new(p), s));
    r.peq(CONCAT, p, s, "concat", &free, &meth);
    let want = format!("{}{}", p, s);
    r.note(|| format!("sys::concat({:?}, {:?}) = {}; expected Ok({:?})", p, s, free.show(), want));
    match &free {
        O::Ok(g) if *g == want => {},
        other => {
            let kind = match other {
                O::Ok(_) => "wrong-result",
                O::Err(_) => "error",
                O::Panic(_) => "panic",
            };
            let o2 = other.show();
            r.fail(CONCAT, p, s, format!("concat {}", kind), || format!("concat({:?}, {:?}) = {}, expected Ok({:?})", p, s, o2, want));
        },
    }
}

/// reference for `ext` where the answer is beyond dispute: Some(Some(e)) must be Ok(e),
/// Some(None) must be Err, None = left open
fn ref_ext(p: &str) -> Option<Option<&str>> {
    let c = comps(p);
    match c.last() {
        Some(Component::Normal(n)) => {
            let n = n.to_str()?;
            match n.rfind('.') {
                None => Some(None),
                Some(i) if i > 0 && i + 1 < n.len() => Some(Some(&n[i + 1..])),
                Some(_) => None,
            }
        },
        _ => None,
    }
}

/// trim_ext(p) + "." + ext(p) == p whenever ext succeeds; name(p) is base(p) without that extension
fn law_ext(r: &mut Rec, p: &str) {
    r.ev[EXT] += 1;
    let e = run_rstr(|| sys::ext(p));
    let t = run_rpath(|| sys::trim_ext(p));
    let n = run_rstr(|| sys::name(p));
    let b = run_rstr(|| sys::base(p));
    let e2 = run_rstr(|| PathExt::ext(Path::new(p)));
    let t2 = run_rpath(|| PathExt::trim_ext(Path::new(p)));
    let n2 = run_rstr(|| PathExt::name(Path::new(p)));
    r.peq(EXT, p, "", "ext", &e, &e2);
    r.peq(EXT, p, "", "trim_ext", &t, &t2);
    r.peq(EXT, p, "", "name", &n, &n2);
    r.note(|| format!("sys::ext({:?}) = {}; sys::trim_ext = {}; sys::name = {}; sys::base = {}", p, e.show(), t.show(), n.show(), b.show()));
    let u = utf8class(&[p]);
    for (func, o) in [("ext", &e), ("trim_ext", &t), ("name", &n)] {
        if let O::Panic(m) = o {
            let m = m.clone();
            r.fail(EXT, p, "", format!("{} panic utf8={}", func, u), || format!("{}({:?}) panicked: {}", func, p, m));
        }
    }
    // ext against the undisputed part of the reference
    match (ref_ext(p), &e) {
        (Some(Some(want)), O::Ok(got)) if got != want => {
            r.fail(EXT, p, "", "ext wrong-value".to_string(), || format!("ext({:?}) = {:?}, expected {:?}", p, got, want));
        },
        (Some(Some(want)), O::Err(err)) => {
            let err = err.clone();
            r.fail(EXT, p, "", "ext missing".to_string(), || format!("ext({:?}) failed ({}) but the final component has the extension {:?}", p, err, want));
        },
        (Some(None), O::Ok(got)) => {
            r.fail(EXT, p, "", "ext invented".to_string(), || format!("ext({:?}) = {:?} but the final component contains no '.'", p, got));
        },
        _ => {},
    }
    match &e {
        O::Ok(ext) => {
            r.nt[EXT] += 1;
            // tail class: does the string end with its final component?
            // cause class of a failing instance: (1) the string does not end with its final component
            // (trailing separator or "/."), (2) the final component minus its extension is "." / "..",
            // (3) otherwise only ascii vs multibyte is distinguished
            let cause: String = match &b {
                O::Ok(bv) if p.ends_with(bv.as_str()) => {
                    let stem = bv.strip_suffix(ext.as_str()).and_then(|x| x.strip_suffix('.'));
                    match stem {
                        Some(st) if !st.is_empty() && st.chars().all(|c| c == '.') => "stem=dots".to_string(),
                        _ => format!("tail=plain utf8={}", u),
                    }
                },
                _ => "tail=after-name-noise".to_string(),
            };
            match &t {
                O::Ok(tv) => {
                    let back = format!("{}.{}", tv, ext);
                    if back != p {
                        // pure string law: the "stem" class is irrelevant here
                        let cause_t = if cause == "stem=dots" { format!("tail=plain utf8={}", u) } else { cause.clone() };
                        r.fail(EXT, p, "", format!("trim_ext+ext!=path {}", cause_t), || {
                            format!("ext({:?}) = {:?} and trim_ext = {:?}: {:?} + \".\" + {:?} = {:?} != {:?}", p, ext, tv, tv, ext, back, p)
                        });
                    }
                },
                O::Err(err) => {
                    let err = err.clone();
                    r.fail(EXT, p, "", "trim_ext error-although-ext-ok".to_string(), || format!("ext({:?}) = {:?} but trim_ext failed: {}", p, ext, err));
                },
                O::Panic(_) => {},
            }
            if let O::Ok(bv) = &b {
                match &n {
                    O::Ok(nv) => {
                        let back = format!("{}.{}", nv, ext);
                        if back != *bv {
                            r.fail(EXT, p, "", format!("name!=base-minus-ext {}", cause), || {
                                format!("base({:?}) = {:?}, ext = {:?}, name = {:?}: name + \".\" + ext = {:?} != base", p, bv, ext, nv, back)
                            });
                        }
                    },
                    O::Err(err) => {
                        let err = err.clone();
                        r.fail(EXT, p, "", "name error-although-base-ok".to_string(), || format!("base({:?}) = {:?}, ext = {:?} but name failed: {}", p, bv, ext, err));
                    },
                    O::Panic(_) => {},
                }
            }
        },
        O::Err(_) => {
            if let O::Ok(tv) = &t {
                if tv != p {
                    r.fail(EXT, p, "", "trim_ext changed-path-without-ext".to_string(), || format!("ext({:?}) fails but trim_ext = {:?}", p, tv));
                }
            }
            if let O::Ok(bv) = &b {
                match &n {
                    O::Ok(nv) if nv == bv => {},
                    O::Panic(_) => {},
                    other => {
                        let o2 = other.show();
                        r.fail(EXT, p, "", "name!=base-without-ext".to_string(), || format!("ext({:?}) fails, base = {:?} but name = {}", p, bv, o2));
                    },
                }
            }
        },
        O::Panic(_) => {},
    }
}

fn want_component(r: &mut Rec, law: usize, p: &str, func: &str, o: &O, want: Option<&str>, n: usize) {
    match (o, want) {
        (O::Panic(m), _) => {
            let m = m.clone();
            r.fail(law, p, "", format!("{} panic n={}", func, ncls(n)), || format!("{}({:?}) panicked: {}", func, p, m));
        },
        (O::Ok(g), Some(w)) if g == w => {},
        (O::Ok(g), Some(w)) => {
            r.fail(law, p, "", format!("{} wrong-component n={}", func, ncls(n)), || format!("{}({:?}) = {:?}, expected the component {:?}", func, p, g, w));
        },
        (O::Err(e), Some(w)) => {
            let e = e.clone();
            r.fail(law, p, "", format!("{} error-although-component-exists n={}", func, ncls(n)), || format!("{}({:?}) failed ({}) but the component is {:?}", func, p, e, w));
        },
        (O::Ok(g), None) if !g.is_empty() => {
            r.fail(law, p, "", format!("{} component-from-nothing", func), || format!("{}({:?}) = {:?} but the path has no components", func, p, g));
        },
        _ => {},
    }
}

fn want_comps(r: &mut Rec, law: usize, p: &str, func: &str, o: &O, want: &[Component], n: usize, err_ok: bool) {
    match o {
        O::Panic(m) => {
            let m = m.clone();
            r.fail(law, p, "", format!("{} panic n={}", func, ncls(n)), || format!("{}({:?}) panicked: {}", func, p, m));
        },
        O::Ok(g) => {
            let got = comps(g);
            if got.as_slice() != want {
                let (gs, ws) = (show_comps(&got), show_comps(want));
                r.fail(law, p, "", format!("{} wrong-components n={}", func, ncls(n)), || {
                    format!("{}({:?}) = {:?} with components {}, expected {} (exactly one component split off {})", func, p, g, gs, ws, show_comps(&comps(p)))
                });
            }
        },
        O::Err(e) => {
            if !err_ok {
                let e = e.clone();
                let ws = show_comps(want);
                r.fail(law, p, "", format!("{} error n={}", func, ncls(n)), || format!("{}({:?}) failed ({}), expected a path with components {}", func, p, e, ws));
            }
        },
    }
}

/// dir/base, first/trim_first, last/trim_last split off exactly one component
fn law_split(r: &mut Rec, p: &str) {
    let c = comps(p);
    let n = c.len();
    let base = run_rstr(|| sys::base(p));
    let dir = run_rpath(|| sys::dir(p));
    let first = run_rstr(|| sys::first(p));
    let tfirst = run_path(|| sys::trim_first(p));
    let last = run_rstr(|| sys::last(p));
    let tlast = run_path(|| sys::trim_last(p));
    let pp = Path::new(p);
    r.peq(SPLIT_DB, p, "", "base", &base, &run_rstr(|| PathExt::base(pp)));
    r.peq(SPLIT_DB, p, "", "dir", &dir, &run_rpath(|| PathExt::dir(pp)));
    r.peq(SPLIT_F, p, "", "first", &first, &run_rstr(|| PathExt::first(pp)));
    r.peq(SPLIT_F, p, "", "trim_first", &tfirst, &run_path(|| PathExt::trim_first(pp)));
    r.peq(SPLIT_L, p, "", "last", &last, &run_rstr(|| PathExt::last(pp)));
    r.peq(SPLIT_L, p, "", "trim_last", &tlast, &run_path(|| PathExt::trim_last(pp)));
    r.ev[SPLIT_DB] += 1;
    r.ev[SPLIT_F] += 1;
    r.ev[SPLIT_L] += 1;
    if n >= 2 {
        r.nt[SPLIT_DB] += 1;
        r.nt[SPLIT_F] += 1;
        r.nt[SPLIT_L] += 1;
    }
    r.note(|| {
        format!(
            "components({:?}) = {}; base = {}; dir = {}; first = {}; trim_first = {}; last = {}; trim_last = {}",
            p,
            show_comps(&c),
            base.show(),
            dir.show(),
            first.show(),
            tfirst.show(),
            last.show(),
            tlast.show()
        )
    });
    let first_c = c.first().map(cstr);
    let last_c = c.last().map(cstr);
    let head: &[Component] = if n == 0 { &[] } else { &c[..n - 1] };
    let tail: &[Component] = if n == 0 { &[] } else { &c[1..] };
    want_component(r, SPLIT_DB, p, "base", &base, last_c, n);
    // an error is acceptable only where there is nothing to split off: no component at all, or the root alone
    // (a single relative component has the empty path as its directory)
    let nothing_to_split = n == 0 || (n == 1 && matches!(c[0], Component::RootDir));
    want_comps(r, SPLIT_DB, p, "dir", &dir, head, n, nothing_to_split);
    want_component(r, SPLIT_F, p, "first", &first, first_c, n);
    want_comps(r, SPLIT_F, p, "trim_first", &tfirst, tail, n, false);
    want_component(r, SPLIT_L, p, "last", &last, last_c, n);
    want_comps(r, SPLIT_L, p, "trim_last", &tlast, head, n, false);
}

fn law_is_empty(r: &mut Rec, p: &str) {
    r.ev[IS_EMPTY] += 1;
    if p.is_empty() {
        r.nt[IS_EMPTY] += 1;
    }
    let free = run_bool(|| sys::is_empty(p));
    let meth = run_bool(|| PathExt::is_empty(Path::new(p)));
    r.peq(IS_EMPTY, p, "", "is_empty", &free, &meth);
    let want = p.is_empty();
    r.note(|| format!("sys::is_empty({:?}) = {}; expected {}", p, free.show(), want));
    match &free {
        O::Ok(v) if (v == "true") == want => {},
        other => {
            let o2 = other.show();
            r.fail(IS_EMPTY, p, "", format!("is_empty wrong expected={}", want), || format!("is_empty({:?}) = {}, expected {}", p, o2, want));
        },
    }
}

const SCHEMES: [&str; 4] = ["file://", "ftp://", "http://", "https://"];

fn ref_trim_protocol(x: &str) -> (&str, &'static str) {
    let names = ["file", "ftp", "http", "https"];
    for (i, sch) in SCHEMES.iter().enumerate() {
        let l = sch.len();
        if x.len() >= l && x.is_char_boundary(l) && x[..l].eq_ignore_ascii_case(sch) {
            return (&x[l..], names[i]);
        }
    }
    (x, "none")
}

/// trim_protocol removes exactly one leading scheme, case-insensitively, and nothing else
fn law_trim_protocol(r: &mut Rec, x: &str) {
    r.ev[TPROTO] += 1;
    let (want, scheme) = ref_trim_protocol(x);
    if scheme != "none" {
        r.nt[TPROTO] += 1;
    }
    let free = run_path(|| sys::trim_protocol(x));
    let meth = run_path(|| PathExt::trim_protocol(Path::new(x)));
    r.peq(TPROTO, x, "", "trim_protocol", &free, &meth);
    r.note(|| format!("sys::trim_protocol({:?}) = {}; expected Ok({:?}) (scheme recognised by the reference: {})", x, free.show(), want, scheme));
    match &free {
        O::Panic(m) => {
            let m = m.clone();
            r.fail(TPROTO, x, "", format!("trim_protocol panic scheme={} utf8={}", scheme, utf8class(&[x])), || format!("trim_protocol({:?}) panicked: {}", x, m));
        },
        O::Ok(g) if g != want => {
            let kind = if scheme == "none" {
                "changed-without-scheme"
            } else if g == x {
                "scheme-not-removed"
            } else if want.ends_with(g.as_str()) {
                "removed-too-much"
            } else {
                "wrong-result"
            };
            r.fail(TPROTO, x, "", format!("trim_protocol {} scheme={}", kind, scheme), || format!("trim_protocol({:?}) = {:?}, expected {:?}", x, g, want));
        },
        _ => {},
    }
}

/// parse_paths splits on ':' and drops empty segments
fn law_parse_paths(r: &mut Rec, v: &str) {
    r.ev[PARSE] += 1;
    if v.contains(':') {
        r.nt[PARSE] += 1;
    }
    let want: Vec<String> = v.split(':').filter(|s| !s.is_empty()).map(|s| s.to_string()).collect();
    let got = catch_unwind(AssertUnwindSafe(|| sys::parse_paths(v)));
    match got {
        Err(e) => {
            let m = panic_message(&e);
            r.note(|| format!("sys::parse_paths({:?}) PANIC({})", v, m));
            r.fail(PARSE, v, "", "parse_paths panic".to_string(), || format!("parse_paths({:?}) panicked: {}", v, m));
        },
        Ok(Err(e)) => {
            let m = format!("{}", e);
            r.note(|| format!("sys::parse_paths({:?}) = Err({})", v, m));
            r.fail(PARSE, v, "", "parse_paths error".to_string(), || format!("parse_paths({:?}) failed: {}, expected {:?}", v, m, want));
        },
        Ok(Ok(list)) => {
            let got: Vec<String> = list.into_iter().map(pb_str).collect();
            r.note(|| format!("sys::parse_paths({:?}) = {:?}; expected {:?}", v, got, want));
            if got != want {
                let kind = if got.iter().any(|s| s.is_empty()) {
                    "keeps-empty-segment"
                } else if got.len() != want.len() {
                    "wrong-segment-count"
                } else {
                    "wrong-segment"
                };
                r.fail(PARSE, v, "", format!("parse_paths {}", kind), || format!("parse_paths({:?}) = {:?}, expected {:?}", v, got, want));
            }
        },
    }
}

// ---------------------------------------------------------------------------------------------
// Groups of laws per enumerated object, dispatch by name for --replay
// ---------------------------------------------------------------------------------------------
fn laws_pair(r: &mut Rec, x: &str, y: &str) {
    law_mash(r, x, y);
    law_trim_prefix_strip(r, x, y);
    law_trim_prefix_direct(r, x, y);
    law_trim_suffix_strip(r, x, y);
    law_trim_suffix_direct(r, x, y);
    law_str_trim_suffix(r, x, y);
    law_has(r, x, y);
    law_concat(r, x, y);
}

fn laws_single(r: &mut Rec, p: &str) {
    law_ext(r, p);
    law_split(r, p);
    law_is_empty(r, p);
    law_trim_protocol(r, p);
    law_parse_paths(r, p);
}

fn run_law(r: &mut Rec, law: &str, a: &str, b: &str) -> bool {
    match law {
        "mash" => law_mash(r, a, b),
        // for the strip laws the case stores (path, affix) as passed to rivia: rebuild (s, p)
        "trim_prefix_strip" => match a.strip_prefix(b) {
            Some(rest) => law_trim_prefix_strip(r, b, rest),
            None => law_trim_prefix_direct(r, a, b),
        },
        "trim_prefix_direct" => law_trim_prefix_direct(r, a, b),
        "trim_suffix_strip" => match a.strip_suffix(b) {
            Some(rest) => law_trim_suffix_strip(r, rest, b),
            None => law_trim_suffix_direct(r, a, b),
        },
        "trim_suffix_direct" => law_trim_suffix_direct(r, a, b),
        "str_trim_suffix" => law_str_trim_suffix(r, a, b),
        "has" => law_has(r, a, b),
        "concat" => law_concat(r, a, b),
        "ext" => law_ext(r, a),
        "split_dir_base" | "split_first" | "split_last" => law_split(r, a),
        "is_empty" => law_is_empty(r, a),
        "trim_protocol" => law_trim_protocol(r, a),
        "parse_paths" => law_parse_paths(r, a),
        _ => return false,
    }
    true
}

// ---------------------------------------------------------------------------------------------
// Enumeration driver
// ---------------------------------------------------------------------------------------------
struct Totals {
    ev: [u64; NLAWS],
    nt: [u64; NLAWS],
}

struct Driver {
    slots: Vec<Mutex<Totals>>,
}

impl Driver {
    fn new() -> Driver {
        Driver { slots: (0..MAX_SLOTS).map(|_| Mutex::new(Totals { ev: [0; NLAWS], nt: [0; NLAWS] })).collect() }
    }
    /// flush one recorder: counters into the slot, findings into the global collector
    fn flush(&self, slot: usize, r: &mut Rec) {
        {
            let mut t = self.slots[slot].lock().unwrap_or_else(|e| e.into_inner());
            for i in 0..NLAWS {
                t.ev[i] += r.ev[i];
                t.nt[i] += r.nt[i];
            }
        }
        r.ev = [0; NLAWS];
        r.nt = [0; NLAWS];
        for f in r.finds.drain(..) {
            let Finding { sig, detail, law, a, b } = f;
            vio(&sig, move || detail, move || J::obj([("law", J::s(law)), ("a", J::s(a)), ("b", J::s(b))]));
        }
    }
    fn totals(&self) -> Totals {
        let mut out = Totals { ev: [0; NLAWS], nt: [0; NLAWS] };
        for s in self.slots.iter() {
            let t = s.lock().unwrap_or_else(|e| e.into_inner());
            for i in 0..NLAWS {
                out.ev[i] += t.ev[i];
                out.nt[i] += t.nt[i];
            }
        }
        out
    }
    /// Run `f` over 0..n: first the `seed` smallest indices sequentially (so that the witness kept
    /// per signature is the simplest one and deterministic), then the rest in parallel.
    fn sweep<F: Fn(&mut Rec, u64) + Sync>(&self, ctx: &Ctx, n: u64, seed: u64, f: F) {
        let seed = seed.min(n);
        let mut r = Rec::new(false);
        for i in 0..seed {
            f(&mut r, i);
            self.flush(0, &mut r);
        }
        par_for(ctx.threads, n - seed, 512, |slot, i| {
            let mut r = Rec::new(false);
            f(&mut r, seed + i);
            self.flush(slot, &mut r);
        });
    }
}

/// pairs (xs[i], ys[j]) ordered by max(i, j) "shells" would be ideal; we keep it simple: the seed pass
/// covers the pairs of the `small` shortest strings of each side, the parallel pass everything else.
fn sweep_pairs<F: Fn(&mut Rec, &str, &str) + Sync>(d: &Driver, ctx: &Ctx, xs: &[String], ys: &[String], small: usize, f: F) {
    let sx = small.min(xs.len());
    let sy = small.min(ys.len());
    // seed pass, sequential
    let mut r = Rec::new(false);
    for i in 0..sx {
        for j in 0..sy {
            f(&mut r, &xs[i], &ys[j]);
            d.flush(0, &mut r);
        }
    }
    let ny = ys.len() as u64;
    let n = xs.len() as u64 * ny;
    par_for(ctx.threads, n, 1024, |slot, k| {
        let i = (k / ny) as usize;
        let j = (k % ny) as usize;
        if i < sx && j < sy {
            return;
        }
        let mut r = Rec::new(false);
        f(&mut r, &xs[i], &ys[j]);
        d.flush(slot, &mut r);
    });
}

/// all upper/lower case variants of an ASCII string
fn case_variants(s: &str) -> Vec<String> {
    let letters: Vec<usize> = s.char_indices().filter(|(_, c)| c.is_ascii_alphabetic()).map(|(i, _)| i).collect();
    let mut out = vec![];
    for mask in 0..(1u32 << letters.len()) {
        let mut b = s.as_bytes().to_vec();
        for (k, &i) in letters.iter().enumerate() {
            if mask & (1 << k) != 0 {
                b[i] = b[i].to_ascii_uppercase();
            }
        }
        out.push(String::from_utf8(b).unwrap());
    }
    out
}

const NEAR_MISSES: [&str; 40] = [
    "file:/", "file:", "file", "file//", "file:///", "files://", "fil://", "ile://", "file:/:/", "file ://", "ftp:/", "ftp:", "ftp", "ftps://", "sftp://",
    "tp://", "ft://", "ftp//", "http:/", "http:", "http", "htp://", "ttp://", "httpss://", "http//", "http:://", "https:/", "https:", "https", "https//",
    "ttps://", "shttp://", "://", "//", ":", "ssh://", "s3://", "smb://", "FILE:/", "HTTPS:/",
];

pub fn run(ctx: &Ctx) -> i32 {
    quiet_panics();
    if let Some(p) = &ctx.replay {
        return replay(ctx, p);
    }
    let d = Driver::new();
    let alpha: [&str; 7] = ["a", "/", ".", ":", "b", "é", "€"];

    // ---- A. single strings over the main alphabet -------------------------------------------
    let l_single = ctx.tier.pick(6u32, 7u32);
    let n_single = count_upto(7, l_single);
    d.sweep(ctx, n_single, count_upto(7, 3), |r, i| {
        let mut s = String::new();
        nth_string(&alpha, i, &mut s);
        laws_single(r, &s);
    });

    // ---- B. all ordered pairs over the main alphabet ----------------------------------------
    let l_pair = 4u32;
    let strs = all_strings(&alpha, l_pair);
    sweep_pairs(&d, ctx, &strs, &strs, count_upto(7, 2) as usize, |r, x, y| laws_pair(r, x, y));

    // ---- C. asymmetric pairs: longer x shorter and shorter x longer ---------------------------
    // bands (exact length of the long side, max length of the short side)
    let bands: Vec<(u32, u32)> = ctx.tier.pick(vec![(5, 1), (6, 1)], vec![(5, 4), (6, 2), (7, 1)]);
    let l_long = bands.iter().map(|b| b.0).max().unwrap();
    let longs = all_strings(&alpha, l_long);
    let mut n_pairs_c = 0u64;
    for (ll, ls) in bands.iter() {
        let lo = count_upto(7, ll - 1) as usize; // strings are enumerated shortest first
        let hi = count_upto(7, *ll) as usize;
        let shorts = &longs[..count_upto(7, *ls) as usize];
        n_pairs_c += 2 * ((hi - lo) as u64) * (shorts.len() as u64);
        sweep_pairs(&d, ctx, &longs[lo..hi], shorts, 0, |r, x, y| laws_pair(r, x, y));
        sweep_pairs(&d, ctx, shorts, &longs[lo..hi], 0, |r, x, y| laws_pair(r, x, y));
    }

    // ---- D. mash on deeper separator/dot structure -------------------------------------------
    let a_mash: [&str; 3] = ["/", ".", "a"];
    let l_mash = ctx.tier.pick(6u32, 7u32);
    let ms = all_strings(&a_mash, l_mash);
    sweep_pairs(&d, ctx, &ms, &ms, count_upto(3, 3) as usize, |r, x, y| law_mash(r, x, y));

    // ---- E. trim_protocol: structured enumeration ---------------------------------------------
    let a_tail: [&str; 5] = ["/", ":", "a", "é", "."];
    let l_tail = ctx.tier.pick(3u32, 4u32);
    let tails = all_strings(&a_tail, l_tail);
    let mut heads: Vec<String> = vec![];
    for s in SCHEMES.iter() {
        heads.extend(case_variants(s));
    }
    let n_variants = heads.len();
    heads.extend(NEAR_MISSES.iter().map(|s| s.to_string()));
    // head + tail
    sweep_pairs(&d, ctx, &heads, &tails, 4, |r, h, t| {
        let x = format!("{}{}", h, t);
        law_trim_protocol(r, &x);
    });
    // something in front of the scheme: not leading, so nothing may be removed
    let fronts: Vec<String> = ["/", "a", " ", "é", ".", ":", "//", "x:", "€/"].iter().map(|s| s.to_string()).collect();
    let mut fronted: Vec<String> = vec![];
    for f in fronts.iter() {
        for h in heads.iter() {
            fronted.push(format!("{}{}", f, h));
        }
    }
    sweep_pairs(&d, ctx, &fronted, &tails, 0, |r, h, t| {
        let x = format!("{}{}", h, t);
        law_trim_protocol(r, &x);
    });
    // two schemes in a row: exactly one is removed
    let mut doubles: Vec<String> = vec![];
    let mixed: Vec<String> = SCHEMES.iter().map(|s| s.to_string()).chain(["FILE://", "Ftp://", "hTTp://", "HTTPS://"].iter().map(|s| s.to_string())).collect();
    for h1 in mixed.iter() {
        for h2 in mixed.iter() {
            doubles.push(format!("{}{}", h1, h2));
        }
    }
    sweep_pairs(&d, ctx, &doubles, &tails, 0, |r, h, t| {
        let x = format!("{}{}", h, t);
        law_trim_protocol(r, &x);
    });
    // exhaustive over tiny alphabets that can spell a scheme
    let l_proto = ctx.tier.pick(8u32, 10u32);
    for a in [["f", "t", "p", ":", "/"], ["F", "t", "P", ":", "/"]] {
        let n = count_upto(5, l_proto);
        d.sweep(ctx, n, 0, |r, i| {
            let mut s = String::new();
            nth_string(&a, i, &mut s);
            law_trim_protocol(r, &s);
        });
    }

    // characters whose lower / upper case form has another UTF-8 length (U+0130 2->3 bytes, Kelvin sign 3->1,
    // U+1E9E 3->2): an offset found in a case-mapped copy does not fit the original
    {
        let a: [&str; 6] = ["\u{130}", "\u{212a}", "\u{1e9e}", "/", ":", "a"];
        let n = count_upto(6, ctx.tier.pick(5u32, 6u32));
        d.sweep(ctx, n, 0, |r, i| {
            let mut s = String::new();
            nth_string(&a, i, &mut s);
            law_trim_protocol(r, &s);
        });
    }

    // ---- F. parse_paths over {':', 'a', '/'} -------------------------------------------------
    let a_pp: [&str; 3] = [":", "a", "/"];
    let l_pp = ctx.tier.pick(9u32, 12u32);
    d.sweep(ctx, count_upto(3, l_pp), count_upto(3, 4), |r, i| {
        let mut s = String::new();
        nth_string(&a_pp, i, &mut s);
        law_parse_paths(r, &s);
    });

    let t = d.totals(); // counts of the exhaustive part only
    // ---- G. labelled random supplement (never decides alone; beyond the exhaustive bounds) -----
    let mut rng = Rng(ctx.seed ^ 0xC15);
    let wide = ["/", ".", ":", "a", "b", "é", "€", "//", "..", "a.b", "file://", "HTTP://", " ", "~", "𝄞"];
    let n_rand = ctx.tier.pick(20_000u64, 200_000u64);
    {
        let mut r = Rec::new(false);
        let gen = |rng: &mut Rng, lo: u64, hi: u64| {
            let len = lo + rng.below(hi - lo + 1);
            let mut s = String::new();
            for _ in 0..len {
                s.push_str(wide[rng.below(wide.len() as u64) as usize]);
            }
            s
        };
        for _ in 0..n_rand {
            let x = gen(&mut rng, 3, 12);
            let y = gen(&mut rng, 0, 8);
            laws_single(&mut r, &x);
            laws_pair(&mut r, &x, &y);
            r.ev[RANDOM] += 1;
            d.flush(0, &mut r);
        }
    }

    // ---- evidence --------------------------------------------------------------------------------
    let sampled = d.totals().ev[RANDOM];
    let evaluations: u64 = (0..NLAWS).filter(|&i| i != RANDOM && i != PEQ).map(|i| t.ev[i]).sum();
    let nontrivial: u64 = t.nt.iter().sum();
    let per_law = J::arr((0..NLAWS).filter(|&i| i != RANDOM).map(|i| {
        J::obj([("law", J::s(LAW_NAMES[i])), ("evaluations", J::i(t.ev[i])), ("nontrivial", J::i(t.nt[i]))])
    }));
    // samples: actual cases of this run with the observed results
    let mut samples: Vec<J> = vec![];
    let sample_cases: [(&str, &str, &str); 10] = [
        ("mash", "/a", "b/é"),
        ("mash", "a/.", "/./b"),
        ("trim_prefix_direct", "/a/b", "/a"),
        ("trim_suffix_direct", "a.b", ".b"),
        ("ext", "a/b.a", ""),
        ("split_first", "/a/./b", ""),
        ("trim_protocol", "hTTps://a:/", ""),
        ("parse_paths", ":/a::a/:", ""),
        ("has", "a/é€", "é"),
        ("concat", "/a", ".b"),
    ];
    for (law, a, b) in sample_cases.iter() {
        let mut r = Rec::new(true);
        run_law(&mut r, law, a, b);
        samples.push(J::obj([
            ("law", J::s(*law)),
            ("a", J::s(*a)),
            ("b", J::s(*b)),
            ("observed", J::strs(r.notes.iter())),
            ("holds", J::Bool(r.finds.is_empty())),
        ]));
    }
    let n_pairs_b = (strs.len() as u64) * (strs.len() as u64);
    let cov = J::obj([
        ("evaluations", J::i(evaluations)),
        ("distinct_nontrivial", J::i(nontrivial)),
        ("rule", J::s(
            "evaluations = number of (law, input) instances checked on the free-function form (each is additionally re-run through the PathExt method form: pathext_equivalence). Inputs are distinct by construction (odometer enumeration of strings / ordered pairs). Non-trivial, counted per law over distinct inputs: mash - both arguments contribute at least one component; trim_*_strip - the affix is non-empty; trim_*_direct - the affix is NOT a prefix/suffix (path must come back unchanged); str_trim_suffix - non-empty suffix present; has - needle non-empty, contained and different from the path; concat - both parts non-empty; ext - ext(p) succeeded (law applicable); split_* - path has at least 2 components; is_empty - the empty string; trim_protocol - the reference recognises a leading scheme; parse_paths - input contains ':'."
        )),
        ("per_law", per_law),
        ("samples", J::Arr(samples)),
        ("exhaustive", J::Bool(true)),
        ("bounds", J::s(format!(
            "alphabet A={{'/','.',':','a','b','é','€'}}: single strings len<={} ({}); ordered pairs len<={} each ({} pairs) plus the bands (exact length of one side, max length of the other side) {:?} in both orders ({} pairs); mash additionally on all pairs over {{'/','.','a'}} len<={} ({} pairs); trim_protocol: ({} case variants of the 4 schemes + {} near misses) x all tails len<={} over {{'/',':','a','é','.'}} ({}), the same behind 9 fronts, 64 scheme doubles x tails, all strings len<={} over {{f,t,p,:,/}} and {{F,t,P,:,/}} ({} each); parse_paths: all strings len<={} over {{':','a','/'}} ({}) plus all A-strings above",
            l_single, n_single, l_pair, n_pairs_b, bands, n_pairs_c, l_mash, (ms.len() as u64) * (ms.len() as u64), n_variants, NEAR_MISSES.len(), l_tail, tails.len(), l_proto, count_upto(5, l_proto), l_pp, count_upto(3, l_pp)
        ))),
        ("sampling_supplement_inputs", J::i(sampled)),
    ]);
    finish(ctx, Evidence {
        level: "exploration",
        coverage: cov,
        assumptions: vec![
            "'components' = std::path::Path::components(); a '.' that std cannot represent in the middle of a path (leading '.' of mash's second argument) may be dropped".into(),
            "where statement and docs are silent both behaviours are accepted: dir() of a one-component path may fail or return an empty path; base/first/last of a component-less path may fail or return \"\"; ext of dot-leading / dot-trailing names is not compared".into(),
            "'case-insensitively' for trim_protocol = ASCII case folding of the scheme letters".into(),
            "strings beyond the length bounds / other characters are only touched by the labelled random supplement (seeded, not deciding)".into(),
        ],
    })
}

fn replay(ctx: &Ctx, p: &std::path::Path) -> i32 {
    let j = crate::common::json::parse(&std::fs::read_to_string(p).expect("read replay")).expect("parse replay");
    let case = j.get("case").expect("case");
    let law = case.get("law").and_then(|x| x.as_str()).expect("case.law").to_string();
    let a = case.get("a").and_then(|x| x.as_str()).expect("case.a").to_string();
    let b = case.get("b").and_then(|x| x.as_str()).unwrap_or("").to_string();
    println!("replay C15 law={} a={:?} b={:?}", law, a, b);
    let mut r = Rec::new(true);
    if !run_law(&mut r, &law, &a, &b) {
        eprintln!("machinery: unknown law {:?} in replay file", law);
        return 2;
    }
    for n in r.notes.iter() {
        println!("  {}", n);
    }
    if r.finds.is_empty() {
        println!("holds");
        0
    } else {
        for f in r.finds.iter() {
            println!("{}\n  signature: {}", f.detail, f.sig);
        }
        println!("VIOLATION property={} replay={}", ctx.prop, p.display());
        1
    }
}

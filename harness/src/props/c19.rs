//! C19 Core iterator, string, option and defer helpers match their plain definitions.
//!
//! Bounded exhaustive exploration of the real code, six parts:
//!  (a) `IteratorExt::drop` / `::slice` on every sequence length x every index (pair) in a range,
//!      on `Vec::into_iter`, `slice::iter` and `Path::components` (relative and rooted paths),
//!      against plain list semantics taken from the statement (slice only inside its precondition
//!      `left >= -len`); plus the path helpers built on them (`trim_first`, `trim_last`, `first`,
//!      `last`) against the component list;
//!  (b) `first`, `first_result`, `last_result`, `single`, `some`, `consume` on every length;
//!  (c) `StringExt::{size,to_bool,trim_suffix}` (str and String impls) on every string up to a
//!      length bound over an alphabet with 1, 2, 3 and 4 byte characters, plus every casing of "false"
//!      with short affixes;
//!  (d) `OptionExt::has` on every (option, value) pair of small domains;
//!  (e) `take_while_p` on every sequence x predicate x way of driving the adaptor;
//!  (f) `defer` / `defer!`: every small control-flow shape is executed by an interpreter whose
//!      scopes are real Rust blocks in real (recursive) frames holding real guards; the event log is
//!      compared with a scope-exit model (each closure once, at scope end, reverse creation order,
//!      inner scopes first, for fall-through / early return / panic).
//! Every call into rivia runs under catch_unwind; a panic is a violation.
use crate::common::json::{self, J};
use crate::common::par::*;
use crate::common::report::*;
use crate::common::strings::*;
use rivia::prelude::*;
use std::cell::{Cell, RefCell};
use std::collections::BTreeMap;
use std::panic::{catch_unwind, AssertUnwindSafe};
use std::sync::atomic::{AtomicU64, Ordering};

type Fail = (String, String, J); // signature, detail, replay case

fn pmsg(e: Box<dyn std::any::Any + Send>) -> String {
    panic_message(&e)
}

// =================================================================================================
// (a) drop / slice
// =================================================================================================
#[derive(Clone, Copy, Debug, PartialEq, Eq)]
enum Src {
    VecInto,
    SliceIter,
    CompRel,
    CompAbs,
    /// `filter` adaptor: its size_hint upper bound (2n) exceeds the real length (n)
    Filtered,
    /// `str::chars` over a string with multi-byte characters: size_hint upper bound = byte length
    Chars,
}

fn is_even(x: &i64) -> bool {
    x % 2 == 0
}

fn chars_text(len: usize) -> String {
    (0..len).map(|i| if i % 2 == 0 { 'a' } else { 'é' }).collect()
}

impl Src {
    const ALL: [Src; 6] = [Src::VecInto, Src::SliceIter, Src::CompRel, Src::CompAbs, Src::Filtered, Src::Chars];
    fn name(self) -> &'static str {
        match self {
            Src::VecInto => "Vec::into_iter",
            Src::SliceIter => "slice::iter",
            Src::CompRel => "Path::components(relative)",
            Src::CompAbs => "Path::components(rooted)",
            Src::Filtered => "Vec::into_iter().filter(even)",
            Src::Chars => "str::chars(multibyte)",
        }
    }
    fn from_name(s: &str) -> Option<Src> {
        Src::ALL.iter().copied().find(|x| x.name() == s)
    }
    /// a rooted path always has at least the root component
    fn supports(self, len: usize) -> bool {
        self != Src::CompAbs || len >= 1
    }
}

#[derive(Clone, Copy, Debug)]
enum Op {
    Drop(isize),
    Slice(isize, isize),
}

/// The items (rendered) the source yields for a sequence of `len` elements
fn base_items(src: Src, len: usize) -> Vec<String> {
    match src {
        Src::VecInto | Src::SliceIter => (0..len).map(|i| i.to_string()).collect(),
        Src::CompRel => (0..len).map(|i| format!("c{}", i)).collect(),
        Src::CompAbs => (0..len).map(|i| if i == 0 { "/".to_string() } else { format!("c{}", i) }).collect(),
        Src::Filtered => (0..len).map(|i| (2 * i).to_string()).collect(),
        Src::Chars => chars_text(len).chars().map(|c| c.to_string()).collect(),
    }
}

/// Path text with exactly `len` components for the component sources
fn comp_path(src: Src, len: usize) -> String {
    let items = base_items(src, len);
    match src {
        Src::CompAbs => format!("/{}", items[1..].join("/")),
        _ => items.join("/"),
    }
}

fn comp_str(c: Component) -> String {
    c.as_os_str().to_string_lossy().into_owned()
}

/// Instantiate a generic check function for the iterator type behind `src`
macro_rules! dispatch_src {
    ($src:expr, $len:expr, $f:ident $(, $arg:expr)*) => {
        match $src {
            Src::VecInto => {
                let n = $len as i64;
                $f(&|| (0..n).collect::<Vec<i64>>().into_iter(), &|x: i64| x.to_string() $(, $arg)*)
            },
            Src::SliceIter => {
                let v: Vec<i64> = (0..$len as i64).collect();
                $f(&|| v.iter(), &|x: &i64| x.to_string() $(, $arg)*)
            },
            Src::CompRel | Src::CompAbs => {
                let p = PathBuf::from(comp_path($src, $len));
                $f(&|| p.components(), &|c: Component| comp_str(c) $(, $arg)*)
            },
            Src::Filtered => {
                let n = 2 * $len as i64;
                $f(&|| (0..n).collect::<Vec<i64>>().into_iter().filter(is_even as fn(&i64) -> bool), &|x: i64| x.to_string() $(, $arg)*)
            },
            Src::Chars => {
                let t = chars_text($len);
                $f(&|| t.chars(), &|c: char| c.to_string() $(, $arg)*)
            },
        }
    };
}

fn apply_g<I, F, S>(mk: &F, show: &S, op: Op, cap: usize) -> Result<Vec<String>, String>
where
    I: DoubleEndedIterator + Clone,
    F: Fn() -> I,
    S: Fn(I::Item) -> String,
{
    catch_unwind(AssertUnwindSafe(|| {
        let it = mk();
        let it = match op {
            Op::Drop(n) => IteratorExt::drop(it, n),
            Op::Slice(l, r) => IteratorExt::slice(it, l, r),
        };
        it.take(cap).map(show).collect::<Vec<String>>()
    }))
    .map_err(pmsg)
}

fn apply(src: Src, len: usize, op: Op) -> Result<Vec<String>, String> {
    dispatch_src!(src, len, apply_g, op, len + 3)
}

/// drop(n): remove the first n for n > 0, the last |n| for n < 0 (more than len -> nothing left)
fn ref_drop(items: &[String], n: isize) -> Vec<String> {
    let len = items.len();
    if n >= 0 {
        items.iter().skip((n as usize).min(len)).cloned().collect()
    } else {
        let k = n.unsigned_abs().min(len);
        items.iter().take(len - k).cloned().collect()
    }
}

/// slice(l, r) for l >= -len: the inclusive index range, negative indices count from the end, a
/// right bound beyond the end is clamped, nothing when empty / out of bounds. Written as an index
/// filter so that no clamping arithmetic is needed at all.
fn ref_slice(items: &[String], l: isize, r: isize) -> Vec<String> {
    let len = items.len() as isize;
    assert!(l >= -len);
    let lo = if l < 0 { len + l } else { l };
    let hi = if r < 0 { len + r } else { r };
    (0..len).filter(|&i| i >= lo && i <= hi).map(|i| items[i as usize].clone()).collect()
}

fn sign(n: isize) -> &'static str {
    if n < 0 {
        "<0"
    } else if n == 0 {
        "=0"
    } else {
        ">0"
    }
}

fn left_class(l: isize, len: usize) -> &'static str {
    let len = len as isize;
    if l < 0 {
        "left<0"
    } else if l == 0 {
        "left=0"
    } else if l < len {
        "0<left<len"
    } else {
        "left>=len"
    }
}

fn right_class(r: isize, len: usize) -> &'static str {
    let len = len as isize;
    if r < -len {
        "right<-len"
    } else if r < 0 {
        "right<0"
    } else if r == 0 {
        "right=0"
    } else if r < len {
        "0<right<len"
    } else {
        "right>=len"
    }
}

fn diff_kind(got: &[String], want: &[String]) -> &'static str {
    if got.len() > want.len() {
        "too-many-items"
    } else if got.len() < want.len() {
        "too-few-items"
    } else {
        "wrong-items"
    }
}

fn op_case(src: Src, len: usize, op: Op) -> J {
    match op {
        Op::Drop(n) => J::obj([("part", J::s("drop")), ("src", J::s(src.name())), ("len", J::i(len as i64)), ("n", J::i(n as i64))]),
        Op::Slice(l, r) => J::obj([
            ("part", J::s("slice")),
            ("src", J::s(src.name())),
            ("len", J::i(len as i64)),
            ("left", J::i(l as i64)),
            ("right", J::i(r as i64)),
        ]),
    }
}

/// None when the case is outside the domain of the statement (slice with left < -len) and did not panic
fn check_op(src: Src, len: usize, op: Op) -> Option<Option<Fail>> {
    let items = base_items(src, len);
    let (want, label, class) = match op {
        Op::Drop(n) => (ref_drop(&items, n), format!("drop({})", n), format!("drop n{}", sign(n))),
        Op::Slice(l, r) => {
            if l < -(len as isize) {
                // outside the precondition the value is not judged - but "none of these panics" has no precondition
                return match apply(src, len, op) {
                    Err(msg) => Some(Some((
                        "slice left-below-minus-len panic".to_string(),
                        format!("{} of {} items {:?} .slice({}, {}) panicked: {}", src.name(), len, items, l, r, msg),
                        op_case(src, len, op),
                    ))),
                    Ok(_) => None,
                };
            }
            (ref_slice(&items, l, r), format!("slice({}, {})", l, r), format!("slice {} {}", right_class(r, len), left_class(l, len)))
        },
    };
    Some(match apply(src, len, op) {
        Err(msg) => Some((
            format!("{} panic", class),
            format!("{} of {} items {:?} .{} panicked: {}", src.name(), len, items, label, msg),
            op_case(src, len, op),
        )),
        Ok(got) if got != want => Some((
            format!("{} {}", class, diff_kind(&got, &want)),
            format!("{} of {} items {:?} .{} yields {:?}, plain list semantics give {:?}", src.name(), len, items, label, got, want),
            op_case(src, len, op),
        )),
        Ok(_) => None,
    })
}

// ---- path helpers built on drop / first_result / last_result ----------------------------------
fn check_path_helpers(src: Src, len: usize) -> Vec<Fail> {
    let mut out = vec![];
    let items = base_items(src, len);
    let p = comp_path(src, len);
    let case = || J::obj([("part", J::s("path_helpers")), ("src", J::s(src.name())), ("len", J::i(len as i64))]);
    let comps_of = |x: &PathBuf| x.components().map(comp_str).collect::<Vec<_>>();

    // trim_first / trim_last: the component list without its first / last element
    let want_tf: Vec<String> = items.iter().skip(1).cloned().collect();
    match catch_unwind(AssertUnwindSafe(|| (sys::trim_first(&p), Path::new(&p).trim_first()))) {
        Err(e) => out.push(("path trim_first panic".into(), format!("trim_first({:?}) panicked: {}", p, pmsg(e)), case())),
        Ok((a, b)) => {
            if comps_of(&a) != want_tf {
                out.push(("path trim_first components-differ".into(), format!("trim_first({:?}) = {:?}, expected components {:?}", p, a, want_tf), case()));
            }
            if a != b {
                out.push(("path trim_first PathExt differs".into(), format!("Path::new({:?}).trim_first() = {:?} but sys::trim_first = {:?}", p, b, a), case()));
            }
        },
    }
    let want_tl: Vec<String> = items.iter().take(len.saturating_sub(1)).cloned().collect();
    match catch_unwind(AssertUnwindSafe(|| (sys::trim_last(&p), Path::new(&p).trim_last()))) {
        Err(e) => out.push(("path trim_last panic".into(), format!("trim_last({:?}) panicked: {}", p, pmsg(e)), case())),
        Ok((a, b)) => {
            if comps_of(&a) != want_tl {
                out.push(("path trim_last components-differ".into(), format!("trim_last({:?}) = {:?}, expected components {:?}", p, a, want_tl), case()));
            }
            if a != b {
                out.push(("path trim_last PathExt differs".into(), format!("Path::new({:?}).trim_last() = {:?} but sys::trim_last = {:?}", p, b, a), case()));
            }
        },
    }
    // first / last: the first / last component when there is one (docs are silent on the empty path)
    match catch_unwind(AssertUnwindSafe(|| (sys::first(&p), PathExt::first(Path::new(&p))))) {
        Err(e) => out.push(("path first panic".into(), format!("first({:?}) panicked: {}", p, pmsg(e)), case())),
        Ok((a, b)) => {
            if len > 0 && a.as_ref().ok() != items.first() {
                out.push(("path first value".into(), format!("first({:?}) = {:?}, expected Ok({:?})", p, a, items[0]), case()));
            }
            if a.as_ref().ok() != b.as_ref().ok() {
                out.push(("path first PathExt differs".into(), format!("Path::new({:?}).first() = {:?} but sys::first = {:?}", p, b, a), case()));
            }
        },
    }
    match catch_unwind(AssertUnwindSafe(|| (sys::last(&p), PathExt::last(Path::new(&p))))) {
        Err(e) => out.push(("path last panic".into(), format!("last({:?}) panicked: {}", p, pmsg(e)), case())),
        Ok((a, b)) => {
            if len > 0 && a.as_ref().ok() != items.last() {
                out.push(("path last value".into(), format!("last({:?}) = {:?}, expected Ok({:?})", p, a, items[len - 1]), case()));
            }
            if a.as_ref().ok() != b.as_ref().ok() {
                out.push(("path last PathExt differs".into(), format!("Path::new({:?}).last() = {:?} but sys::last = {:?}", p, b, a), case()));
            }
        },
    }
    out
}

// =================================================================================================
// (b) first, first_result, last_result, single, some, consume
// =================================================================================================
/// The variant docs: ItemNotFound = "the iterator item was not found", MultipleItemsFound =
/// "multiple items were found". A variant contradicting the actual number of items is wrong; any
/// other error value is accepted (the method docs only promise "an error").
fn variant_conflict(e: &RvError, len: usize) -> Option<&'static str> {
    match e.downcast_ref::<IterError>() {
        Some(IterError::ItemNotFound) if len > 0 => Some("IterError::ItemNotFound although the sequence has items"),
        Some(IterError::MultipleItemsFound) if len < 2 => Some("IterError::MultipleItemsFound although the sequence has fewer than two items"),
        _ => None,
    }
}

fn res_check(
    out: &mut Vec<Fail>, name: &str, srcname: &str, items: &[String], got: std::thread::Result<RvResult<String>>, want: Option<&String>, case: &dyn Fn() -> J,
) {
    let len = items.len();
    let lenclass = if len == 0 {
        "len=0"
    } else if len == 1 {
        "len=1"
    } else {
        "len>=2"
    };
    match got {
        Err(e) => out.push((format!("{} panic {}", name, lenclass), format!("{} on {} items {:?} panicked: {}", name, srcname, items, pmsg(e)), case())),
        Ok(Ok(x)) => match want {
            Some(w) if *w == x => {},
            Some(w) => out.push((
                format!("{} wrong-item {}", name, lenclass),
                format!("{} on {} items {:?} = Ok({:?}), list semantics give Ok({:?})", name, srcname, items, x, w),
                case(),
            )),
            None => out.push((
                format!("{} Ok-instead-of-Err {}", name, lenclass),
                format!("{} on {} items {:?} = Ok({:?}), list semantics give an error", name, srcname, items, x),
                case(),
            )),
        },
        Ok(Err(e)) => match want {
            Some(w) => out.push((
                format!("{} Err-instead-of-Ok {}", name, lenclass),
                format!("{} on {} items {:?} = Err({}), list semantics give Ok({:?})", name, srcname, items, e, w),
                case(),
            )),
            None => {
                if let Some(why) = variant_conflict(&e, len) {
                    out.push((
                        format!("{} error-variant {}", name, lenclass),
                        format!("{} on {} items {:?} = Err({}): {}", name, srcname, items, e, why),
                        case(),
                    ));
                }
            },
        },
    }
}

fn basic_g<I, F, S>(mk: &F, show: &S, src: Src, items: &[String]) -> Vec<Fail>
where
    I: Iterator,
    F: Fn() -> I,
    S: Fn(I::Item) -> String,
{
    let mut out = vec![];
    let len = items.len();
    let sn = src.name();
    let case = || J::obj([("part", J::s("basic")), ("src", J::s(sn)), ("len", J::i(len as i64))]);
    let lenclass = if len == 0 {
        "len=0"
    } else if len == 1 {
        "len=1"
    } else {
        "len>=2"
    };

    // first
    match catch_unwind(AssertUnwindSafe(|| IteratorExt::first(mk()).map(show))) {
        Err(e) => out.push((format!("first panic {}", lenclass), format!("first on {} items {:?} panicked: {}", sn, items, pmsg(e)), case())),
        Ok(g) if g.as_ref() != items.first() => {
            out.push((format!("first value {}", lenclass), format!("first on {} items {:?} = {:?}, expected {:?}", sn, items, g, items.first()), case()))
        },
        _ => {},
    }
    // first_result / last_result / single
    let g = catch_unwind(AssertUnwindSafe(|| IteratorExt::first_result(mk()).map(show)));
    res_check(&mut out, "first_result", sn, items, g, items.first(), &case);
    let g = catch_unwind(AssertUnwindSafe(|| IteratorExt::last_result(mk()).map(show)));
    res_check(&mut out, "last_result", sn, items, g, items.last(), &case);
    let g = catch_unwind(AssertUnwindSafe(|| IteratorExt::single(mk()).map(show)));
    res_check(&mut out, "single", sn, items, g, if len == 1 { items.first() } else { None }, &case);
    // some
    match catch_unwind(AssertUnwindSafe(|| IteratorExt::some(mk()))) {
        Err(e) => out.push((format!("some panic {}", lenclass), format!("some on {} items {:?} panicked: {}", sn, items, pmsg(e)), case())),
        Ok(g) if g != (len > 0) => out.push((format!("some value {}", lenclass), format!("some on {} items {:?} = {}, expected {}", sn, items, g, len > 0), case())),
        _ => {},
    }
    // consume: afterwards next() is None, and every item has been pulled exactly once
    let pulled = Cell::new(0usize);
    match catch_unwind(AssertUnwindSafe(|| {
        let it = mk().inspect(|_| pulled.set(pulled.get() + 1));
        let mut rest = IteratorExt::consume(it);
        let next = rest.next().map(show);
        let after = rest.take(len + 2).count();
        (next, after)
    })) {
        Err(e) => out.push((format!("consume panic {}", lenclass), format!("consume on {} items {:?} panicked: {}", sn, items, pmsg(e)), case())),
        Ok((next, after)) => {
            if next.is_some() || after != 0 {
                out.push((
                    format!("consume leaves-items {}", lenclass),
                    format!("consume on {} items {:?}: next() afterwards = {:?} and {} more items, expected None", sn, items, next, after),
                    case(),
                ));
            } else if pulled.get() != len {
                out.push((
                    format!("consume pulled-count {}", lenclass),
                    format!("consume on {} items {:?} pulled {} items from the underlying iterator, expected {}", sn, items, pulled.get(), len),
                    case(),
                ));
            }
        },
    }
    out
}

fn check_basic(src: Src, len: usize) -> Vec<Fail> {
    let items = base_items(src, len);
    dispatch_src!(src, len, basic_g, src, &items)
}

// =================================================================================================
// (c) strings
// =================================================================================================
const SYMS: [&str; 8] = ["a", "F", "f", "0", "é", "€", "😀", " "];

fn is_false_word(s: &str) -> bool {
    let want = ['f', 'a', 'l', 's', 'e'];
    let cs: Vec<char> = s.chars().collect();
    cs.len() == 5 && cs.iter().zip(want.iter()).all(|(c, w)| c == w || *c == w.to_ascii_uppercase())
}

fn bool_class(s: &str) -> &'static str {
    if s.is_empty() {
        "empty"
    } else if s == "0" {
        "zero"
    } else if is_false_word(s) {
        "false-casing"
    } else if s.to_ascii_lowercase().contains("false") {
        "false-casing-with-affix"
    } else {
        "other"
    }
}

fn check_string_unary(s: &str) -> Vec<Fail> {
    let mut out = vec![];
    let case = || J::obj([("part", J::s("string_unary")), ("s", J::s(s))]);
    let mb = if s.is_ascii() { "ascii" } else { "multibyte" };
    let want_size = {
        let mut n = 0usize;
        for _ in s.chars() {
            n += 1;
        }
        n
    };
    let owned = s.to_string();
    match catch_unwind(AssertUnwindSafe(|| (<str as StringExt>::size(s), <String as StringExt>::size(&owned)))) {
        Err(e) => out.push((format!("string size panic {}", mb), format!("size({:?}) panicked: {}", s, pmsg(e)), case())),
        Ok((a, b)) => {
            if a != want_size {
                out.push((format!("string size str {}", mb), format!("{:?}.size() = {}, number of characters is {}", s, a, want_size), case()));
            }
            if b != want_size {
                out.push((format!("string size String {}", mb), format!("String {:?}.size() = {}, number of characters is {}", s, b, want_size), case()));
            }
        },
    }
    let want_bool = !(s.is_empty() || s == "0" || is_false_word(s));
    match catch_unwind(AssertUnwindSafe(|| (<str as StringExt>::to_bool(s), <String as StringExt>::to_bool(&owned)))) {
        Err(e) => out.push((format!("string to_bool panic {}", bool_class(s)), format!("to_bool({:?}) panicked: {}", s, pmsg(e)), case())),
        Ok((a, b)) => {
            if a != want_bool {
                out.push((format!("string to_bool str {} got-{}", bool_class(s), a), format!("{:?}.to_bool() = {}, expected {}", s, a, want_bool), case()));
            }
            if b != want_bool {
                out.push((format!("string to_bool String {} got-{}", bool_class(s), b), format!("String {:?}.to_bool() = {}, expected {}", s, b, want_bool), case()));
            }
        },
    }
    out
}

/// `want` is computed by the caller from the symbol sequences (not from bytes)
fn check_trim(s: &str, suf: &str, want: &str, is_suffix: bool) -> Vec<Fail> {
    let mut out = vec![];
    let rel = if suf.is_empty() {
        "suffix-empty"
    } else if s == suf {
        "suffix-equals-string"
    } else if is_suffix {
        "is-suffix"
    } else {
        "not-a-suffix"
    };
    let mb = if s.is_ascii() && suf.is_ascii() { "ascii" } else { "multibyte" };
    let case = || J::obj([("part", J::s("trim_suffix")), ("s", J::s(s)), ("suffix", J::s(suf))]);
    let owned = s.to_string();
    match catch_unwind(AssertUnwindSafe(|| <str as StringExt>::trim_suffix(s, suf))) {
        Err(e) => out.push((format!("string trim_suffix str panic {} {}", rel, mb), format!("{:?}.trim_suffix({:?}) panicked: {}", s, suf, pmsg(e)), case())),
        Ok(g) if g != want => out.push((format!("string trim_suffix str value {} {}", rel, mb), format!("{:?}.trim_suffix({:?}) = {:?}, expected {:?}", s, suf, g, want), case())),
        _ => {},
    }
    match catch_unwind(AssertUnwindSafe(|| <String as StringExt>::trim_suffix(&owned, suf))) {
        Err(e) => out.push((format!("string trim_suffix String panic {} {}", rel, mb), format!("String {:?}.trim_suffix({:?}) panicked: {}", s, suf, pmsg(e)), case())),
        Ok(g) if g != want => {
            out.push((format!("string trim_suffix String value {} {}", rel, mb), format!("String {:?}.trim_suffix({:?}) = {:?}, expected {:?}", s, suf, g, want), case()))
        },
        _ => {},
    }
    out
}

/// reference for arbitrary strings: compare character sequences
fn ref_trim_chars(s: &str, suf: &str) -> (String, bool) {
    let a: Vec<char> = s.chars().collect();
    let b: Vec<char> = suf.chars().collect();
    if b.len() <= a.len() && a[a.len() - b.len()..] == b[..] {
        (a[..a.len() - b.len()].iter().collect(), true)
    } else {
        (s.to_string(), false)
    }
}

fn digits_of(k: u64, mut idx: u64, out: &mut Vec<u8>) {
    out.clear();
    let mut block = 1u64;
    let mut len = 0;
    while idx >= block {
        idx -= block;
        block *= k;
        len += 1;
    }
    out.resize(len, 0);
    for i in (0..len).rev() {
        out[i] = (idx % k) as u8;
        idx /= k;
    }
}

fn false_casings() -> Vec<String> {
    let w = ['f', 'a', 'l', 's', 'e'];
    (0..32u32).map(|m| w.iter().enumerate().map(|(i, c)| if m & (1 << i) != 0 { c.to_ascii_uppercase() } else { *c }).collect()).collect()
}

// =================================================================================================
// (d) Option::has
// =================================================================================================
fn check_has() -> (Vec<Fail>, u64, u64) {
    let mut out = vec![];
    let (mut evals, mut nontrivial) = (0u64, 0u64);
    let vals = all_strings(&SYMS, 2);
    let mut opts: Vec<Option<String>> = vec![None];
    opts.extend(vals.iter().cloned().map(Some));
    for o in &opts {
        for v in &vals {
            evals += 1;
            let want = match o {
                Some(x) => x == v,
                None => false,
            };
            if want {
                nontrivial += 1;
            }
            let case = || J::obj([("part", J::s("has")), ("option", o.as_ref().map(J::s).unwrap_or(J::Null)), ("value", J::s(v))]);
            let kind = if o.is_none() { "None" } else { "Some" };
            // &str against Option<String>, String against Option<String>
            match catch_unwind(AssertUnwindSafe(|| (OptionExt::has(o, v.as_str()), OptionExt::has(o, v.clone())))) {
                Err(e) => out.push((format!("option has panic {}", kind), format!("{:?}.has({:?}) panicked: {}", o, v, pmsg(e)), case())),
                Ok((a, b)) => {
                    if a != want || b != want {
                        out.push((
                            format!("option has value {} expected-{}", kind, want),
                            format!("{:?}.has({:?}) = {} (&str) / {} (String), equality with the contained value gives {}", o, v, a, b, want),
                            case(),
                        ));
                    }
                },
            }
        }
    }
    // integers and path components
    let ints: Vec<i32> = (-3..=3).collect();
    let mut iopts: Vec<Option<i32>> = vec![None];
    iopts.extend(ints.iter().copied().map(Some));
    for o in &iopts {
        for v in &ints {
            evals += 1;
            let want = *o == Some(*v);
            if want {
                nontrivial += 1;
            }
            let kind = if o.is_none() { "None" } else { "Some" };
            let case = || J::obj([("part", J::s("has_int")), ("option", o.map(|x| J::i(x as i64)).unwrap_or(J::Null)), ("value", J::i(*v as i64))]);
            match catch_unwind(AssertUnwindSafe(|| OptionExt::has(o, *v))) {
                Err(e) => out.push((format!("option has panic {}", kind), format!("{:?}.has({}) panicked: {}", o, v, pmsg(e)), case())),
                Ok(a) if a != want => out.push((format!("option has value {} expected-{}", kind, want), format!("{:?}.has({}) = {}, expected {}", o, v, a, want), case())),
                _ => {},
            }
        }
    }
    let comps = [Component::RootDir, Component::CurDir, Component::ParentDir, Component::Normal(std::ffi::OsStr::new("a")), Component::Normal(std::ffi::OsStr::new("b"))];
    let mut copts: Vec<Option<Component>> = vec![None];
    copts.extend(comps.iter().copied().map(Some));
    for o in &copts {
        for v in &comps {
            evals += 1;
            let want = *o == Some(*v);
            if want {
                nontrivial += 1;
            }
            let kind = if o.is_none() { "None" } else { "Some" };
            let case = || J::obj([("part", J::s("has_component")), ("option", J::s(format!("{:?}", o))), ("value", J::s(format!("{:?}", v)))]);
            match catch_unwind(AssertUnwindSafe(|| OptionExt::has(o, *v))) {
                Err(e) => out.push((format!("option has panic {}", kind), format!("{:?}.has({:?}) panicked: {}", o, v, pmsg(e)), case())),
                Ok(a) if a != want => out.push((format!("option has value {} expected-{}", kind, want), format!("{:?}.has({:?}) = {}, expected {}", o, v, a, want), case())),
                _ => {},
            }
        }
    }
    (out, evals, nontrivial)
}

// =================================================================================================
// (e) take_while_p
// =================================================================================================
const PREDS: [&str; 4] = ["x==0", "x!=2", "true", "false"];
const MODES: [&str; 8] = [
    "next-loop",
    "fold",
    "collect",
    "peeked-then-next-loop",
    // the same four over a source whose size_hint has lower bound 0 while items remain (a filter)
    "next-loop inexact-size-hint",
    "fold inexact-size-hint",
    "collect inexact-size-hint",
    "peeked-then-next-loop inexact-size-hint",
];

fn pred(id: usize, x: u8) -> bool {
    match id {
        0 => x == 0,
        1 => x != 2,
        2 => true,
        _ => false,
    }
}

fn check_twp(seq: &[u8], pid: usize, mode: usize) -> Option<Fail> {
    let k = seq.iter().position(|&x| !pred(pid, x)).unwrap_or(seq.len());
    let want_prefix = &seq[..k];
    let want_next = seq.get(k).copied();
    let want_rest: Vec<u8> = seq.iter().skip(k + 1).copied().collect();
    let case = || {
        J::obj([
            ("part", J::s("take_while_p")),
            ("seq", J::arr(seq.iter().map(|&x| J::i(x as i64)))),
            ("pred", J::i(pid as i64)),
            ("mode", J::i(mode as i64)),
        ])
    };
    let stop = if k == seq.len() { "predicate-never-fails" } else { "predicate-fails" };
    let r = catch_unwind(AssertUnwindSafe(|| {
        let src: Box<dyn Iterator<Item = u8>> = if mode >= 4 { Box::new(seq.to_vec().into_iter().filter(|_| true)) } else { Box::new(seq.to_vec().into_iter()) };
        let mut pk = src.peekable();
        let mode = mode % 4;
        if mode == 3 {
            let _ = pk.peek();
        }
        let mut again = None;
        let got: Vec<u8> = match mode {
            0 | 3 => {
                let mut a = pk.take_while_p(|x| pred(pid, *x));
                let mut out = vec![];
                while let Some(x) = a.next() {
                    out.push(x);
                    if out.len() > seq.len() + 2 {
                        break;
                    }
                }
                again = a.next(); // a finished adaptor stays finished and consumes nothing
                out
            },
            1 => pk.take_while_p(|x| pred(pid, *x)).fold(vec![], |mut v, x| {
                v.push(x);
                v
            }),
            _ => pk.take_while_p(|x| pred(pid, *x)).collect(),
        };
        let next = pk.next();
        let rest: Vec<u8> = pk.take(seq.len() + 2).collect();
        (got, again, next, rest)
    }));
    let m = MODES[mode];
    match r {
        Err(e) => Some((format!("take_while_p panic {} {}", m, stop), format!("take_while_p({}) over {:?} [{}] panicked: {}", PREDS[pid], seq, m, pmsg(e)), case())),
        Ok((got, again, next, rest)) => {
            if got != want_prefix {
                Some((
                    format!("take_while_p prefix-differs {} {}", m, stop),
                    format!("take_while_p({}) over {:?} [{}] yields {:?}, longest satisfying prefix is {:?}", PREDS[pid], seq, m, got, want_prefix),
                    case(),
                ))
            } else if again.is_some() {
                Some((
                    format!("take_while_p yields-after-end {} {}", m, stop),
                    format!("take_while_p({}) over {:?} [{}] returned None and then {:?}", PREDS[pid], seq, m, again),
                    case(),
                ))
            } else if next != want_next {
                Some((
                    format!("take_while_p failing-item-not-kept {} {}", m, stop),
                    format!("after take_while_p({}) over {:?} [{}] the peekable's next() = {:?}, expected the first failing item {:?}", PREDS[pid], seq, m, next, want_next),
                    case(),
                ))
            } else if rest != want_rest {
                Some((
                    format!("take_while_p rest-differs {} {}", m, stop),
                    format!("after take_while_p({}) over {:?} [{}] the remaining items are {:?}, expected {:?}", PREDS[pid], seq, m, rest, want_rest),
                    case(),
                ))
            } else {
                None
            }
        },
    }
}

// =================================================================================================
// (f) defer
// =================================================================================================
#[derive(Clone, Copy, Debug, PartialEq, Eq)]
enum Stmt {
    G, // guard created with the `defer(..)` function
    M, // guard created with the `defer!` macro
    S, // nested scope (a real block in a new frame)
}

#[derive(Clone, Copy, Debug, PartialEq, Eq)]
enum Exit {
    Fall,
    Ret,
    Panic,
}

#[derive(Clone, Copy, Debug, PartialEq, Eq)]
enum Flow {
    Fall,
    Ret,
    Panic, // only produced by the model; the real run unwinds
}

#[derive(Clone, Debug)]
struct Scope {
    id: u32,
    code: u32,
    stmts: Vec<Stmt>,
    exit: Exit,
    guards: Vec<u32>,
    kids: Vec<Scope>,
}

#[derive(Clone, Copy, Debug, PartialEq, Eq)]
enum Ev {
    Enter(u32),
    Created(u32),
    Ran(u32),
    Tail(u32),
}

struct Cx {
    log: RefCell<Vec<Ev>>,
}

impl Cx {
    fn ev(&self, e: Ev) {
        self.log.borrow_mut().push(e);
    }
}

const fn code_of(s: &str) -> u32 {
    let b = s.as_bytes();
    let mut i = 0;
    let mut c = 0u32;
    while i < b.len() {
        let d = match b[i] {
            b'g' => 1,
            b'm' => 2,
            b's' => 3,
            _ => 0,
        };
        if d != 0 {
            c = c * 4 + d;
        }
        i += 1;
    }
    c
}

fn code_of_stmts(st: &[Stmt]) -> u32 {
    st.iter().fold(0, |c, s| {
        c * 4
            + match s {
                Stmt::G => 1,
                Stmt::M => 2,
                Stmt::S => 3,
            }
    })
}

/// The statements of one scope as straight-line code inside the enclosing block: guards are real
/// `let` bindings of that block (the macro form is the unmodified `defer!`), nested scopes are calls
/// into a new frame, an early return propagates like `?`.
macro_rules! scope_body {
    ($sc:ident $cx:ident $gi:ident $ki:ident;) => {};
    ($sc:ident $cx:ident $gi:ident $ki:ident; g $($rest:tt)*) => {
        let id = $sc.guards[$gi];
        $gi += 1;
        $cx.ev(Ev::Created(id));
        let _guard = defer(move || $cx.ev(Ev::Ran(id)));
        scope_body!($sc $cx $gi $ki; $($rest)*);
    };
    ($sc:ident $cx:ident $gi:ident $ki:ident; m $($rest:tt)*) => {
        let id = $sc.guards[$gi];
        $gi += 1;
        $cx.ev(Ev::Created(id));
        defer!($cx.ev(Ev::Ran(id)));
        scope_body!($sc $cx $gi $ki; $($rest)*);
    };
    ($sc:ident $cx:ident $gi:ident $ki:ident; s $($rest:tt)*) => {
        let kid = &$sc.kids[$ki];
        $ki += 1;
        if run_scope(kid, $cx) == Flow::Ret {
            return Flow::Ret;
        }
        scope_body!($sc $cx $gi $ki; $($rest)*);
    };
}

/// Emit one block per statement pattern (<= 2 guards, <= 2 nested scopes, any order)
macro_rules! gen_scopes {
    ($sc:ident $cx:ident; [$($p:tt)*] [$($gl:tt)*] [$($sl:tt)*]) => {
        if $sc.code == code_of(stringify!($($p)*)) {
            let mut gi = 0usize;
            let mut ki = 0usize;
            $cx.ev(Ev::Enter($sc.id));
            scope_body!($sc $cx gi ki; $($p)*);
            let _ = (gi, ki);
            match $sc.exit {
                Exit::Ret => return Flow::Ret,
                Exit::Panic => panic!("C19 defer probe panic in scope {}", $sc.id),
                Exit::Fall => {},
            }
            $cx.ev(Ev::Tail($sc.id));
            return Flow::Fall;
        }
        gen_scopes!(@g $sc $cx; [$($p)*] [$($gl)*] [$($sl)*]);
        gen_scopes!(@s $sc $cx; [$($p)*] [$($gl)*] [$($sl)*]);
    };
    (@g $sc:ident $cx:ident; [$($p:tt)*] [] [$($sl:tt)*]) => {};
    (@g $sc:ident $cx:ident; [$($p:tt)*] [x $($gl:tt)*] [$($sl:tt)*]) => {
        gen_scopes!($sc $cx; [$($p)* g] [$($gl)*] [$($sl)*]);
        gen_scopes!($sc $cx; [$($p)* m] [$($gl)*] [$($sl)*]);
    };
    (@s $sc:ident $cx:ident; [$($p:tt)*] [$($gl:tt)*] []) => {};
    (@s $sc:ident $cx:ident; [$($p:tt)*] [$($gl:tt)*] [x $($sl:tt)*]) => {
        gen_scopes!($sc $cx; [$($p)* s] [$($gl)*] [$($sl)*]);
    };
}

#[allow(unused_assignments, unused_mut, unused_variables)]
fn run_scope(sc: &Scope, cx: &Cx) -> Flow {
    gen_scopes!(sc cx; [] [x x] [x x]);
    // machinery error (no block generated for this statement pattern); reported by the caller
    cx.ev(Ev::Enter(u32::MAX));
    Flow::Fall
}

/// Scope-exit model: guards of a scope run when the scope ends, newest first, after everything
/// the scope's body did (including nested scopes), whatever ended the scope.
fn model(sc: &Scope, out: &mut Vec<Ev>, flows: &mut BTreeMap<u32, Flow>) -> Flow {
    out.push(Ev::Enter(sc.id));
    let mut live = vec![];
    let (mut gi, mut ki) = (0, 0);
    let mut flow = None;
    for st in &sc.stmts {
        match st {
            Stmt::G | Stmt::M => {
                out.push(Ev::Created(sc.guards[gi]));
                live.push(sc.guards[gi]);
                gi += 1;
            },
            Stmt::S => {
                let f = model(&sc.kids[ki], out, flows);
                ki += 1;
                if f != Flow::Fall {
                    flow = Some(f);
                    break;
                }
            },
        }
    }
    let flow = match flow {
        Some(f) => f,
        None => match sc.exit {
            Exit::Fall => {
                out.push(Ev::Tail(sc.id));
                Flow::Fall
            },
            Exit::Ret => Flow::Ret,
            Exit::Panic => Flow::Panic,
        },
    };
    for id in live.iter().rev() {
        out.push(Ev::Ran(*id));
        flows.insert(*id, flow);
    }
    flow
}

// ---- program text: {g{mP}gF} -------------------------------------------------------------------
fn scope_text(sc: &Scope, out: &mut String) {
    out.push('{');
    let mut ki = 0;
    for st in &sc.stmts {
        match st {
            Stmt::G => out.push('g'),
            Stmt::M => out.push('m'),
            Stmt::S => {
                scope_text(&sc.kids[ki], out);
                ki += 1;
            },
        }
    }
    out.push(match sc.exit {
        Exit::Fall => 'F',
        Exit::Ret => 'R',
        Exit::Panic => 'P',
    });
    out.push('}');
}

struct Ids {
    scope: u32,
    guard: u32,
}

fn parse_scope(b: &[u8], pos: &mut usize, ids: &mut Ids) -> Result<Scope, String> {
    if b.get(*pos) != Some(&b'{') {
        return Err(format!("expected '{{' at {}", pos));
    }
    *pos += 1;
    let mut sc = Scope { id: ids.scope, code: 0, stmts: vec![], exit: Exit::Fall, guards: vec![], kids: vec![] };
    ids.scope += 1;
    loop {
        match b.get(*pos) {
            Some(b'g') | Some(b'm') => {
                sc.stmts.push(if b[*pos] == b'g' { Stmt::G } else { Stmt::M });
                sc.guards.push(ids.guard);
                ids.guard += 1;
                *pos += 1;
            },
            Some(b'{') => {
                sc.stmts.push(Stmt::S);
                let k = parse_scope(b, pos, ids)?;
                sc.kids.push(k);
            },
            Some(b'F') | Some(b'R') | Some(b'P') => {
                sc.exit = match b[*pos] {
                    b'F' => Exit::Fall,
                    b'R' => Exit::Ret,
                    _ => Exit::Panic,
                };
                *pos += 1;
                if b.get(*pos) != Some(&b'}') {
                    return Err(format!("expected '}}' at {}", pos));
                }
                *pos += 1;
                sc.code = code_of_stmts(&sc.stmts);
                return Ok(sc);
            },
            other => return Err(format!("unexpected {:?} at {}", other, pos)),
        }
    }
}

fn parse_program(text: &str) -> Result<Scope, String> {
    let mut pos = 0;
    let sc = parse_scope(text.as_bytes(), &mut pos, &mut Ids { scope: 0, guard: 0 })?;
    if pos != text.len() {
        return Err("trailing input".into());
    }
    Ok(sc)
}

// ---- enumeration -------------------------------------------------------------------------------
/// Statement patterns of one scope: sequences over {guard, scope} with <= max_g guards and
/// <= max_s scopes, shortest first (false = guard, true = nested scope)
fn patterns(max_g: usize, max_s: usize) -> Vec<Vec<bool>> {
    let mut out: Vec<Vec<bool>> = vec![];
    let mut layer: Vec<Vec<bool>> = vec![vec![]];
    while !layer.is_empty() {
        let mut next = vec![];
        for p in &layer {
            let g = p.iter().filter(|x| !**x).count();
            let s = p.len() - g;
            if g < max_g {
                let mut q = p.clone();
                q.push(false);
                next.push(q);
            }
            if s < max_s {
                let mut q = p.clone();
                q.push(true);
                next.push(q);
            }
        }
        out.extend(layer);
        layer = next;
    }
    out
}

struct DeferSpace {
    /// pats[level], counts[level] = number of scope trees rooted at that nesting level
    pats: Vec<Vec<Vec<bool>>>,
    counts: Vec<u64>,
}

impl DeferSpace {
    /// kids[level] = maximum number of nested scopes of a scope at that level (0 = outermost);
    /// depth = kids.len() + 1 nesting levels
    fn new(kids: &[usize]) -> DeferSpace {
        let depth = kids.len() + 1;
        let mut pats = vec![];
        for level in 0..depth {
            pats.push(patterns(2, if level + 1 < depth { kids[level] } else { 0 }));
        }
        let mut counts = vec![0u64; depth];
        for level in (0..depth).rev() {
            let below = if level + 1 < depth { counts[level + 1] } else { 0 };
            let mut n = 0u64;
            for p in &pats[level] {
                let s = p.iter().filter(|x| **x).count() as u32;
                n += below.pow(s);
            }
            counts[level] = n * 3;
        }
        DeferSpace { pats, counts }
    }

    fn total(&self) -> u64 {
        self.counts[0]
    }

    fn build(&self, level: usize, mut idx: u64, variant: u8, ids: &mut Ids) -> Scope {
        let exit = match idx % 3 {
            0 => Exit::Fall,
            1 => Exit::Ret,
            _ => Exit::Panic,
        };
        idx /= 3;
        let below = if level + 1 < self.counts.len() { self.counts[level + 1] } else { 0 };
        let mut chosen = &self.pats[level][0];
        for p in &self.pats[level] {
            let s = p.iter().filter(|x| **x).count() as u32;
            let block = below.pow(s);
            if idx < block {
                chosen = p;
                break;
            }
            idx -= block;
        }
        let mut sc = Scope { id: ids.scope, code: 0, stmts: vec![], exit, guards: vec![], kids: vec![] };
        ids.scope += 1;
        for &is_scope in chosen {
            if is_scope {
                let sub = idx % below;
                idx /= below;
                sc.stmts.push(Stmt::S);
                let k = self.build(level + 1, sub, variant, ids);
                sc.kids.push(k);
            } else {
                let g = ids.guard;
                ids.guard += 1;
                let mac = match variant {
                    0 => false,
                    1 => true,
                    2 => g % 2 == 1,
                    _ => g % 2 == 0,
                };
                sc.stmts.push(if mac { Stmt::M } else { Stmt::G });
                sc.guards.push(g);
            }
        }
        sc.code = code_of_stmts(&sc.stmts);
        sc
    }
}

/// (no statement of the program is unreachable, the scope can end by falling through). A statement
/// is unreachable when it follows a nested scope that always returns or panics; the exit marker of
/// such a scope is unreachable too, so only the `Fall` spelling of it counts as canonical.
fn fully_reachable(sc: &Scope) -> (bool, bool) {
    let mut ki = 0;
    for (i, st) in sc.stmts.iter().enumerate() {
        if *st == Stmt::S {
            let (ok, falls) = fully_reachable(&sc.kids[ki]);
            ki += 1;
            if !ok {
                return (false, false);
            }
            if !falls {
                return (i + 1 == sc.stmts.len() && sc.exit == Exit::Fall, false);
            }
        }
    }
    (true, sc.exit == Exit::Fall)
}

fn guard_kind(sc: &Scope, id: u32) -> Option<Stmt> {
    let mut gi = 0;
    for st in &sc.stmts {
        if *st != Stmt::S {
            if sc.guards[gi] == id {
                return Some(*st);
            }
            gi += 1;
        }
    }
    sc.kids.iter().find_map(|k| guard_kind(k, id))
}

/// Run one program on the real guards and compare with the model. Returns (failure, guards run)
/// Histories the shape interpreter does not build: a guard whose own closure panics (later guards of the same
/// thread still run, in order), a guard made inside another guard's closure, both forms of guard. Every
/// scenario runs on a fresh thread and once more all in a row on one thread.
fn defer_history_probe() -> Vec<Fail> {
    use std::sync::{Arc, Mutex};
    type Log = Arc<Mutex<Vec<&'static str>>>;
    fn panicking_closure(log: &Log) {
        let l = log.clone();
        let _ = catch_unwind(AssertUnwindSafe(move || {
            let _g = defer(move || {
                l.lock().unwrap().push("p");
                panic!("C19 defer probe panic in a deferred closure");
            });
        }));
    }
    fn plain_pair(log: &Log) {
        let (a, b) = (log.clone(), log.clone());
        let _g = defer(move || a.lock().unwrap().push("1"));
        defer!(b.lock().unwrap().push("2"));
    }
    fn nested(log: &Log) {
        let (o, i) = (log.clone(), log.clone());
        let _g = defer(move || {
            let i2 = i.clone();
            let _h = defer(move || i2.lock().unwrap().push("inner"));
            o.lock().unwrap().push("outer-body");
        });
    }
    fn unwinding_then_pair(log: &Log) {
        let a = log.clone();
        let _ = catch_unwind(AssertUnwindSafe(move || {
            let _g = defer(move || a.lock().unwrap().push("u"));
            panic!("C19 defer probe panic in a scope body");
        }));
        plain_pair(log);
    }
    let scenarios: Vec<(&'static str, fn(&Log), Vec<&'static str>)> = vec![
        ("a guard whose closure panics, then two guards in a later scope", |l| { panicking_closure(l); plain_pair(l) }, vec!["p", "2", "1"]),
        ("a guard created inside another guard's closure", nested, vec!["outer-body", "inner"]),
        ("a scope left by unwinding, then two guards in a later scope", unwinding_then_pair, vec!["u", "2", "1"]),
        ("two closures that panic, then nested guards", |l| { panicking_closure(l); panicking_closure(l); nested(l) }, vec!["p", "p", "outer-body", "inner"]),
    ];
    let mut out = vec![];
    let run_on_thread = |fs: Vec<fn(&Log)>| -> Result<Vec<&'static str>, String> {
        let log: Log = Arc::new(Mutex::new(vec![]));
        let l2 = log.clone();
        let h = std::thread::spawn(move || {
            for f in fs {
                f(&l2);
            }
        });
        match h.join() {
            Ok(()) => Ok(log.lock().unwrap_or_else(|e| e.into_inner()).clone()),
            Err(e) => Err(pmsg(e)),
        }
    };
    for (name, f, want) in &scenarios {
        match run_on_thread(vec![*f]) {
            Ok(got) if &got == want => {},
            Ok(got) => out.push(("defer history closures-not-run-exactly-once-in-order".to_string(), format!("{}: closures ran as {:?}, expected {:?}", name, got, want), J::obj([("part", J::s("defer-history"))]))),
            Err(m) => out.push(("defer history foreign-panic".to_string(), format!("{}: the thread panicked with {:?}", name, m), J::obj([("part", J::s("defer-history"))]))),
        }
    }
    let all: Vec<fn(&Log)> = scenarios.iter().map(|x| x.1).collect();
    let want_all: Vec<&'static str> = scenarios.iter().flat_map(|x| x.2.clone()).collect();
    match run_on_thread(all) {
        Ok(got) if got == want_all => {},
        Ok(got) => out.push(("defer history closures-not-run-exactly-once-in-order".to_string(), format!("all scenarios in a row on one thread: closures ran as {:?}, expected {:?}", got, want_all), J::obj([("part", J::s("defer-history"))]))),
        Err(m) => out.push(("defer history foreign-panic".to_string(), format!("all scenarios in a row: the thread panicked with {:?}", m), J::obj([("part", J::s("defer-history"))]))),
    }
    out.dedup_by(|a, b| a.0 == b.0);
    out
}

fn check_defer(root: &Scope) -> (Option<Fail>, usize) {
    let mut want = vec![];
    let mut flows = BTreeMap::new();
    let want_flow = model(root, &mut want, &mut flows);
    let nguards = flows.len();
    let mut text = String::new();
    scope_text(root, &mut text);
    let case = || J::obj([("part", J::s("defer")), ("program", J::s(&text))]);

    let cx = Cx { log: RefCell::new(vec![]) };
    let r = catch_unwind(AssertUnwindSafe(|| run_scope(root, &cx)));
    let got_flow = match &r {
        Ok(f) => *f,
        Err(_) => Flow::Panic,
    };
    let got = cx.log.borrow().clone();
    if got.contains(&Ev::Enter(u32::MAX)) {
        eprintln!("machinery: C19 defer interpreter has no block for program {}", text);
        std::process::exit(2);
    }
    let legend = "program text: {..} scope, g = guard via defer(), m = guard via defer!, F/R/P = scope ends by fall-through / early return / panic";
    if let Err(e) = &r {
        let msg = panic_message(e);
        if !msg.starts_with("C19 defer probe panic") {
            return (Some(("defer foreign-panic".into(), format!("program {} panicked with {:?} ({})", text, msg, legend), case())), nguards);
        }
    }
    if got == want && got_flow == want_flow {
        return (None, nguards);
    }
    // classify by the first guard that misbehaves
    let exit_name = |f: Flow| match f {
        Flow::Fall => "fall-through",
        Flow::Ret => "early-return",
        Flow::Panic => "panic",
    };
    let kind_name = |id: u32| match guard_kind(root, id) {
        Some(Stmt::M) => "defer!",
        _ => "defer()",
    };
    let mut sig = None;
    for (id, f) in flows.iter() {
        let n = got.iter().filter(|e| **e == Ev::Ran(*id)).count();
        if n == 0 {
            sig = Some(format!("defer {} scope-exit={} closure-never-ran", kind_name(*id), exit_name(*f)));
            break;
        }
        if n > 1 {
            sig = Some(format!("defer {} scope-exit={} closure-ran-{}-times", kind_name(*id), exit_name(*f), n));
            break;
        }
    }
    if sig.is_none() {
        let i = got.iter().zip(want.iter()).position(|(a, b)| a != b).unwrap_or(got.len().min(want.len()));
        sig = Some(match (got.get(i), want.get(i)) {
            (Some(Ev::Ran(a)), Some(Ev::Ran(_))) => format!("defer {} scope-exit={} wrong-order", kind_name(*a), exit_name(flows.get(a).copied().unwrap_or(Flow::Fall))),
            (Some(Ev::Ran(a)), _) => format!("defer {} scope-exit={} ran-before-scope-end", kind_name(*a), exit_name(flows.get(a).copied().unwrap_or(Flow::Fall))),
            (_, Some(Ev::Ran(b))) => format!("defer {} scope-exit={} ran-after-scope-end", kind_name(*b), exit_name(flows.get(b).copied().unwrap_or(Flow::Fall))),
            _ if got == want => "defer control-flow-result-differs".to_string(),
            _ => "defer event-log-differs".to_string(),
        });
    }
    let detail = format!(
        "program {} ({}): observed events {:?} ending {:?}; scope-exit model expects {:?} ending {:?}",
        text, legend, got, got_flow, want, want_flow
    );
    (Some((sig.unwrap(), detail, case())), nguards)
}

// =================================================================================================
// driver
// =================================================================================================
fn report(f: Fail) {
    let (sig, detail, case) = f;
    vio(&sig, || detail, || case);
}

#[derive(Default)]
struct Part {
    evals: AtomicU64,
    nontrivial: AtomicU64,
}

impl Part {
    fn add(&self, e: u64, n: u64) {
        self.evals.fetch_add(e, Ordering::Relaxed);
        self.nontrivial.fetch_add(n, Ordering::Relaxed);
    }
    fn j(&self) -> J {
        J::obj([("evaluations", J::i(self.evals.load(Ordering::Relaxed))), ("nontrivial", J::i(self.nontrivial.load(Ordering::Relaxed)))])
    }
}

pub fn run(ctx: &Ctx) -> i32 {
    quiet_panics();
    if let Some(p) = &ctx.replay {
        return replay(ctx, p);
    }
    let thorough = ctx.tier == Tier::Thorough;
    let mut bounds: Vec<String> = vec![];
    let mut samples: Vec<J> = vec![];

    // ---- (a) drop / slice + path helpers -----------------------------------------------------
    let max_len = ctx.tier.pick(8usize, 12usize);
    let ix = ctx.tier.pick(10isize, 15isize);
    let pa = Part::default();
    let mut skipped_precondition = 0u64;
    for len in 0..=max_len {
        for src in Src::ALL {
            if !src.supports(len) {
                continue;
            }
            for n in -ix..=ix {
                let want = ref_drop(&base_items(src, len), n);
                pa.add(1, (!want.is_empty() && want.len() < len) as u64);
                if let Some(Some(f)) = check_op(src, len, Op::Drop(n)) {
                    report(f);
                }
            }
            for l in -ix..=ix {
                for r in -ix..=ix {
                    match check_op(src, len, Op::Slice(l, r)) {
                        None => skipped_precondition += 1,
                        Some(res) => {
                            let want = if l >= -(len as isize) { ref_slice(&base_items(src, len), l, r) } else { vec![] };
                            pa.add(1, (!want.is_empty() && want.len() < len) as u64);
                            if let Some(f) = res {
                                report(f);
                            }
                        },
                    }
                }
            }
            // the edges of the index type: "all indices" includes them, and index arithmetic overflows there first
            let edges = [isize::MAX, isize::MAX - 1, isize::MIN, isize::MIN + 1];
            for n in edges {
                pa.add(1, 0);
                if let Some(Some(f)) = check_op(src, len, Op::Drop(n)) {
                    report(f);
                }
            }
            for l in [0isize, 1, -1, isize::MAX] {
                for r in edges.iter().copied().chain([0isize, -1]) {
                    if let Some(res) = check_op(src, len, Op::Slice(l, r)) {
                        pa.add(1, 0);
                        if let Some(f) = res {
                            report(f);
                        }
                    }
                }
            }
            if matches!(src, Src::CompRel | Src::CompAbs) {
                pa.add(4, if len >= 2 { 4 } else { 0 });
                for f in check_path_helpers(src, len) {
                    report(f);
                }
            }
        }
    }
    bounds.push(format!(
        "(a) drop/slice: lengths 0..={} x n / (left,right) in -{}..={} plus the edges of isize (MAX, MAX-1, MIN, MIN+1) x 4 iterator kinds; slice pairs with left < -len: executed, only a panic is reported ({} pairs)",
        max_len, ix, ix, skipped_precondition
    ));
    for (src, len, op) in [(Src::VecInto, 4usize, Op::Slice(1, -2)), (Src::CompAbs, 3, Op::Drop(-1)), (Src::SliceIter, 2, Op::Slice(0, 0)), (Src::CompRel, 5, Op::Slice(-3, 9))] {
        samples.push(J::obj([
            ("case", op_case(src, len, op)),
            ("observed", J::s(format!("{:?}", apply(src, len, op)))),
            (
                "expected",
                J::s(format!(
                    "{:?}",
                    match op {
                        Op::Drop(n) => ref_drop(&base_items(src, len), n),
                        Op::Slice(l, r) => ref_slice(&base_items(src, len), l, r),
                    }
                )),
            ),
        ]));
    }

    // ---- (b) first / first_result / last_result / single / some / consume --------------------
    let pb = Part::default();
    for len in 0..=max_len {
        for src in Src::ALL {
            if !src.supports(len) {
                continue;
            }
            pb.add(6, if len >= 1 { 6 } else { 0 });
            for f in check_basic(src, len) {
                report(f);
            }
        }
    }
    bounds.push(format!("(b) first/first_result/last_result/single/some/consume: lengths 0..={} x 4 iterator kinds", max_len));

    // ---- (c) strings ---------------------------------------------------------------------------
    let pc = Part::default();
    let k = SYMS.len() as u64;
    let unary_len = ctx.tier.pick(5u32, 7u32);
    let n_unary = count_upto(k, unary_len);
    par_for(ctx.threads, n_unary, 2048, |_slot, i| {
        let mut s = String::new();
        nth_string(&SYMS, i, &mut s);
        pc.add(4, if s.is_ascii() { 0 } else { 4 });
        for f in check_string_unary(&s) {
            report(f);
        }
    });
    let s_len = 5u32;
    let suf_len = ctx.tier.pick(3u32, 5u32);
    let n_s = count_upto(k, s_len);
    let n_suf = count_upto(k, suf_len);
    let sufs: Vec<(String, Vec<u8>)> = (0..n_suf)
        .map(|i| {
            let mut s = String::new();
            nth_string(&SYMS, i, &mut s);
            let mut d = vec![];
            digits_of(k, i, &mut d);
            (s, d)
        })
        .collect();
    par_for(ctx.threads, n_s, 16, |_slot, i| {
        let mut s = String::new();
        nth_string(&SYMS, i, &mut s);
        let mut d = vec![];
        digits_of(k, i, &mut d);
        let (mut e, mut nt) = (0u64, 0u64);
        let mut want = String::new();
        for (suf, sd) in &sufs {
            // reference on the symbol sequences: one trailing occurrence removed, or nothing
            let is_suffix = sd.len() <= d.len() && d[d.len() - sd.len()..] == sd[..];
            want.clear();
            let keep = if is_suffix { d.len() - sd.len() } else { d.len() };
            for &x in &d[..keep] {
                want.push_str(SYMS[x as usize]);
            }
            e += 2;
            if is_suffix && !sd.is_empty() {
                nt += 2;
            }
            for f in check_trim(&s, suf, &want, is_suffix) {
                report(f);
            }
        }
        pc.add(e, nt);
    });
    // near-casings of "false": one letter replaced by a character that a case mapping (upper, lower or
    // fold) sends onto an ASCII letter or that merely looks like one; none of them is a casing of "false"
    let exotic = ['ſ', 'K', 'İ', 'ı', 'ß', 'ﬀ', 'ﬁ', 'ﬆ', 'Å', 'Ｆ', 'ｆ', 'ᶠ', 'ǅ', 'ẞ', 'ᴀ', 'ᴇ', 'ʟ', 'ꜱ', 'ꜰ'];
    for c in &false_casings() {
        let cs: Vec<char> = c.chars().collect();
        for i in 0..cs.len() {
            for x in exotic {
                let mut v = cs.clone();
                v[i] = x;
                let s: String = v.iter().collect();
                pc.add(4, 4);
                for f in check_string_unary(&s) {
                    report(f);
                }
                let mut w = cs.clone();
                w.insert(i, x);
                let s: String = w.iter().collect();
                pc.add(4, 4);
                for f in check_string_unary(&s) {
                    report(f);
                }
            }
        }
    }
    // every casing of "false" with short affixes
    let affixes = ["", " ", "0", "f", "é", "E"];
    let casings = false_casings();
    for c in &casings {
        for pre in affixes {
            for post in affixes {
                let s = format!("{}{}{}", pre, c, post);
                pc.add(4, 4);
                for f in check_string_unary(&s) {
                    report(f);
                }
                for suf in [post.to_string(), format!("{}{}", c, post), "false".to_string(), "E".to_string(), "e".to_string(), s.clone(), format!("x{}", s)] {
                    let (want, is_suffix) = ref_trim_chars(&s, &suf);
                    pc.add(2, if is_suffix { 2 } else { 0 });
                    for f in check_trim(&s, &suf, &want, is_suffix) {
                        report(f);
                    }
                }
            }
        }
    }
    bounds.push(format!(
        "(c) size/to_bool: all strings len<={} over {:?} + 32 casings of \"false\" x 6 prefixes x 6 suffixes + every casing with one letter replaced by / preceded by one of 19 case-mapping look-alikes (long s, Kelvin sign, dotted I, ligatures, small capitals, fullwidth); trim_suffix: all strings len<={} x all suffixes len<={} over the same alphabet (str and String impls)",
        unary_len, SYMS, s_len, suf_len
    ));
    samples.push(J::obj([
        ("case", J::s("\"é€a\".trim_suffix(\"€a\"), \"FaLsE\".to_bool(), \" false\".to_bool(), \"a€é\".size()")),
        (
            "observed",
            J::s(catch_unwind(|| {
                format!(
                    "{:?} {} {} {}",
                    <str as StringExt>::trim_suffix("é€a", "€a"),
                    <str as StringExt>::to_bool("FaLsE"),
                    <str as StringExt>::to_bool(" false"),
                    <str as StringExt>::size("a€é")
                )
            })
            .unwrap_or_else(|_| "<panicked>".to_string())),
        ),
    ]));

    // ---- (d) Option::has -----------------------------------------------------------------------
    let pd = Part::default();
    let (fails, e, nt) = check_has();
    pd.add(e, nt);
    for f in fails {
        report(f);
    }
    bounds.push("(d) has: {None, Some(s)} x s over all strings len<=2 (String option vs &str and String), Option<i32> over -3..=3, Option<Component> over 5 components".into());

    // ---- (e) take_while_p ----------------------------------------------------------------------
    let pe = Part::default();
    let seq_len = ctx.tier.pick(6u32, 9u32);
    let n_seq = count_upto(3, seq_len);
    par_for(if n_seq <= 5_000 { 1 } else { ctx.threads }, n_seq, 64, |_slot, i| {
        let mut d = vec![];
        digits_of(3, i, &mut d);
        for pid in 0..PREDS.len() {
            for mode in 0..MODES.len() {
                let kk = d.iter().position(|&x| !pred(pid, x)).unwrap_or(d.len());
                pe.add(1, (kk > 0 && kk < d.len()) as u64);
                if let Some(f) = check_twp(&d, pid, mode) {
                    report(f);
                }
            }
        }
    });
    bounds.push(format!("(e) take_while_p: all sequences len<={} over {{0,1,2}} x predicates {:?} x drive modes {:?}", seq_len, PREDS, MODES));

    // ---- (f) defer -----------------------------------------------------------------------------
    let pf = Part::default();
    pf.add(5, 5);
    for f in defer_history_probe() {
        report(f);
    }
    bounds.push("(f) defer histories: a guard whose closure panics / a guard made inside a guard's closure / a scope left by unwinding, each followed by ordinary guards, on fresh threads and all in a row on one thread".to_string());
    let spaces: Vec<(Vec<usize>, Vec<u8>)> = if thorough {
        vec![(vec![1, 1], vec![0, 1, 2, 3]), (vec![2, 1], vec![0, 1, 2, 3]), (vec![1, 2], vec![0, 1, 2, 3]), (vec![2], vec![0, 1, 2, 3])]
    } else {
        vec![(vec![1, 1], vec![0, 1, 2, 3]), (vec![2, 1], vec![0, 1, 2, 3])]
    };
    for (kids, variants) in &spaces {
        let sp = DeferSpace::new(kids);
        let total = sp.total();
        for &variant in variants {
            // small spaces run on one thread so that the first witness per signature is the simplest
            par_for(if total <= 10_000 { 1 } else { ctx.threads }, total, 512, |_slot, i| {
                let root = sp.build(0, i, variant, &mut Ids { scope: 0, guard: 0 });
                let (fail, nguards) = check_defer(&root);
                pf.add(1, (nguards >= 2) as u64);
                if let Some(f) = fail {
                    report(f);
                }
            });
        }
        bounds.push(format!(
            "(f) defer: nesting depth <= {}, <= 2 guards per scope, nested scopes per scope by level {:?}, exit fall-through/early-return/panic per scope: {} shapes x {} guard-kind assignments (0 all defer(), 1 all defer!, 2/3 alternating)",
            kids.len() + 1,
            kids,
            total,
            variants.len()
        ));
    }
    // thorough only: the space with two nested scopes at both levels has ~2*10^8 shapes, almost
    // all of which differ only in statements that are never reached (they follow a nested scope that
    // returns or panics). Every shape is generated; the ones without unreachable statements are
    // executed (complete for that sub-space), the rest is covered by a labelled random supplement.
    let mut defer_sampled = 0u64;
    if thorough {
        let sp = DeferSpace::new(&[2, 2]);
        let total = sp.total();
        let ran = AtomicU64::new(0);
        par_for(ctx.threads, total, 1 << 16, |_slot, i| {
            let root = sp.build(0, i, 2, &mut Ids { scope: 0, guard: 0 });
            if !fully_reachable(&root).0 {
                return;
            }
            ran.fetch_add(1, Ordering::Relaxed);
            for variant in [2u8, 0, 1, 3] {
                let root = sp.build(0, i, variant, &mut Ids { scope: 0, guard: 0 });
                let (fail, nguards) = check_defer(&root);
                pf.add(1, (nguards >= 2) as u64);
                if let Some(f) = fail {
                    report(f);
                }
            }
        });
        bounds.push(format!(
            "(f) defer: nesting depth <= 3, <= 2 guards and <= 2 nested scopes per scope at both levels: {} shapes generated, the {} without unreachable statements executed x 4 guard-kind assignments",
            total,
            ran.load(Ordering::Relaxed)
        ));
        let n = 4_000_000u64;
        let seed = ctx.seed;
        par_for(ctx.threads, n, 4096, |_slot, i| {
            let mut rng = Rng(seed ^ 0xC19 ^ i.wrapping_mul(0x9E3779B97F4A7C15));
            let idx = rng.below(total);
            let root = sp.build(0, idx, (i % 4) as u8, &mut Ids { scope: 0, guard: 0 });
            if let (Some(f), _) = check_defer(&root) {
                report(f);
            }
        });
        defer_sampled = n;
    }
    for text in ["{g{mP}gF}", "{m{g{gmR}F}mF}"] {
        let root = parse_program(text).expect("sample program");
        let cx = Cx { log: RefCell::new(vec![]) };
        let r = catch_unwind(AssertUnwindSafe(|| run_scope(&root, &cx)));
        samples.push(J::obj([
            ("case", J::s(format!("defer program {}", text))),
            ("observed", J::s(format!("{:?} ending {:?}", cx.log.borrow(), r.map_err(|_| "panic")))),
        ]));
    }

    let parts = [&pa, &pb, &pc, &pd, &pe, &pf];
    let evals: u64 = parts.iter().map(|p| p.evals.load(Ordering::Relaxed)).sum();
    let nontrivial: u64 = parts.iter().map(|p| p.nontrivial.load(Ordering::Relaxed)).sum();
    let cov = J::obj([
        ("evaluations", J::i(evals)),
        ("distinct_nontrivial", J::i(nontrivial)),
        (
            "rule",
            J::s(
                "evaluations = calls compared with the reference, all inputs distinct by construction (odometer enumeration). non-trivial: \
                 (a) expected output is a proper non-empty sub-sequence; path helpers on >= 2 components; (b) non-empty sequences; \
                 (c) size/to_bool on strings with multi-byte characters or a casing of \"false\", trim_suffix where a non-empty suffix matches; \
                 (d) pairs where the option contains the value; (e) the predicate holds for a proper non-empty prefix; \
                 (f) programs in which at least two guards are created at run time.",
            ),
        ),
        (
            "per_part",
            J::obj([
                ("a_drop_slice_pathhelpers", pa.j()),
                ("b_first_last_single_some_consume", pb.j()),
                ("c_strings", pc.j()),
                ("d_option_has", pd.j()),
                ("e_take_while_p", pe.j()),
                ("f_defer_programs", pf.j()),
            ]),
        ),
        ("slice_pairs_outside_precondition_skipped", J::i(skipped_precondition)),
        ("defer_sampling_supplement_programs", J::i(defer_sampled)),
        ("samples", J::Arr(samples)),
        ("exhaustive", J::Bool(true)),
        ("bounds", J::strs(bounds.iter())),
    ]);
    finish(ctx, Evidence {
        level: "exploration",
        coverage: cov,
        assumptions: vec![
            "the value of slice(left, right) is only judged for left >= -len (the statement's precondition); pairs outside it are executed and only a panic is reported".into(),
            "error variants are only judged where the variant's own doc comment contradicts the situation (ItemNotFound on a non-empty sequence, MultipleItemsFound on fewer than two items)".into(),
            "path helpers first/last on the empty path: only 'no panic' is required (docs are silent)".into(),
            "defer: a scope is a Rust block in its own function frame; an early return propagates through enclosing scopes like `?`; panics are caught outside the outermost scope".into(),
            "build uses overflow-checks and debug-assertions (harness profile), so arithmetic overflow in the helpers would show up as a panic".into(),
        ],
    })
}

// =================================================================================================
// replay
// =================================================================================================
fn replay(ctx: &Ctx, file: &std::path::Path) -> i32 {
    let j = json::parse(&std::fs::read_to_string(file).expect("read replay")).expect("parse replay");
    let case = j.get("case").expect("case");
    let part = case.get("part").and_then(|x| x.as_str()).expect("case.part");
    let geti = |k: &str| case.get(k).and_then(|x| x.as_i64()).unwrap_or_else(|| panic!("case.{}", k));
    let gets = |k: &str| case.get(k).and_then(|x| x.as_str()).unwrap_or_else(|| panic!("case.{}", k)).to_string();
    println!("replay C19 case={}", case.to_string());
    let mut fails: Vec<Fail> = vec![];
    match part {
        "drop" | "slice" => {
            let src = Src::from_name(&gets("src")).expect("src");
            let len = geti("len") as usize;
            let op = if part == "drop" { Op::Drop(geti("n") as isize) } else { Op::Slice(geti("left") as isize, geti("right") as isize) };
            let items = base_items(src, len);
            println!("  items    : {:?}", items);
            println!("  observed : {:?}", apply(src, len, op));
            match op {
                Op::Drop(n) => println!("  expected : {:?}", ref_drop(&items, n)),
                Op::Slice(l, r) if l >= -(len as isize) => println!("  expected : {:?}", ref_slice(&items, l, r)),
                _ => println!("  expected : (outside the precondition left >= -len: the value is not judged, a panic is still a violation)"),
            }
            if let Some(Some(f)) = check_op(src, len, op) {
                fails.push(f);
            }
        },
        "path_helpers" => {
            let src = Src::from_name(&gets("src")).expect("src");
            fails.extend(check_path_helpers(src, geti("len") as usize));
        },
        "basic" => {
            let src = Src::from_name(&gets("src")).expect("src");
            fails.extend(check_basic(src, geti("len") as usize));
        },
        "string_unary" => {
            let s = gets("s");
            println!(
                "  observed : size={:?} to_bool={:?}",
                catch_unwind(AssertUnwindSafe(|| <str as StringExt>::size(&s))).map_err(pmsg),
                catch_unwind(AssertUnwindSafe(|| <str as StringExt>::to_bool(&s))).map_err(pmsg)
            );
            println!("  expected : size={} to_bool={}", s.chars().count(), !(s.is_empty() || s == "0" || is_false_word(&s)));
            fails.extend(check_string_unary(&s));
        },
        "trim_suffix" => {
            let (s, suf) = (gets("s"), gets("suffix"));
            let (want, is_suffix) = ref_trim_chars(&s, &suf);
            println!("  observed : {:?}", catch_unwind(AssertUnwindSafe(|| <str as StringExt>::trim_suffix(&s, suf.as_str()))).map_err(pmsg));
            println!("  expected : {:?}", want);
            fails.extend(check_trim(&s, &suf, &want, is_suffix));
        },
        "has" | "has_int" | "has_component" => {
            // the domain is tiny: re-run all of it and keep the failures of this part
            let (f, _, _) = check_has();
            fails.extend(f.into_iter().filter(|x| x.2.get("part").and_then(|p| p.as_str()) == Some(part)));
        },
        "take_while_p" => {
            let seq: Vec<u8> = case.get("seq").and_then(|x| x.as_arr()).expect("case.seq").iter().map(|x| x.as_i64().expect("int") as u8).collect();
            {
                let pid = geti("pred") as usize;
                let k = seq.iter().position(|&x| !pred(pid, x)).unwrap_or(seq.len());
                let mut pk = seq.clone().into_iter().peekable();
                let got = catch_unwind(AssertUnwindSafe(|| pk.take_while_p(|x| pred(pid, *x)).collect::<Vec<u8>>())).map_err(pmsg);
                println!("  observed : prefix {:?}, then next() = {:?}", got, pk.next());
                println!("  expected : prefix {:?}, then next() = {:?}", &seq[..k], seq.get(k));
            }
            if let Some(f) = check_twp(&seq, geti("pred") as usize, geti("mode") as usize) {
                fails.push(f);
            }
        },
        "defer-history" => {
            fails.extend(defer_history_probe());
        },
        "defer" => {
            let root = parse_program(&gets("program")).expect("program text");
            let (mut want, mut flows) = (vec![], BTreeMap::new());
            let want_flow = model(&root, &mut want, &mut flows);
            let cx = Cx { log: RefCell::new(vec![]) };
            let r = catch_unwind(AssertUnwindSafe(|| run_scope(&root, &cx)));
            println!("  observed : {:?} ending {:?}", cx.log.borrow(), r.unwrap_or(Flow::Panic));
            println!("  expected : {:?} ending {:?}", want, want_flow);
            if let (Some(f), _) = check_defer(&root) {
                fails.push(f);
            }
        },
        other => {
            eprintln!("machinery: unknown C19 replay part {:?}", other);
            return 2;
        },
    }
    if fails.is_empty() {
        println!("holds");
        return 0;
    }
    for (sig, detail, _) in &fails {
        println!("{}\n  signature: {}", detail, sig);
    }
    println!("VIOLATION property={} replay={}", ctx.prop, file.display());
    1
}
